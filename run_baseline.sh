#!/bin/sh
# runs the repository's pinned test suite (guard off: there are no hooks) and compares with BASELINE.json
OUT=${1:-/tmp/verif_baseline_$$.xml}
cd /repo && /venv/bin/python -m pytest -ra -q -p no:cacheprovider --timeout=900 --continue-on-collection-errors --junitxml=$OUT > ${OUT%.xml}.log 2>&1
/venv/bin/python - "$OUT" <<'PY'
import json, sys
import xml.etree.ElementTree as ET
b = json.load(open('/root/.vp/BASELINE.json'))
want = set(b['stable_pass'])
t = ET.parse(sys.argv[1])
ok = set()
for tc in t.iter('testcase'):
    bad = any(c.tag in ('failure', 'error', 'skipped') for c in tc)
    if not bad:
        ok.add(tc.get('classname') + '::' + tc.get('name'))
missing = sorted(want - ok)
print('baseline stable_pass=%d passed_now=%d missing=%d' % (len(want), len(want & ok), len(missing)))
for m in missing:
    print('  MISSING', m)
sys.exit(1 if missing else 0)
PY
