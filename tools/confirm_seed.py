#!/usr/bin/env python3
"""Confirm a seeded change and file it under /verif/seeded/.

  python3 tools/confirm_seed.py <Cxx> <k> [--skip-tests]

Takes /tmp/seed/out_<Cxx>/patch<k>.diff + demo<k>.py + note<k>.md (written by a sub-agent
that saw only the property text), and in the scratch worktree /tmp/seed/wt_<Cxx>:
  1. demo on the clean tree            -> must exit 0
  2. git apply patch; demo             -> must exit != 0
  3. pinned test suite with the patch  -> every stable_pass test must still pass
  4. our check on a scratch copy with the patch -> records whether it fires
  5. git checkout -- . ; demo          -> must exit 0 again
and prints the confirmation record (filed afterwards by tools/refile_seed.py).
"""
import json
import os
import shutil
import subprocess
import sys
import tempfile
import xml.etree.ElementTree as ET

pid, k = sys.argv[1].upper(), sys.argv[2]
skip_tests = "--skip-tests" in sys.argv
TAG = os.environ.get("SEED_TAG", "")
WT = "/tmp/seed/wt%s_%s" % (TAG, pid)
OUT = "/tmp/seed/out%s_%s" % (os.environ.get("SEED_TAG", ""), pid)
patch = os.path.join(OUT, "patch%s.diff" % k)
demo = os.path.join(OUT, "demo%s.py" % k)
note = os.path.join(OUT, "note%s.md" % k)
PY = "/venv/bin/python"


def sh(cmd, **kw):
    return subprocess.run(cmd, shell=isinstance(cmd, str), capture_output=True, text=True, **kw)


def run_demo():
    p = sh([PY, demo], cwd=WT, timeout=1800)
    return p.returncode, (p.stdout + p.stderr)[-400:]


res = {"property": pid, "seed": k}
assert sh("git -C %s status --porcelain" % WT).stdout.strip() == "", "worktree not clean"
rc0, _ = run_demo()
res["demo_clean_exit"] = rc0
a = sh("git -C %s apply %s" % (WT, patch))
assert a.returncode == 0, "patch does not apply: " + a.stderr
try:
    rc1, tail1 = run_demo()
    res["demo_patched_exit"] = rc1
    res["demo_patched_tail"] = tail1
    if not skip_tests:
        xml = tempfile.mktemp(suffix=".xml")
        sh("cd %s && %s -m pytest -q -p no:cacheprovider --timeout=900 --continue-on-collection-errors --junitxml=%s" % (WT, PY, xml), timeout=3600)
        b = json.load(open("/root/.vp/BASELINE.json"))
        want = set(b["stable_pass"])
        ok = set()
        for tc in ET.parse(xml).iter("testcase"):
            if not any(c.tag in ("failure", "error", "skipped") for c in tc):
                ok.add(tc.get("classname") + "::" + tc.get("name"))
        res["tests_stable_pass"] = len(want & ok)
        res["tests_missing"] = sorted(want - ok)
        os.remove(xml)
    # our check on a scratch copy
    tmp = tempfile.mkdtemp(prefix="verif_seed_")
    try:
        shutil.copytree(os.path.join(WT, "tf_pwa"), os.path.join(tmp, "tf_pwa"), ignore=shutil.ignore_patterns("__pycache__"))
        c = sh(["python3-vt", "/verif/sa/check.py", pid, "--repo", tmp, "--no-evidence"], timeout=900)
        res["check_exit"] = c.returncode
        det = [l for l in c.stdout.splitlines() if "VIOLATION-DETAIL" in l]
        res["check_report"] = [d.strip()[:400] for d in det[:4]]
        # other claimed checks that also fire
        others = {}
        for other in sys.argv[3:]:
            if other.startswith("C"):
                c2 = sh(["python3-vt", "/verif/sa/check.py", other, "--repo", tmp, "--no-evidence"], timeout=900)
                others[other] = c2.returncode
        if others:
            res["other_checks"] = others
    finally:
        shutil.rmtree(tmp, ignore_errors=True)
finally:
    sh("git -C %s checkout -- ." % WT)
    sh("cd %s && git clean -fdq" % WT)
rc2, _ = run_demo()
res["demo_reverted_exit"] = rc2
confirmed = rc0 == 0 and rc1 != 0 and rc2 == 0 and (skip_tests or not res.get("tests_missing"))
res["confirmed"] = confirmed
print(json.dumps(res, indent=1))
# filing under /verif/seeded/ is done by tools/refile_seed.py <Cxx> <k> <dest index>
sys.exit(0 if confirmed else 1)
