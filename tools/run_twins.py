#!/usr/bin/env python3
"""Run every claimed check on every behaviour-preserving refactoring patch in the given directories.
   python3 tools/run_twins.py /tmp/seed/out_R1 /tmp/seed/out_R2 ...   -> prints every non-zero exit"""
import glob, json, os, shutil, subprocess, sys, tempfile
from concurrent.futures import ThreadPoolExecutor
claimed = [c["property_id"] for c in json.load(open("/verif/MANIFEST.json"))["checks"]]
patches = []
for d in sys.argv[1:]:
    patches += sorted(glob.glob(os.path.join(d, "refactor*.diff")) + glob.glob(os.path.join(d, "patch.diff")))
def run(patch):
    tmp = tempfile.mkdtemp(prefix="verif_twin_")
    out = []
    try:
        shutil.copytree("/repo/tf_pwa", os.path.join(tmp, "tf_pwa"), ignore=shutil.ignore_patterns("__pycache__"))
        p = subprocess.run(["patch", "-p1", "-s", "-d", tmp, "-i", patch], capture_output=True, text=True)
        if p.returncode != 0:
            return patch, [("PATCH", 3, (p.stdout + p.stderr)[-200:])]
        for pid in claimed:
            c = subprocess.run(["python3-vt", "/verif/sa/check.py", pid, "--repo", tmp, "--no-evidence"], capture_output=True, text=True, timeout=900)
            if c.returncode != 0:
                det = [l.strip()[:260] for l in c.stdout.splitlines() if "VIOLATION-DETAIL" in l or "ANALYSIS-ERROR" in l][:3]
                out.append((pid, c.returncode, det))
    finally:
        shutil.rmtree(tmp, ignore_errors=True)
    return patch, out
bad = 0
with ThreadPoolExecutor(8) as ex:
    for patch, out in ex.map(run, patches):
        if out:
            bad += 1
            print("==", patch)
            for o in out:
                print("   ", o)
print("twins: %d patches, %d with a non-zero exit" % (len(patches), bad))
