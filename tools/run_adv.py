#!/usr/bin/env python3
"""Run the check named in each adversarial finding (advK.txt: 'check: Cxx') on a scratch copy with the diff applied.
   python3 tools/run_adv.py <dir> -> prints file, check, exit"""
import glob, os, re, shutil, subprocess, sys, tempfile
from concurrent.futures import ThreadPoolExecutor
d = sys.argv[1]
def run(diff):
    txt = diff[:-5] + ".txt"
    pids = sorted(set(re.findall(r"\bC\d\d\b", open(txt).read().split("rule condition")[0]))) if os.path.exists(txt) else []
    tmp = tempfile.mkdtemp(prefix="verif_adv_")
    out = []
    try:
        shutil.copytree("/repo/tf_pwa", os.path.join(tmp, "tf_pwa"), ignore=shutil.ignore_patterns("__pycache__"))
        p = subprocess.run(["patch", "-p1", "-s", "-d", tmp, "-i", diff], capture_output=True, text=True)
        if p.returncode != 0:
            return diff, [("PATCH", 3, p.stdout[-100:])]
        for pid in pids:
            c = subprocess.run(["python3-vt", "/verif/sa/check.py", pid, "--repo", tmp, "--no-evidence"], capture_output=True, text=True, timeout=900)
            det = [l.strip()[:230] for l in c.stdout.splitlines() if "VIOLATION-DETAIL" in l or "ANALYSIS-ERROR" in l][:1]
            out.append((pid, c.returncode, det))
    finally:
        shutil.rmtree(tmp, ignore_errors=True)
    return diff, out
diffs = sorted(glob.glob(os.path.join(d, "*.diff")), key=lambda s: (len(s), s))
bad = 0
with ThreadPoolExecutor(8) as ex:
    for diff, out in ex.map(run, diffs):
        nz = [o for o in out if o[1] != 0]
        if nz:
            bad += 1
        print(os.path.basename(diff), " ".join("%s:%d" % (o[0], o[1]) for o in out), (nz[0][2][0] if nz and nz[0][2] else "")[:200])
print("adversarial: %d diffs, %d still non-zero" % (len(diffs), bad))
