#!/bin/sh
# usage: tools/confirm_all.sh C16 C15 ...   (two seeds per property, sequential within a property, properties in parallel)
for p in "$@"; do
  ( for k in 1 2; do
      if [ -f /tmp/seed/out_$p/patch$k.diff ]; then
        python3 /verif/tools/confirm_seed.py $p $k > /tmp/seed/confirm_${p}_$k.json 2>&1
      fi
    done ) &
done
wait
