#!/usr/bin/env python3
"""(Re)file a confirmed seed under /verif/seeded/ using the stored confirmation result and a fresh run of our check.
   python3 tools/refile_seed.py <Cxx> <k> [<dest index>]"""
import json, os, shutil, subprocess, sys, tempfile
pid, k = sys.argv[1].upper(), sys.argv[2]
dest_k = sys.argv[3] if len(sys.argv) > 3 else k
res = json.load(open("/tmp/seed/confirm%s_%s_%s.json" % (os.environ.get("SEED_TAG", ""), pid, k)))
assert res["confirmed"], "not confirmed"
OUT = "/tmp/seed/out%s_%s" % (os.environ.get("SEED_TAG", ""), pid)
patch, demo, note = [os.path.join(OUT, n % k) for n in ("patch%s.diff", "demo%s.py", "note%s.md")]
tmp = tempfile.mkdtemp(prefix="verif_seed_")
try:
    shutil.copytree("/repo/tf_pwa", os.path.join(tmp, "tf_pwa"), ignore=shutil.ignore_patterns("__pycache__"))
    p = subprocess.run(["patch", "-p1", "-s", "-d", tmp, "-i", patch], capture_output=True, text=True)
    assert p.returncode == 0, p.stdout + p.stderr
    c = subprocess.run(["python3-vt", "/verif/sa/check.py", pid, "--repo", tmp, "--no-evidence"], capture_output=True, text=True, timeout=900)
    others = {}
    if c.returncode != 1:
        claimed = [x["property_id"] for x in json.load(open("/verif/MANIFEST.json"))["checks"] if x["property_id"] != pid]
        from concurrent.futures import ThreadPoolExecutor
        def run(o):
            r = subprocess.run(["python3-vt", "/verif/sa/check.py", o, "--repo", tmp, "--no-evidence"], capture_output=True, text=True, timeout=900)
            return o, r.returncode, [l.strip()[:300] for l in r.stdout.splitlines() if "VIOLATION-DETAIL" in l][:2]
        with ThreadPoolExecutor(8) as ex:
            for o, rc, det in ex.map(run, claimed):
                if rc == 1:
                    others[o] = det
finally:
    shutil.rmtree(tmp, ignore_errors=True)
det = [l.strip()[:400] for l in c.stdout.splitlines() if "VIOLATION-DETAIL" in l][:4]
d = "/verif/seeded/%s_%s" % (pid, dest_k)
os.makedirs(d, exist_ok=True)
shutil.copy(patch, os.path.join(d, "patch.diff")); shutil.copy(demo, os.path.join(d, "demo.py"))
if os.path.exists(note): shutil.copy(note, os.path.join(d, "note.md"))
meta = {
 "property": pid,
 "breaks": open("/tmp/seed/prop_%s.txt" % pid).read().splitlines()[0],
 "needs": open(note).read()[:1500] if os.path.exists(note) else "",
 "ran": [
  "demo on a clean scratch worktree -> exit %d" % res["demo_clean_exit"],
  "git apply patch.diff; demo -> exit %d" % res["demo_patched_exit"],
  "pinned test suite with the patch -> %s of 98 stable_pass tests pass" % res.get("tests_stable_pass"),
  "git checkout -- .; demo -> exit %d" % res["demo_reverted_exit"],
  "python3-vt sa/check.py %s --repo <scratch copy of /repo with the patch> -> exit %d" % (pid, c.returncode),
 ],
 "check_exit": c.returncode, "check_report": det,
 "expect": "fire" if c.returncode == 1 else "miss",
 "also_fire": sorted(others),
 "also_fire_reports": others,
}
json.dump(meta, open(os.path.join(d, "meta.json"), "w"), indent=1)
print(pid, k, "check exit", c.returncode, "->", meta["expect"], "also caught by", sorted(others))
