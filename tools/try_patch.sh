#!/bin/sh
# usage: tools/try_patch.sh <Cxx> <patch> : run check Cxx on a scratch copy of /repo with the patch applied
T=$(mktemp -d /tmp/verif_try_XXXX); cp -r /repo/tf_pwa $T/; patch -p1 -s -d $T -i $2 || { echo "patch failed"; rm -rf $T; exit 3; }
python3-vt /verif/sa/check.py $1 --repo $T --no-evidence 2>&1 | grep -E "VIOLATION-DETAIL|^OK|ANALYSIS-ERROR" | cut -c1-330
rm -rf $T
