#!/usr/bin/env python3
"""Re-run our check on filed seeds and refresh check_exit / check_report / expect in their meta.json.
   python3 tools/refresh_seed_meta.py <seed dir name> [...]   (e.g. C11_1)"""
import json, os, shutil, subprocess, sys, tempfile
for name in sys.argv[1:]:
    d = "/verif/seeded/%s" % name
    meta = json.load(open(d + "/meta.json"))
    pid = meta["property"]
    tmp = tempfile.mkdtemp(prefix="verif_seed_")
    try:
        shutil.copytree("/repo/tf_pwa", os.path.join(tmp, "tf_pwa"), ignore=shutil.ignore_patterns("__pycache__"))
        p = subprocess.run(["patch", "-p1", "-s", "-d", tmp, "-i", d + "/patch.diff"], capture_output=True, text=True)
        assert p.returncode == 0, p.stdout + p.stderr
        c = subprocess.run(["python3-vt", "/verif/sa/check.py", pid, "--repo", tmp, "--no-evidence"], capture_output=True, text=True, timeout=900)
    finally:
        shutil.rmtree(tmp, ignore_errors=True)
    det = [l.strip()[:400] for l in c.stdout.splitlines() if "VIOLATION-DETAIL" in l][:4]
    meta["ran"] = [r for r in meta["ran"] if not r.startswith("python3-vt sa/check.py")] + ["python3-vt sa/check.py %s --repo <scratch copy of /repo with the patch> -> exit %d" % (pid, c.returncode)]
    meta["check_exit"], meta["check_report"] = c.returncode, det
    meta["expect"] = "fire" if c.returncode == 1 else "miss"
    json.dump(meta, open(d + "/meta.json", "w"), indent=1)
    print(name, "exit", c.returncode, meta["expect"])
