"""Reporting: rule instances, INFO lines, violations, known findings, evidence."""
import json
import os
import re
import sys
import time

VERIF = os.path.dirname(os.path.dirname(os.path.abspath(__file__)))
KNOWN_FILE = os.path.join(VERIF, "KNOWN_FINDINGS.txt")


def load_known(pid):
    """returns {key: description} for `finding:` lines of this property.

    Line format:
      finding: property=C17 key=<rule>|<function>|<construct> :: <what fails>
      fixed: property=C17 <commit> <what failed>          (suppresses nothing)
    """
    out = {}
    if not os.path.exists(KNOWN_FILE):
        return out
    for line in open(KNOWN_FILE, encoding="utf-8"):
        line = line.strip()
        if not line.startswith("finding:"):
            continue
        m = re.match(r"finding:\s+property=(\S+)\s+key=(.*?)\s+::\s+(.*)$", line)
        if not m:
            continue
        if m.group(1) == pid:
            out[m.group(2).strip()] = m.group(3).strip()
    return out


class Check:
    def __init__(self, pid, tier="quick", level="other", quiet=False):
        self.pid = pid
        self.tier = tier
        self.level = level
        self.t0 = time.time()
        self.instances = []  # (rule, text, nontrivial)
        self.infos = []
        self.violations = []  # dict
        self.assumptions = []
        self.rules = {}
        self.obligations = 0
        self.discharged = 0
        self.extra = {}
        self.trusted_base = []
        self.quiet = quiet
        self.seed = int(os.environ.get("VERIF_SEED", "0") or 0)
        self.min_counts = {}
        self.write_evidence = True

    def out(self, s):
        if not self.quiet:
            print(s)
            sys.stdout.flush()

    def rule(self, rid, text):
        self.rules[rid] = text

    def instance(self, rule, text, nontrivial=True, show=True):
        self.instances.append((rule, text, bool(nontrivial)))
        if show:
            self.out("  [%s] %s" % (rule, text))

    def oblige(self, rule, text, ok, nontrivial=True, show=True):
        """a proof obligation (E5/E6): counted, and discharged when ok"""
        self.obligations += 1
        if ok:
            self.discharged += 1
        self.instances.append((rule, text, bool(nontrivial)))
        if show:
            self.out("  [%s] %s %s" % (rule, "ok  " if ok else "FAIL", text))

    def info(self, text):
        self.infos.append(text)
        self.out("  INFO %s" % text)

    def assume(self, text):
        if text not in self.assumptions:
            self.assumptions.append(text)

    def require_count(self, rule, n):
        """fail closed (exit 2) if fewer than n instances of `rule` were matched"""
        self.min_counts[rule] = n

    def new_violations(self):
        """violations that are not listed as known findings"""
        known = load_known(self.pid)
        return [v for v in self.violations if v["key"] not in known]

    def violation(self, rule, where, construct, msg, file=None, line=None, path=None):
        """key = rule|where|construct  (no line numbers in the key)"""
        key = "%s|%s|%s" % (rule, where, construct)
        self.violations.append(
            {
                "key": key,
                "rule": rule,
                "function": where,
                "construct": construct,
                "message": msg,
                "file": file,
                "line": line,
                "path": path,
            }
        )

    def finish(self):
        from .model import AnalysisError

        for rule, n in self.min_counts.items():
            got = sum(1 for r, _, _ in self.instances if r == rule)
            if got < n and not any(v["rule"] == rule for v in self.violations):
                raise AnalysisError(
                    "rule %s matched %d instances, fewer than the %d confirmed by hand "
                    "(vacuous pass refused)" % (rule, got, n)
                )
        known = load_known(self.pid)
        new = []
        seen = set()
        for v in self.violations:
            if v["key"] in seen:
                continue
            seen.add(v["key"])
            if v["key"] in known:
                self.out("KNOWN-FINDING: property=%s %s :: %s" % (self.pid, v["key"], known[v["key"]]))
            else:
                new.append(v)
        wall = time.time() - self.t0
        ev_dir = os.path.join(VERIF, "evidence")
        if not self.write_evidence:
            import tempfile

            ev_dir = tempfile.mkdtemp(prefix="verif_ev_")
        os.makedirs(ev_dir, exist_ok=True)
        replay = None
        if new:
            rdir = os.path.join(ev_dir, "replay")
            os.makedirs(rdir, exist_ok=True)
            replay = os.path.join(rdir, "%s.json" % self.pid)
            with open(replay, "w") as f:
                json.dump({"property": self.pid, "violations": new}, f, indent=1, default=str)
        distinct = len({(r, t) for r, t, nt in self.instances if nt})
        samples = []
        per_rule = {}
        for r, t, nt in self.instances:
            per_rule.setdefault(r, 0)
            per_rule[r] += 1
            if sum(1 for s in samples if s.startswith("[%s]" % r)) < 4:
                samples.append("[%s] %s" % (r, t))
        cov = {
            "evaluations": len(self.instances),
            "distinct_nontrivial": distinct,
            "rule": "rule instances enumerated from /repo's AST by the rules listed under 'rules'; "
            "an instance is non-trivial when the rule has something to decide there "
            "(e.g. a save/restore pair with a write in between, a table entry, a binding of a named option)",
            "samples": samples[:40],
            "explanation": "static analysis of the current source tree (no tf_pwa import, no execution): "
            + "; ".join("%s: %s" % (k, v) for k, v in self.rules.items()),
            "rules": self.rules,
            "instances_per_rule": per_rule,
            "info": self.infos[:60],
            "violations_detail": [v["key"] for v in new],
            "known_findings_hit": [v["key"] for v in self.violations if v["key"] in known],
        }
        if self.level == "proof":
            cov.update(
                {
                    "obligations": self.obligations,
                    "discharged": self.discharged,
                    "checker_cmd": "python3-vt sa/check.py %s --tier %s" % (self.pid, self.tier),
                    "trusted_base": self.trusted_base,
                }
            )
        cov.update(self.extra)
        ev = {
            "property_id": self.pid,
            "tier": self.tier,
            "seed": self.seed,
            "level": self.level,
            "coverage": cov,
            "assumptions": self.assumptions,
            "wall_s": round(wall, 3),
            "violations": len(new),
        }
        with open(os.path.join(ev_dir, "%s.json" % self.pid), "w") as f:
            json.dump(ev, f, indent=1, default=str)
        if new:
            for v in new:
                self.out(
                    "  VIOLATION-DETAIL %s:%s %s rule=%s construct=%s :: %s"
                    % (v["file"], v["line"], v["function"], v["rule"], v["construct"], v["message"])
                )
            print("VIOLATION property=%s replay=%s" % (self.pid, replay))
            sys.stdout.flush()
            self._cleanup(ev_dir)
            return 1
        self.out(
            "OK property=%s tier=%s instances=%d nontrivial=%d wall=%.2fs"
            % (self.pid, self.tier, len(self.instances), distinct, wall)
        )
        self._cleanup(ev_dir)
        return 0

    def _cleanup(self, ev_dir):
        if not self.write_evidence:
            import shutil

            shutil.rmtree(ev_dir, ignore_errors=True)
