"""Save/restore typestate of model state cells over the statement CFG (E2).

Abstract state = frozenset of facts
   ("D", cell)            the cell has been written since function entry and not restored
   ("S", cell, var)       local `var` holds a snapshot of `cell` taken while the cell was clean
   ("W", with_id, cell)   the cell was dirty when the with-block `with_id` was entered

Transfer (per CFG node, in evaluation order of the statement):
   var = <expression reading cell c>         clean(c): add S(c,var)   dirty(c): kill S(c,var)
   write of c whose value derives from a
     valid snapshot var of c                  remove D(c)             (restore)
   any other write of c (primitive or call)   add D(c)
   with M(...):   M a @contextmanager of the program that is balanced for cells B
                  enter: remember D(c) for c in B; exit (normal, exceptional, return,
                  break, continue): D(c) := remembered value       (scoped restore)
   exception edge out of a node: pre-state of that node (an exception raised by a
     writer is assumed to be raised before its effect; restores are assumed complete)
   'gen' edge out of a yield (GeneratorExit / throw): pre-state.
A violation is D(c) at EXIT or RAISE.
"""
import ast

from .cfg import CFG, EXIT, RAISE, forward, witness_path
from .effects import (CELLS, MULTI_SLOT_CELLS, is_copy_of_cell_read, loop_element_sources,
                      primitive_writes, strict_aliases, strict_names)
from .model import bind_call, const_value, norm_text, walk_stmt


class FnAnalysis:
    def __init__(self, fn, eff, balanced_managers, exposed_of=None, must_rebind_of=None):
        self.exposed_of = exposed_of or {}
        self.must_rebind_of = must_rebind_of or {}
        self.exposed = set()
        self.fn = fn
        self.eff = eff
        self.res = eff.res
        self.balanced = balanced_managers  # Fn -> set(cells) restored on every exit
        self.cfg = CFG(fn.node)
        self.aliases = strict_aliases(fn.node)
        self.elem_src = loop_element_sources(fn.node)
        self.snapshots = []  # (cell, var, node, is_alias)
        self.restores = []  # (cell, var, node)
        self.writes = []  # (cell, node, via)
        self.with_scopes = []  # (with node, manager Fn list, cells)
        self.alias_inplace = []  # (cell, node) in-place write while an alias snapshot is live
        self.coord = []  # (cell, snapshot coord, restore coord, snap node, restore node)
        self._stmt_cache = {}
        self.dirty_exits = []
        self._run()

    # ----------------------------------------------------- statement effects
    def _events(self, node):
        """ordered effect events of a CFG node: ('snap',cell,var,alias) ('write',cell,valnames,astnode,inplace) ('kill',var)"""
        if node.id in self._stmt_cache:
            return self._stmt_cache[node.id]
        ev = []
        a = node.ast
        fn = self.fn
        if node.kind in ("stmt", "test", "for") and a is not None:
            if node.kind == "test":
                scan = a.test
            elif node.kind == "for":
                scan = a.iter
            else:
                scan = a
            if isinstance(a, (ast.FunctionDef, ast.AsyncFunctionDef, ast.ClassDef)) and node.kind == "stmt":
                scan = None
            if scan is not None:
                # calls (writers) inside the statement
                call_events = []
                for n in walk_stmt(scan):
                    if isinstance(n, ast.Call):
                        cells, cands, how = self.eff.call_writes(fn, n)
                        # a local closure (nested def of this function) called without arguments: its primitive writes
                        # happen here, with the values it captured from this scope
                        if how == "local" and cands and not n.args and not n.keywords and all(getattr(c, "parent", None) is fn for c in cands):
                            for c in cands:
                                for st2 in c.node.body:
                                    for cell, mode, n2 in primitive_writes(c, st2):
                                        val2 = getattr(n2, "value", None)
                                        vn = list(n2.args) if isinstance(n2, ast.Call) else ([val2] if val2 is not None else [])
                                        call_events.append(("write", cell, vn, n2, mode == "inplace", []))
                                    # writer calls inside the closure (self.set_used_chains(saved)): the values are the
                                    # closure's captured names, which live in this scope
                                    for n2 in walk_stmt(st2):
                                        if isinstance(n2, ast.Call):
                                            cells2, cands2, how2 = self.eff.call_writes(c, n2)
                                            if cands2 and all(c2.is_contextmanager() for c2 in cands2):
                                                continue
                                            for cell2 in sorted(cells2):
                                                call_events.append(("write", cell2, list(n2.args) + [k.value for k in n2.keywords], n2, False, cands2))
                            continue
                        # a call that only creates a @contextmanager object has no effect by
                        # itself; its effects are modelled at the with-statement
                        if cands and all(c.is_contextmanager() for c in cands):
                            continue
                        for c in sorted(cells):
                            vals = list(n.args) + [k.value for k in n.keywords]
                            call_events.append(("write", c, vals, n, False, cands))
                prim = []
                for cell, mode, n in primitive_writes(fn, scan):
                    val = getattr(n, "value", None)
                    valnames = [val] if val is not None else []
                    if isinstance(n, ast.Call):
                        valnames = list(n.args)
                    if isinstance(n, (ast.For, ast.comprehension)):
                        valnames = []
                    prim.append(("write", cell, valnames, n, mode == "inplace", []))
                ev.extend(call_events)
                ev.extend(prim)
                # snapshot assignment: var = <expr reading cells>
                if isinstance(scan, (ast.Assign, ast.AnnAssign)) and getattr(scan, "value", None) is not None:
                    tgts = scan.targets if isinstance(scan, ast.Assign) else [scan.target]
                    cells = self.eff.expr_read_cells(fn, scan.value)
                    for t in tgts:
                        for nm in [x for x in ast.walk(t) if isinstance(x, ast.Name)]:
                            ev.append(("kill", nm.id))
                        if isinstance(t, ast.Name):
                            for c in sorted(cells):
                                ev.append(("snap", c, t.id, not is_copy_of_cell_read(scan.value), scan))
                elif isinstance(scan, ast.AugAssign) and isinstance(scan.target, ast.Name):
                    ev.append(("kill", scan.target.id))
                # snapshot filled element by element:  old[k] = <expr reading cells>  (old is a local container)
                if isinstance(scan, ast.Assign) and len(scan.targets) == 1 and isinstance(scan.targets[0], ast.Subscript) and isinstance(scan.targets[0].value, ast.Name):
                    base = scan.targets[0].value.id
                    if base not in ("self",):
                        for c in sorted(self.eff.expr_read_cells(fn, scan.value)):
                            ev.append(("snap", c, base, False, scan))
            if node.kind == "for":
                for nm in [x for x in ast.walk(a.target) if isinstance(x, ast.Name)]:
                    ev.append(("kill", nm.id))
                # element-wise snapshot loop:  for k in keys: old[k] = <reader of cell>  - the container `old` is the
                # snapshot from the loop header on (with no iterations there is nothing to save and nothing to write back)
                for sub in a.body:
                    if isinstance(sub, ast.Assign) and len(sub.targets) == 1 and isinstance(sub.targets[0], ast.Subscript) and isinstance(sub.targets[0].value, ast.Name) and sub.targets[0].value.id != "self":
                        for c in sorted(self.eff.expr_read_cells(fn, sub.value)):
                            ev.append(("snap", c, sub.targets[0].value.id, False, sub))
                # element-wise restore loop:  for obj, old in zip(objs, snapshot): obj.cell = old
                tnames = {x.id for x in ast.walk(a.target) if isinstance(x, ast.Name)}
                inames = {x.id for x in ast.walk(a.iter) if isinstance(x, ast.Name)}
                for sub in a.body:
                    for cell, mode, n in primitive_writes(fn, sub):
                        if cell in MULTI_SLOT_CELLS and mode == "rebind":
                            val = getattr(n, "value", None)
                            if val is not None and strict_names(self.aliases, val) & tnames:
                                ev.append(("loop_restore", cell, inames, a))
                            elif isinstance(val, ast.Subscript) and isinstance(val.value, ast.Name) and isinstance(val.slice, ast.Name) and val.slice.id in tnames:
                                # for k, obj in enumerate(objs): obj.cell = snapshot[k]
                                ev.append(("loop_restore", cell, inames | {val.value.id}, a))
                    for n in walk_stmt(sub):
                        if isinstance(n, ast.Call):
                            cells, cands, how = self.eff.call_writes(fn, n)
                            for cell in cells:
                                if cell in MULTI_SLOT_CELLS and any(strict_names(self.aliases, x) & tnames for x in n.args):
                                    ev.append(("loop_restore", cell, inames, a))
        self._stmt_cache[node.id] = ev
        return ev

    def _with_cells(self, wnode):
        """(scoped cells, managers, cells written but not scoped) of a with statement"""
        cells = set()
        mans = []
        unscoped = set()
        for item in wnode.items:
            e = item.context_expr
            if isinstance(e, ast.Call):
                cands, how = self.res.resolve_call(self.fn, e)
                cands = [c for c in cands if c.is_contextmanager()]
                for c in cands:
                    mans.append(c)
                    b = self.balanced.get(c, set())
                    cells |= b
                    unscoped |= self.eff.writes.get(c, set()) - b
        return cells, mans, unscoped

    def _transfer(self, node, state, kind):
        if kind == "gen" and self.fn.is_contextmanager():
            # exception thrown into the manager at its yield: the with-body has (partly) run
            return [self._apply(node, state, record=False)]
        if kind in ("exc", "gen"):
            # pre-state for writers; post-state for pure restores
            if node.kind in ("stmt", "for"):
                evs = [e for e in self._events(node) if e[0] != "kill"]
                if evs and all(e[0] in ("write", "loop_restore") for e in evs):
                    post = self._apply(node, state, record=False)
                    if all(("D", e[1]) not in post for e in evs):
                        return [post]
            if node.kind == "with_exit":
                return [self._apply(node, state, record=False)]
            return [state]
        return [self._apply(node, state, record=True)]

    def _apply(self, node, state, record):
        s = set(state)
        if node.kind == "with_enter":
            cells, mans, unb = self._with_cells(node.with_node)
            wid = id(node.with_node)
            for c in cells:
                if ("D", c) in s:
                    s.add(("W", wid, c))
            for c in unb:
                s.add(("D", c))
                if record:
                    rec = (c, norm_text(node.with_node.items[0].context_expr), node.with_node)
                    if rec[:2] not in [r[:2] for r in self.writes]:
                        self.writes.append(rec)
            if record and (cells or unb):
                rec = (node.with_node, tuple(m.key for m in mans), tuple(sorted(cells)))
                if rec not in self.with_scopes:
                    self.with_scopes.append(rec)
            return frozenset(s)
        if node.kind == "with_exit":
            cells, mans, unb = self._with_cells(node.with_node)
            wid = id(node.with_node)
            for c in cells:
                was = ("W", wid, c) in s
                s.discard(("W", wid, c))
                if was:
                    s.add(("D", c))
                else:
                    s.discard(("D", c))
            dev = self._deferred_events(node.with_node)
            if dev:
                return self._apply_events(s, dev, record)
            return frozenset(s)
        if self.fn.is_contextmanager() and node.kind == "stmt" and node.ast is not None and any(
            isinstance(x, (ast.Yield, ast.YieldFrom)) for x in walk_stmt(node.ast)
        ):
            # the with-body runs here and may write every cell this manager holds a snapshot of
            for f in list(s):
                if f[0] == "S":
                    s.add(("D", f[1]))
        return self._apply_events(s, self._events(node), record)

    def _deferred_events(self, wnode):
        """events of callbacks registered on a `with contextlib.ExitStack() as st:` block
        (st.callback(f, *args) / st.callback(lambda: f(...))): they run when the block is left"""
        evs = []
        for item in wnode.items:
            d = norm_text(item.context_expr)
            if not (d.endswith("ExitStack()") and isinstance(item.optional_vars, ast.Name)):
                continue
            st = item.optional_vars.id
            for b in wnode.body:
                for n in walk_stmt(b):
                    if isinstance(n, ast.Call) and isinstance(n.func, ast.Attribute) and n.func.attr == "callback" and isinstance(n.func.value, ast.Name) and n.func.value.id == st and n.args:
                        a0 = n.args[0]
                        if isinstance(a0, ast.Lambda) and isinstance(a0.body, ast.Call):
                            call = a0.body
                        else:
                            call = ast.Call(func=a0, args=list(n.args[1:]), keywords=list(n.keywords))
                            ast.copy_location(call, n)
                            ast.fix_missing_locations(call)
                        cells, cands, how = self.eff.call_writes(self.fn, call)
                        for c in sorted(cells):
                            vals = list(call.args) + [k.value for k in call.keywords]
                            evs.append(("write", c, vals, call, False, cands))
                        # callback(setattr, obj, "cell_attr", value) and other primitive writers
                        for cell, mode, n2 in primitive_writes(self.fn, call):
                            evs.append(("write", cell, list(call.args), call, mode == "inplace", []))
        return evs

    def _apply_events(self, s, events, record):
        for e in events:
            if e[0] == "kill":
                for f in [f for f in s if f[0] == "S" and f[2] == e[1]]:
                    s.discard(f)
            elif e[0] == "snap":
                _, cell, var, alias, astn = e
                s.discard(("R", cell))
                if ("D", cell) not in s:
                    s.add(("S", cell, var, alias))
                    if record:
                        rec = (cell, var, norm_text(astn), alias, astn)
                        if rec[:4] not in [r[:4] for r in self.snapshots]:
                            self.snapshots.append(rec)
            elif e[0] == "loop_restore":
                _, cell, inames, astn = e
                snap_vars = {f[2] for f in s if f[0] == "S" and f[1] == cell}
                hit = set()
                for nm in inames:
                    hit |= strict_names(self.aliases, ast.Name(id=nm, ctx=ast.Load())) & snap_vars
                if hit:
                    s.discard(("D", cell))
                    if record:
                        rec = (cell, sorted(hit)[0], "for ... in " + norm_text(astn.iter), astn)
                        if rec[:3] not in [r[:3] for r in self.restores]:
                            self.restores.append(rec)
            elif e[0] == "write":
                _, cell, valnames, astn, inplace, cands = e
                # restore?
                snap_vars = {f[2] for f in s if f[0] == "S" and f[1] == cell}
                hit = set()
                for ve in valnames:
                    names = strict_names(self.aliases, ve)
                    hit |= names & snap_vars
                    if cell in MULTI_SLOT_CELLS:
                        # element-wise write-back:  for k, v in snap...: write(k, v)
                        for nm in names:
                            for srcname in self.elem_src.get(nm, ()):  # nm is a loop element of srcname
                                hit |= strict_names(self.aliases, ast.Name(id=srcname, ctx=ast.Load())) & snap_vars
                exposing = inplace or any(cell in self.exposed_of.get(g, ()) for g in cands)
                if exposing and ("R", cell) not in s:
                    self.exposed.add(cell)
                    live_alias = sorted(f[2] for f in s if f[0] == "S" and f[1] == cell and f[3])
                    if live_alias and record:
                        rec = (cell, live_alias[0], norm_text(astn), astn)
                        if rec[:3] not in [r[:3] for r in self.alias_inplace]:
                            self.alias_inplace.append(rec)
                if not inplace:
                    if (not cands) or all(cell in self.must_rebind_of.get(g, ()) for g in cands):
                        # a primitive rebinding write, or callees that rebind on every path
                        s.add(("R", cell))
                if hit and not inplace:
                    s.discard(("D", cell))
                    if record:
                        rec = (cell, sorted(hit)[0], norm_text(astn), astn)
                        if rec[:3] not in [r[:3] for r in self.restores]:
                            self.restores.append(rec)
                else:
                    s.add(("D", cell))
                    if record:
                        rec = (cell, norm_text(astn), astn)
                        if rec[:2] not in [r[:2] for r in self.writes]:
                            self.writes.append(rec)
        return frozenset(s)

    def _run(self):
        init = frozenset()
        at, wit = forward(self.cfg, init, self._transfer)
        self.at = at
        self.wit = wit
        for nid, label in ((self.cfg.exit, "return"), (self.cfg.raise_exit, "exception")):
            for st in at[nid]:
                for f in st:
                    if f[0] == "D":
                        self.dirty_exits.append((f[1], label, witness_path(self.cfg, wit, nid, st)))
        # cells rebound on every path to the normal exit
        self.must_rebind = set()
        if at[self.cfg.exit]:
            for c in CELLS:
                if all(("R", c) in st for st in at[self.cfg.exit]):
                    self.must_rebind.add(c)

    # ------------------------------------------------------------- summaries
    def dirty_cells(self):
        return {c for c, _, _ in self.dirty_exits}

    def touched_cells(self):
        cells = {w[0] for w in self.writes} | {r[0] for r in self.restores}
        for _, _, cs in self.with_scopes:
            cells |= set(cs)
        return cells

    def yields_in_generator(self):
        return [n for n in self.cfg.nodes if n.ast is not None and n.kind == "stmt" and any(isinstance(x, (ast.Yield, ast.YieldFrom)) for x in walk_stmt(n.ast))]


def coordinate_of_call(eff, fn, call, default_if_absent=False):
    """value of the `val_in_fit` coordinate flag a getter/setter call uses, resolved
    through the callee signature defaults; None when undeterminable."""
    cands, how = eff.res.resolve_call(fn, call)
    vals = set()
    for g in cands:
        names = g.all_param_names()
        if "val_in_fit" in names:
            bound, extra, star, kwstar = bind_call(call, g)
            if "val_in_fit" in bound:
                vals.add(const_value(bound["val_in_fit"], "?"))
            else:
                d = g.defaults().get("val_in_fit")
                vals.add(const_value(d, "?") if d is not None else "?")
        else:
            # one level down: a wrapper that forwards to a function with val_in_fit
            inner = set()
            for n in walk_stmt(g.node):
                if isinstance(n, ast.Call) and n is not g.node:
                    for h in eff.res.resolve_call(g, n)[0]:
                        if "val_in_fit" in h.all_param_names():
                            b2, _, _, _ = bind_call(n, h)
                            if "val_in_fit" in b2:
                                inner.add(const_value(b2["val_in_fit"], "?"))
                            else:
                                d = h.defaults().get("val_in_fit")
                                inner.add(const_value(d, "?") if d is not None else "?")
            vals |= inner if inner else {default_if_absent}
    if len(vals) == 1:
        return vals.pop()
    return None
