#!/usr/bin/env python3
"""Self-test of the static checks: one-site edits of a scratch copy of /repo.

  python3-vt sa/selftest.py [Cxx ...] [--jobs N] [--list]

Every mutant in sa/mutants/<Cxx>.py is (name, file, old, new, expect) with
expect = "fire" (the check must exit 1 and the report must mention `needle`)
or "silent" (a behaviour-preserving twin: the check must exit 0).  The edit is
a unique-substring replacement in a scratch copy (under $TMPDIR, removed in a
finally); a mutated .py file must still compile (data files such as the JSON
table are not compiled).  Exit 0 iff every mutant behaves
as expected.
"""
import argparse
import concurrent.futures as cf
import importlib
import os
import shutil
import subprocess
import sys
import tempfile

HERE = os.path.dirname(os.path.abspath(__file__))
VERIF = os.path.dirname(HERE)
sys.path.insert(0, VERIF)


def load(pid):
    mod = importlib.import_module("sa.mutants.%s" % pid.lower())
    return mod.MUTANTS


def run_one(args):
    pid, mut, repo = args
    name, rel, old, new, expect = mut[:5]
    needle = mut[5] if len(mut) > 5 else None
    tmp = tempfile.mkdtemp(prefix="verif_scratch_%d_" % os.getpid())
    try:
        shutil.copytree(os.path.join(repo, "tf_pwa"), os.path.join(tmp, "tf_pwa"), ignore=shutil.ignore_patterns("__pycache__", "tests"))
        path = os.path.join(tmp, rel)
        src = open(path, encoding="utf-8").read()
        if src.count(old) != 1:
            # strict only on request: on a tree that differs from the one the mutants were written for
            # (a later fix commit, a change under evaluation) a stale mutant is skipped, not failed
            strict = os.environ.get("VERIF_SELFTEST_STRICT", "0") == "1"
            return (pid, name, not strict, "mutant not applicable: snippet occurs %d times in %s%s" % (src.count(old), rel, "" if strict else " (skipped)"))
        src2 = src.replace(old, new)
        if rel.endswith(".py"):
            try:
                compile(src2, rel, "exec")
            except SyntaxError as e:
                return (pid, name, False, "mutant does not compile: %s" % e)
        with open(path, "w", encoding="utf-8") as f:
            f.write(src2)
        env = dict(os.environ)
        env["VERIF_REPO"] = tmp
        env["VERIF_EVIDENCE_DIR"] = os.path.join(tmp, "evidence")
        try:
            p = subprocess.run(
                [sys.executable, os.path.join(HERE, "check.py"), pid, "--repo", tmp, "--no-evidence"],
                capture_output=True, text=True, env=env, timeout=900,
            )
        except subprocess.TimeoutExpired:
            return (pid, name, False, "check did not finish within 900 s on this variant")
        out = p.stdout + p.stderr
        if expect == "fire":
            ok = p.returncode == 1 and "VIOLATION property=%s" % pid in out
            if ok and needle and needle not in out:
                return (pid, name, False, "fired, but the report does not name %r" % needle)
            return (pid, name, ok, "exit %d%s" % (p.returncode, "" if ok else " (expected 1)\n" + out[-1500:]))
        ok = p.returncode == 0
        return (pid, name, ok, "exit %d%s" % (p.returncode, "" if ok else " (expected 0: false alarm on a behaviour-preserving edit)\n" + out[-1500:]))
    finally:
        shutil.rmtree(tmp, ignore_errors=True)


def seeded(pid):
    """seeded changes kept under /verif/seeded/<name>/ (patch.diff + meta.json naming the property)"""
    import json

    out = []
    root = os.path.join(VERIF, "seeded")
    if not os.path.isdir(root):
        return out
    for d in sorted(os.listdir(root)):
        meta = os.path.join(root, d, "meta.json")
        patch = os.path.join(root, d, "patch.diff")
        if not (os.path.exists(meta) and os.path.exists(patch)):
            continue
        m = json.load(open(meta))
        if m.get("property") == pid:
            out.append((d, patch, m.get("expect", "fire"), m.get("needle")))
        elif pid in m.get("also_fire", []):
            # a change seeded against another property that this check catches as well
            out.append((d, patch, "fire", None))
    return out


def run_seed(args):
    pid, (name, patch, expect, needle), repo = args
    tmp = tempfile.mkdtemp(prefix="verif_scratch_%d_" % os.getpid())
    try:
        shutil.copytree(os.path.join(repo, "tf_pwa"), os.path.join(tmp, "tf_pwa"), ignore=shutil.ignore_patterns("__pycache__"))
        p = subprocess.run(["patch", "-p1", "-s", "-d", tmp, "-i", patch], capture_output=True, text=True)
        if p.returncode != 0:
            if name.startswith("twin:"):
                # the tree has moved on under this refactoring: nothing to decide
                return (pid, name, True, "twin no longer applies (skipped)")
            # the tree under test differs from the one the seed was written for: nothing to decide
            return (pid, "seeded:" + name, True, "seeded patch no longer applies (skipped)")
        try:
            p = subprocess.run([sys.executable, os.path.join(HERE, "check.py"), pid, "--repo", tmp, "--no-evidence"], capture_output=True, text=True, timeout=900)
        except subprocess.TimeoutExpired:
            return (pid, name, False, "check did not finish within 900 s on this variant")
        out = p.stdout + p.stderr
        if expect == "fire":
            ok = p.returncode == 1 and "VIOLATION property=%s" % pid in out
            if ok and needle and needle not in out:
                return (pid, "seeded:" + name, False, "fired, but the report does not name %r" % needle)
            return (pid, "seeded:" + name, ok, "exit %d%s" % (p.returncode, "" if ok else " (expected 1)\n" + out[-1200:]))
        if expect == "miss":
            # a recorded limitation: the change breaks behaviour in a way no structural clause covers
            return (pid, "seeded:" + name, p.returncode in (0, 1), "exit %d (documented miss)" % p.returncode)
        ok = p.returncode == 0
        return (pid, name if name.startswith("twin:") else "seeded:" + name, ok, "exit %d%s" % (p.returncode, "" if ok else " (false alarm on a behaviour-preserving refactoring)\n" + out[-1000:]))
    finally:
        shutil.rmtree(tmp, ignore_errors=True)


def twins():
    """behaviour-preserving refactorings written by independent sub-agents (/verif/twins/*.diff):
    every check must stay at exit 0 on each of them"""
    root = os.path.join(VERIF, "twins")
    if not os.path.isdir(root):
        return []
    return [(f[:-5], os.path.join(root, f), "silent", None) for f in sorted(os.listdir(root)) if f.endswith(".diff")]


def run_all(pids, repo, jobs):
    jobs_m, jobs_s = [], []
    for pid in pids:
        for tw in twins():
            jobs_s.append((pid, ("twin:" + tw[0], tw[1], tw[2], tw[3]), repo))
        try:
            for mut in load(pid):
                jobs_m.append((pid, mut, repo))
        except ImportError:
            pass
        for sd in seeded(pid):
            jobs_s.append((pid, sd, repo))
    results = []
    with cf.ThreadPoolExecutor(max_workers=jobs) as ex:
        results.extend(ex.map(run_one, jobs_m))
        results.extend(ex.map(run_seed, jobs_s))
    return results


def main():
    ap = argparse.ArgumentParser()
    ap.add_argument("pids", nargs="*")
    ap.add_argument("--jobs", type=int, default=min(16, os.cpu_count() or 4))
    ap.add_argument("--repo", default=os.environ.get("VERIF_REPO", "/repo"))
    ap.add_argument("--list", action="store_true")
    a = ap.parse_args()
    pids = [p.upper() for p in a.pids]
    if not pids:
        pids = sorted(f[:-3].upper() for f in os.listdir(os.path.join(HERE, "mutants")) if f.startswith("c") and f.endswith(".py"))
    if a.list:
        for pid in pids:
            for mut in load(pid):
                print(pid, mut[0], mut[4])
            for sd in seeded(pid):
                print(pid, "seeded:" + sd[0], sd[2])
        return 0
    bad = 0
    results = run_all(pids, a.repo, a.jobs)
    for pid, name, ok, msg in results:
        print("%s %-5s %-50s %s" % ("ok  " if ok else "FAIL", pid, name, msg))
        if not ok:
            bad += 1
    print("selftest: %d mutants, %d unexpected" % (len(results), bad))
    return 1 if bad else 0


if __name__ == "__main__":
    sys.exit(main())
