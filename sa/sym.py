"""E6 - translate straight-line numeric kernels (AST) into sympy expressions.

A small partial evaluator: Python-level values (ints, lists, dicts, tuples,
strings) are computed concretely, tensor-level values become sympy
expressions over the symbols bound to the kernel's parameters.  Only
single-path code is accepted: an `if` / `tf.where` whose condition cannot be
decided from constants or from the stated domain assumptions raises
Unmodelled (-> ANALYSIS-ERROR, never a verdict).  Calls to other functions of
the repository are inlined (depth-limited); nothing from /repo is executed.

Equality of two translated expressions is decided exactly by
`expand(numer(together(a - b))) == 0` after radicand canonicalisation.
"""
import ast
import math

import numpy as np
import sympy as sp

from .model import AnalysisError, Fn, Mod, Cls, dotted


class Unmodelled(AnalysisError):
    pass


class DType:
    def __init__(self, of=None):
        self.of = of

    def __repr__(self):
        return "<dtype>"


class Opaque:
    """a python-level object we do not model (module, dtype, ...)"""

    def __init__(self, name):
        self.name = name

    def __repr__(self):
        return "<opaque %s>" % self.name


class Closure:
    def __init__(self, node, env, tr, mod):
        self.node, self.env, self.tr, self.mod = node, env, tr, mod


class BoundMethod:
    def __init__(self, fn, self_obj):
        self.fn, self.self_obj = fn, self_obj


class PyFunc:
    """a checker-side python callable bound into a symbolic environment"""

    def __init__(self, f, name="pyfunc"):
        self.f, self.name = f, name


def num(x):
    """python number -> exact sympy number"""
    if isinstance(x, bool):
        return x
    if isinstance(x, int):
        return sp.Integer(x)
    if isinstance(x, float):
        if x == int(x) and abs(x) < 1e15:
            return sp.Integer(int(x))
        return sp.Rational(repr(x))
    if isinstance(x, complex):
        return num(x.real) + sp.I * num(x.imag)
    return x


def is_sym(x):
    return isinstance(x, sp.Basic)


def is_arr(x):
    return isinstance(x, np.ndarray)


def as_arr(x):
    """component model of a tensor: numpy object array of sympy expressions"""
    if isinstance(x, np.ndarray):
        return x
    if isinstance(x, (list, tuple)):
        return np.array([as_arr(i) if isinstance(i, (list, tuple, np.ndarray)) else _s(i) for i in x], dtype=object)
    a = np.empty((), dtype=object)
    a[()] = _s(x)
    return a


def arr_map(f, a):
    out = np.empty(a.shape, dtype=object)
    for idx in np.ndindex(a.shape):
        out[idx] = f(a[idx])
    return out


IDENTITY_CALLS = {
    "tf.cast", "tf.convert_to_tensor", "tf.identity", "tf.stop_gradient", "np.array", "np.asarray", "float",
    "tf.constant", "tf.squeeze", "np.float64", "tf.Variable", "to_complex", "tf.math.real_if_close",
}
# sympy expressions that are truth values (a Symbol is NOT one although sympy makes it a Boolean subclass)
_BOOL_EXPR = (sp.logic.boolalg.BooleanAtom, sp.core.relational.Relational, sp.And, sp.Or, sp.Not)
UNARY_FUNCS = {
    "sqrt": sp.sqrt, "sin": sp.sin, "cos": sp.cos, "tan": sp.tan, "exp": sp.exp, "log": sp.log,
    "abs": sp.Abs, "fabs": sp.Abs, "absolute": sp.Abs, "atan": sp.atan, "asin": sp.asin, "acos": sp.acos, "sinh": sp.sinh, "cosh": sp.cosh,
    "tanh": sp.tanh, "square": lambda x: x * x, "real": sp.re, "imag": sp.im, "conj": sp.conjugate, "conjugate": sp.conjugate,
    "negative": lambda x: -x, "reciprocal": lambda x: 1 / x, "rsqrt": lambda x: 1 / sp.sqrt(x),
}
NUMERIC_MODULES = {"tf", "np", "math", "tf.math", "numpy", "tensorflow", "sym", "sy", "sympy", "tf.experimental.numpy"}


class Translator:
    def __init__(self, repo, max_depth=4, where_policy=None, real_symbols=True, opaque_calls=(), hooks=None):
        self.repo = repo
        self.max_depth = max_depth
        self.where_policy = where_policy or default_where_policy
        self.opaque_calls = set(opaque_calls)
        self.hooks = hooks or {}
        self.trace = []
        self.inlined = set()
        self.assumed = []

    # ------------------------------------------------------------------ API
    def call_fn(self, fn, args=(), kwargs=None, self_obj=None, depth=0):
        """symbolically evaluate repo function `fn` on (sympy / python) arguments"""
        if depth > self.max_depth:
            raise Unmodelled("inlining depth exceeded at %s" % fn.key)
        self.inlined.add(fn.key)
        kwargs = dict(kwargs or {})
        a = fn.node.args
        env = {}
        pos = [x.arg for x in a.posonlyargs + a.args]
        args = list(args)
        if self_obj is not None:
            args = [self_obj] + args
        defaults = fn.defaults()
        for i, p in enumerate(pos):
            if i < len(args):
                env[p] = args[i]
            elif p in kwargs:
                env[p] = kwargs.pop(p)
            elif p in defaults:
                env[p] = self.eval(defaults[p], {}, fn.mod, depth)
            else:
                raise Unmodelled("missing argument %s in call of %s" % (p, fn.key))
        if len(args) > len(pos):
            if a.vararg is None:
                raise Unmodelled("too many positional arguments for %s" % fn.key)
            env[a.vararg.arg] = tuple(args[len(pos):])
        elif a.vararg is not None:
            env[a.vararg.arg] = ()
        for p in a.kwonlyargs:
            if p.arg in kwargs:
                env[p.arg] = kwargs.pop(p.arg)
            elif p.arg in defaults:
                env[p.arg] = self.eval(defaults[p.arg], {}, fn.mod, depth)
        if a.kwarg is not None:
            env[a.kwarg.arg] = kwargs
        elif kwargs:
            raise Unmodelled("unexpected keyword %s for %s" % (list(kwargs), fn.key))
        env["__fn__"] = fn
        if _is_generator(fn.node):
            # a generator is evaluated eagerly into the list of the values it yields (finite data only)
            env["__yield__"] = []
            self.exec_body(fn.node.body, env, fn.mod, depth)
            return env["__yield__"]
        r = self.exec_body(fn.node.body, env, fn.mod, depth)
        if r is None:
            return None
        return r[1]

    # ----------------------------------------------------------- statements
    def exec_body(self, stmts, env, mod, depth):
        for st in stmts:
            r = self.exec_stmt(st, env, mod, depth)
            if r is not None:
                return r
        return None

    def exec_stmt(self, st, env, mod, depth):
        if isinstance(st, ast.Return):
            return ("return", self.eval(st.value, env, mod, depth) if st.value is not None else None)
        if isinstance(st, ast.Expr) and isinstance(st.value, (ast.Yield, ast.YieldFrom)):
            if "__yield__" not in env:
                raise Unmodelled("yield outside an eagerly evaluated generator")
            if isinstance(st.value, ast.Yield):
                env["__yield__"].append(self.eval(st.value.value, env, mod, depth) if st.value.value is not None else None)
            else:
                v = self.eval(st.value.value, env, mod, depth)
                if not isinstance(v, (list, tuple, range)):
                    raise Unmodelled("yield from a non-constant iterable")
                env["__yield__"].extend(list(v))
            if len(env["__yield__"]) > 20000:
                raise Unmodelled("generator yields more than 20000 values in the interpretation")
            return None
        if isinstance(st, ast.Expr):
            if isinstance(st.value, ast.Constant):
                return None
            if isinstance(st.value, ast.Call):
                d = dotted(st.value.func) or ""
                if d in ("print", "warnings.warn"):
                    return None
                # logging: `logging.info(..)`, `logger.debug(..)` / `log.warning(..)` / `self.logger.info(..)` on a logger
                # object - diagnostics only, no effect on any value the interpretation follows
                parts_ = d.split(".")
                if len(parts_) >= 2 and parts_[-1] in ("debug", "info", "warning", "warn", "error", "exception", "critical", "log") and (parts_[0] == "logging" or parts_[-2].lower() in ("logger", "log", "_logger", "_log", "logging")):
                    return None
                # list.append on python-level lists
                f = st.value.func
                if isinstance(f, ast.Attribute) and f.attr in ("append", "extend") and isinstance(f.value, ast.Name):
                    tgt = env.get(f.value.id)
                    if isinstance(tgt, list):
                        v = self.eval(st.value.args[0], env, mod, depth)
                        if f.attr == "append":
                            tgt.append(v)
                        else:
                            tgt.extend(list(v))
                        return None
            self.eval(st.value, env, mod, depth)
            return None
        if isinstance(st, ast.Assign):
            v = self.eval(st.value, env, mod, depth)
            for t in st.targets:
                self.assign(t, v, env, mod, depth)
            return None
        if isinstance(st, ast.AnnAssign):
            if st.value is not None:
                self.assign(st.target, self.eval(st.value, env, mod, depth), env, mod, depth)
            return None
        if isinstance(st, ast.AugAssign):
            cur = self.eval(_as_load(st.target), env, mod, depth)
            v = self.eval(st.value, env, mod, depth)
            res = self.binop(st.op, cur, v)
            if self.hooks.get("numpy_inplace") and isinstance(cur, np.ndarray) and isinstance(res, np.ndarray) and res.shape == cur.shape and cur.dtype == object:
                cur[...] = res  # numpy semantics: `a += b` changes the array in place (every alias / view sees it)
                self.assign(st.target, cur, env, mod, depth)
                return None
            if type(cur) is list and isinstance(st.op, ast.Add) and isinstance(v, (list, tuple)) and not isinstance(v, np.ndarray):
                cur.extend(list(v))  # python semantics: `lst += seq` extends the list object, every alias sees it
                self.assign(st.target, cur, env, mod, depth)
                return None
            self.assign(st.target, res, env, mod, depth)
            return None
        if isinstance(st, ast.If):
            c = self.truth(self.eval(st.test, env, mod, depth), st.test)
            return self.exec_body(st.body if c else st.orelse, env, mod, depth)
        if isinstance(st, ast.For):
            it = self._iterable(self.eval(st.iter, env, mod, depth), st.iter, depth)
            if not isinstance(it, (list, tuple, range, dict, str)):
                raise Unmodelled("loop over a non-constant iterable: %s" % ast.unparse(st.iter))
            broke = False
            for x in list(it):
                self.assign(st.target, x, env, mod, depth)
                r = self.exec_body(st.body, env, mod, depth)
                if r is not None:
                    if r[0] == "break":
                        broke = True
                        break
                    if r[0] == "continue":
                        continue
                    return r
            if st.orelse and not broke:
                return self.exec_body(st.orelse, env, mod, depth)  # for ... else: runs unless the loop was left by break
            return None
        if isinstance(st, ast.While):
            # bounded unrolling; the loop must terminate within the bound under the stated branch policy
            for _ in range(64):
                if not self.truth(self.eval(st.test, env, mod, depth), st.test):
                    break
                r = self.exec_body(st.body, env, mod, depth)
                if r is not None:
                    if r[0] == "break":
                        return None
                    if r[0] == "continue":
                        continue
                    return r
            else:
                raise Unmodelled("while loop does not terminate within 64 iterations in the interpretation")
            return self.exec_body(st.orelse, env, mod, depth) if st.orelse else None
        if isinstance(st, ast.Break):
            return ("break", None)
        if isinstance(st, ast.Continue):
            return ("continue", None)
        if isinstance(st, (ast.Pass, ast.Import, ast.ImportFrom, ast.Assert, ast.Global, ast.Nonlocal)):
            return None
        if isinstance(st, (ast.FunctionDef,)):
            env[st.name] = Closure(st, env, self, mod)
            return None
        if isinstance(st, ast.Try):
            r = None
            try:
                try:
                    self._try_depth = getattr(self, "_try_depth", 0) + (1 if st.handlers else 0)
                    try:
                        r = self.exec_body(st.body, env, mod, depth)
                    finally:
                        self._try_depth -= 1 if st.handlers else 0
                except Raised as e:
                    for h in st.handlers:
                        names = [] if h.type is None else [ast.unparse(x).split(".")[-1] for x in (h.type.elts if isinstance(h.type, ast.Tuple) else [h.type])]
                        if h.type is None or any(nm in ("Exception", "BaseException") or nm in str(e) for nm in names):
                            if h.name:
                                env[h.name] = str(e)
                            r = self.exec_body(h.body, env, mod, depth)
                            break
                    else:
                        if not self.hooks.get("allow_raise") and getattr(self, "_try_depth", 0) == 0:
                            raise Unmodelled("exception leaves the function: %s" % e)
                        raise
                else:
                    if r is None and st.orelse:
                        r = self.exec_body(st.orelse, env, mod, depth)
            finally:
                if st.finalbody:
                    rf = self.exec_body(st.finalbody, env, mod, depth)
                    if rf is not None:
                        r = rf
            return r
        if isinstance(st, ast.Delete):
            for t in st.targets:
                if isinstance(t, ast.Name) and t.id in env:
                    del env[t.id]
                elif isinstance(t, ast.Subscript) and not isinstance(t.slice, ast.Slice):
                    obj = self.eval(t.value, env, mod, depth)
                    idx = self.eval(t.slice, env, mod, depth)
                    if isinstance(obj, dict):
                        k = _pykey(idx)
                        if k not in obj:
                            raise Unmodelled("del of a missing key (KeyError): %s" % ast.unparse(t))
                        del obj[k]
                    elif isinstance(obj, list):
                        del obj[_pyint(idx)]
                    else:
                        raise Unmodelled("del on a symbolic value: %s" % ast.unparse(t))
                else:
                    raise Unmodelled("del target %s" % ast.unparse(t))
            return None
        if isinstance(st, ast.Raise):
            if self.hooks.get("allow_raise"):
                raise Raised(ast.unparse(st))
            raise Unmodelled("kernel path raises: %s" % ast.unparse(st))
        if isinstance(st, ast.With):
            if self.hooks.get("enter_contextmanagers") and len(st.items) == 1 and isinstance(st.items[0].context_expr, ast.Call):
                r_ = self._with_contextmanager(st, env, mod, depth)
                if r_ is not NotImplemented:
                    return r_
            # `with tf.name_scope(...)`-like blocks: execute the body
            return self.exec_body(st.body, env, mod, depth)
        raise Unmodelled("statement kind %s not modelled: %s" % (type(st).__name__, ast.unparse(st)[:80]))

    def _with_contextmanager(self, st, env, mod, depth, body_runner=None):
        """`with self.cm(args):` where cm is a repo function decorated with contextmanager and shaped
        `<setup>; try: yield [v] finally: <cleanup>` (or `<setup>; yield [v]; <cleanup>`): setup, body, cleanup"""
        call = st.items[0].context_expr
        f = call.func
        self_obj = None
        try:
            if isinstance(f, ast.Attribute):
                recv = self.eval(f.value, env, mod, depth)
                if not (isinstance(recv, SelfObj) and recv.cls is not None):
                    return NotImplemented
                fn = recv.cls.lookup(f.attr)
                self_obj = recv
            else:
                fn = self.eval(f, env, mod, depth)
        except Unmodelled:
            return NotImplemented
        if not isinstance(fn, Fn) or fn.key in self.hooks:
            return NotImplemented
        if not any("contextmanager" in ast.unparse(d_) for d_ in getattr(fn.node, "decorator_list", [])):
            return NotImplemented
        args = [self.eval(a_, env, mod, depth) for a_ in call.args]
        kwargs = {k_.arg: self.eval(k_.value, env, mod, depth) for k_ in call.keywords if k_.arg}
        a = fn.node.args
        pos = [x.arg for x in a.posonlyargs + a.args]
        vals = ([self_obj] if self_obj is not None else []) + args
        defaults = fn.defaults()
        env2 = {}
        for i_, p_ in enumerate(pos):
            if i_ < len(vals):
                env2[p_] = vals[i_]
            elif p_ in kwargs:
                env2[p_] = kwargs[p_]
            elif p_ in defaults:
                env2[p_] = self.eval(defaults[p_], {}, fn.mod, depth)
            else:
                raise Unmodelled("missing argument %s in context manager %s" % (p_, fn.key))
        env2["__fn__"] = fn
        state = {"ret": None}

        def is_yield(x):
            return isinstance(x, ast.Expr) and isinstance(x.value, ast.Yield)

        def body_at(yst):
            if st.items[0].optional_vars is not None:
                v_ = self.eval(yst.value.value, env2, fn.mod, depth + 1) if yst.value.value is not None else None
                self.assign(st.items[0].optional_vars, v_, env, mod, depth)
            state["ret"] = body_runner() if body_runner is not None else self.exec_body(st.body, env, mod, depth)

        def run(stmts):
            for x in stmts:
                if is_yield(x):
                    body_at(x)
                elif isinstance(x, ast.With) and len(x.items) == 1 and any(is_yield(y) for y in x.body):
                    # the manager delegates part of its work to another one: `with inner(..): <setup>; yield; <cleanup>`
                    r_in = self._with_contextmanager(x, env2, fn.mod, depth + 1, body_runner=lambda x_=x: run(x_.body))
                    if r_in is NotImplemented:
                        run(x.body)   # not a context manager of the package (a tape, a name scope): its body runs
                elif isinstance(x, ast.Try) and any(is_yield(y) for y in x.body) and not x.handlers:
                    try:
                        run(x.body)
                    finally:
                        self.exec_body(x.finalbody, env2, fn.mod, depth + 1)
                elif any(isinstance(y, (ast.Yield, ast.YieldFrom)) for y in ast.walk(x)):
                    raise Unmodelled("context manager %s: yield inside %s" % (fn.key, type(x).__name__))
                else:
                    self.exec_stmt(x, env2, fn.mod, depth + 1)

        run(fn.node.body)
        return state["ret"]

    def assign(self, t, v, env, mod, depth):
        if isinstance(t, ast.Name):
            env[t.id] = v
        elif isinstance(t, (ast.Tuple, ast.List)):
            vals = list(v) if isinstance(v, (list, tuple)) else None
            stars = [i_ for i_, e_ in enumerate(t.elts) if isinstance(e_, ast.Starred)]
            if vals is not None and len(stars) == 1 and len(vals) >= len(t.elts) - 1:
                k_ = stars[0]
                tail = len(t.elts) - 1 - k_
                for e, x in zip(t.elts[:k_], vals[:k_]):
                    self.assign(e, x, env, mod, depth)
                self.assign(t.elts[k_].value, vals[k_:len(vals) - tail], env, mod, depth)
                for e, x in zip(t.elts[k_ + 1:], vals[len(vals) - tail:]):
                    self.assign(e, x, env, mod, depth)
                return
            if vals is None or len(vals) != len(t.elts):
                raise Unmodelled("cannot unpack %s" % ast.unparse(t))
            for e, x in zip(t.elts, vals):
                self.assign(e, x, env, mod, depth)
        elif isinstance(t, ast.Subscript):
            obj = self.eval(t.value, env, mod, depth)
            if isinstance(t.slice, ast.Slice) and isinstance(obj, list):
                lo = self.eval(t.slice.lower, env, mod, depth) if t.slice.lower else None
                hi = self.eval(t.slice.upper, env, mod, depth) if t.slice.upper else None
                if t.slice.step is not None or not isinstance(v, (list, tuple)):
                    raise Unmodelled("slice store %s" % ast.unparse(t))
                obj[_pyint(lo):_pyint(hi)] = list(v)  # in place: every alias of the list sees it
                return
            idx = self.eval(t.slice, env, mod, depth)
            if isinstance(obj, (list, dict)):
                obj[_pykey(idx)] = v
            elif isinstance(obj, np.ndarray) and obj.dtype == object and not isinstance(idx, (tuple, list)):
                obj[_pyint(idx)] = v  # element / row store into a component array (views write through)
            elif isinstance(obj, np.ndarray) and obj.dtype == object and isinstance(idx, (tuple, list)) and all(not isinstance(i, (slice, type(None), type(Ellipsis))) for i in idx):
                obj[tuple(_pyint(i) for i in idx)] = v  # multi-index store addresses the same element as chained indexing
            else:
                raise Unmodelled("subscript store on symbolic value")
        elif isinstance(t, ast.Attribute):
            obj = self.eval(t.value, env, mod, depth)
            if isinstance(obj, dict):
                obj[t.attr] = v
            elif isinstance(obj, SelfObj) and self.hooks.get("allow_attr_store"):
                obj.attrs[t.attr] = v
            else:
                raise Unmodelled("attribute store %s" % ast.unparse(t))
        else:
            raise Unmodelled("assignment target %s" % type(t).__name__)

    def truth(self, v, node=None):
        if isinstance(v, (bool, int, float, str, list, tuple, dict, type(None))):
            return bool(v)
        if v is sp.true:
            return True
        if v is sp.false:
            return False
        if is_sym(v):
            if v.is_number:
                z = v.is_zero   # (Float(0.0) != 0 is a structural comparison in sympy and would be True)
                return (not z) if z is not None else complex(v) != 0
            d = self.where_policy(v, self)
            if d is not None:
                return d
        raise Unmodelled("data-dependent branch: %s" % (ast.unparse(node) if node is not None else v))

    # ---------------------------------------------------------- expressions
    def eval(self, n, env, mod, depth):
        if isinstance(n, ast.Constant):
            return num(n.value) if isinstance(n.value, (int, float, complex)) and not isinstance(n.value, bool) else n.value
        if isinstance(n, ast.Name):
            if n.id in env:
                return env[n.id]
            return self.global_name(n.id, mod, env, depth)
        if isinstance(n, ast.BinOp):
            return self.binop(n.op, self.eval(n.left, env, mod, depth), self.eval(n.right, env, mod, depth))
        if isinstance(n, ast.UnaryOp):
            v = self.eval(n.operand, env, mod, depth)
            if isinstance(n.op, ast.USub):
                return -v
            if isinstance(n.op, ast.UAdd):
                return v
            if isinstance(n.op, ast.Not):
                return not self.truth(v, n)
            if isinstance(n.op, ast.Invert) and _boolish(v):
                return arr_map(sp.Not, v) if is_arr(v) else sp.Not(v)  # ~mask
            raise Unmodelled("unary op")
        if isinstance(n, ast.BoolOp):
            # short-circuit evaluation, as in Python
            v = None
            for x in n.values:
                v = self.eval(x, env, mod, depth)
                t = self.truth(v, n)
                if isinstance(n.op, ast.And) and not t:
                    return v
                if isinstance(n.op, ast.Or) and t:
                    return v
            return v
        if isinstance(n, ast.Compare):
            left = self.eval(n.left, env, mod, depth)
            res = True
            pending = []
            for op, c in zip(n.ops, n.comparators):
                right = self.eval(c, env, mod, depth)
                r = self.compare(op, left, right)
                if r is False:
                    return False
                if r is not True:
                    if len(n.ops) > 1:
                        # a < b < c is (a < b) and (b < c): kept as a conjunction of scalar relations
                        if not (is_sym(r) or isinstance(r, (bool, sp.logic.boolalg.Boolean))):
                            raise Unmodelled("chained comparison of non-scalar symbolic values")
                        pending.append(r)
                    else:
                        return r
                left = right
            if pending:
                return sp.And(*pending) if len(pending) > 1 else pending[0]
            return res
        if isinstance(n, ast.NamedExpr) and isinstance(n.target, ast.Name):
            v_ = self.eval(n.value, env, mod, depth)
            env[n.target.id] = v_   # (name := value): binds in the enclosing scope and is the value
            return v_
        if isinstance(n, ast.IfExp):
            c = self.truth(self.eval(n.test, env, mod, depth), n.test)
            return self.eval(n.body if c else n.orelse, env, mod, depth)
        if isinstance(n, (ast.Tuple, ast.List)):
            out = []
            for x in n.elts:
                if isinstance(x, ast.Starred):
                    v = self._iterable(self.eval(x.value, env, mod, depth), x, depth)
                    if isinstance(v, dict):
                        v = list(v)
                    if not isinstance(v, (list, tuple, range, str)):
                        raise Unmodelled("starred expression over a symbolic value")
                    out.extend(list(v))
                else:
                    out.append(self.eval(x, env, mod, depth))
            return tuple(out) if isinstance(n, ast.Tuple) else out
        if isinstance(n, ast.Dict):
            out = {}
            for k, v in zip(n.keys, n.values):
                if k is None:
                    sp_ = self.eval(v, env, mod, depth)
                    if not isinstance(sp_, dict):
                        raise Unmodelled("** of a non-constant mapping in a dict literal: %s" % ast.unparse(v)[:60])
                    out.update(sp_)
                else:
                    out[_pykey(self.eval(k, env, mod, depth))] = self.eval(v, env, mod, depth)
            return out
        if isinstance(n, (ast.ListComp, ast.GeneratorExp)):
            return self.comprehension(n, env, mod, depth)
        if isinstance(n, ast.SetComp):
            return PySet(self.comprehension(n, env, mod, depth))
        if isinstance(n, ast.Set):
            return PySet(self.eval(x, env, mod, depth) for x in n.elts)
        if isinstance(n, ast.DictComp):
            pairs = self.comprehension(n, env, mod, depth, pair=True)
            return {_pykey(k): v for k, v in pairs}
        if isinstance(n, ast.Subscript):
            obj = self.eval(n.value, env, mod, depth)
            if is_arr(obj):
                return self.arr_index(obj, n.slice, env, mod, depth)
            if is_sym(obj) and self.hooks.get("subscript"):
                return self.hooks["subscript"](self, obj, None, n)
            if isinstance(n.slice, ast.Slice):
                lo = self.eval(n.slice.lower, env, mod, depth) if n.slice.lower else None
                hi = self.eval(n.slice.upper, env, mod, depth) if n.slice.upper else None
                st = self.eval(n.slice.step, env, mod, depth) if n.slice.step else None
                if isinstance(obj, (list, tuple, str)):
                    return obj[_pyint(lo):_pyint(hi):_pyint(st)]
                raise Unmodelled("slice of symbolic value")
            idx = self.eval(n.slice, env, mod, depth)
            if isinstance(obj, (list, tuple)):
                return obj[_pyint(idx)]
            if isinstance(obj, dict):
                k = _pykey(idx)
                if k not in obj:
                    if self.hooks.get("allow_raise"):
                        raise Raised("KeyError: %r in `%s`" % (k, ast.unparse(n)))
                    if self.hooks.get("allow_raise") or getattr(self, "_try_depth", 0) > 0:
                        raise Raised("KeyError: %r" % (k,))   # as in Python; an enclosing try / except KeyError sees it
                    raise Unmodelled("key %r not in literal dict" % (k,))
                return obj[k]
            hook = self.hooks.get("subscript")
            if hook:
                return hook(self, obj, idx, n)
            raise Unmodelled("subscript of symbolic value: %s" % ast.unparse(n))
        if isinstance(n, ast.Attribute):
            return self.attribute(n, env, mod, depth)
        if isinstance(n, ast.Call):
            return self.call(n, env, mod, depth)
        if isinstance(n, ast.Lambda):
            return Closure(n, env, self, mod)
        if isinstance(n, ast.JoinedStr):
            parts = []
            for v in n.values:
                if isinstance(v, ast.Constant):
                    parts.append(str(v.value))
                elif isinstance(v, ast.FormattedValue):
                    val = self.eval(v.value, env, mod, depth)
                    if v.conversion not in (-1, 115, 114) or (v.format_spec is not None and ast.unparse(v.format_spec) not in ("f''", 'f""')):
                        return "<fstring>"  # a format specification: the text is not reconstructed
                    parts.append(self.builtin("str", [val], {}, v))
                else:
                    return "<fstring>"
            return "".join(parts)
        if isinstance(n, ast.Starred):
            raise Unmodelled("starred expression")
        raise Unmodelled("expression kind %s: %s" % (type(n).__name__, ast.unparse(n)[:60]))

    def arr_index(self, obj, sl, env, mod, depth):
        def one(e):
            if isinstance(e, ast.Constant) and e.value is Ellipsis:
                return Ellipsis
            if isinstance(e, ast.Constant) and e.value is None:
                return None
            if isinstance(e, ast.Slice):
                f = lambda x: _pyint(self.eval(x, env, mod, depth)) if x is not None else None
                return slice(f(e.lower), f(e.upper), f(e.step))
            v = self.eval(e, env, mod, depth)
            if v is None or (isinstance(v, Opaque) and v.name.split(".")[-1] == "newaxis"):
                return None
            if isinstance(v, (list, tuple)) and all(x is sp.true or x is sp.false or isinstance(x, bool) for x in v):
                v = np.array(list(v), dtype=object)
            if isinstance(v, np.ndarray) and v.size == 0:
                return np.zeros(v.shape, dtype=bool)  # an empty mask selects nothing
            if isinstance(v, np.ndarray) and v.dtype == object and v.size and all(x is sp.true or x is sp.false or isinstance(x, bool) for x in v.reshape(-1)):
                return np.array([bool(x) for x in v.reshape(-1)], dtype=bool).reshape(v.shape)  # decided boolean mask
            if isinstance(v, np.ndarray) and v.dtype == object and all(is_sym(x) and x.is_Integer for x in v.reshape(-1)):
                return np.array([int(x) for x in v.reshape(-1)], dtype=int).reshape(v.shape)
            return _pyint(v)

        idx = tuple(one(e) for e in sl.elts) if isinstance(sl, ast.Tuple) else one(sl)
        r = obj[idx]
        if isinstance(r, np.ndarray) and r.shape == ():
            return r[()]
        return r

    def _iterable(self, it, node, depth):
        """an object whose class defines __iter__ iterates over what that method returns"""
        if isinstance(it, SelfObj) and it.cls is not None and it.cls.lookup("__iter__") is not None:
            return self.apply(BoundMethod(it.cls.lookup("__iter__"), it), [], {}, node, depth)
        if isinstance(it, np.ndarray) and it.dtype == object and it.ndim >= 1:
            return [it[k] for k in range(it.shape[0])]  # iteration over the first axis
        return it

    def comprehension(self, n, env, mod, depth, pair=False):
        out = []

        def rec(gens, e):
            if not gens:
                if pair:
                    out.append((self.eval(n.key, e, mod, depth), self.eval(n.value, e, mod, depth)))
                else:
                    out.append(self.eval(n.elt, e, mod, depth))
                return
            g = gens[0]
            it = self._iterable(self.eval(g.iter, e, mod, depth), g.iter, depth)
            if not isinstance(it, (list, tuple, range, dict, str)):
                raise Unmodelled("comprehension over a non-constant iterable")
            for x in list(it):
                e2 = dict(e)
                self.assign(g.target, x, e2, mod, depth)
                if all(self.truth(self.eval(c, e2, mod, depth), c) for c in g.ifs):
                    rec(gens[1:], e2)

        rec(n.generators, env)
        return out

    def global_name(self, name, mod, env, depth):
        if name in ("True", "False", "None"):
            return {"True": True, "False": False, "None": None}[name]
        g_ = self.hooks.get("globals")
        if g_ and name in g_:
            return g_[name]  # a module-level object supplied by the checker (e.g. a table loaded from a data file)
        if name in mod.imports:
            tmod, attr = mod.imports[name]
            if tmod in ("math", "numpy") and attr in ("pi", "e", "inf"):
                return {"pi": sp.pi, "e": sp.E, "inf": sp.oo}[attr]
            if tmod == "itertools" and attr is not None:
                return Opaque("itertools." + attr)
            if attr is None or self.repo.by_modname.get(tmod) is None:
                r = self.repo.resolve_name(mod, name)
                if r is not None:
                    return r
                return Opaque(name)
        r = self.repo.resolve_name(mod, name)
        if isinstance(r, (Fn, Cls, Mod)):
            return r
        if name in mod.toplevel_assign:
            return self.eval(mod.toplevel_assign[name], {}, mod, depth)
        if name in ("product", "chain", "combinations", "permutations", "accumulate", "zip_longest", "repeat") and mod.imports.get(name, (None, None))[0] == "itertools":
            return Opaque("itertools." + name)
        if name in ("int", "float", "len", "range", "abs", "sum", "list", "tuple", "zip", "enumerate", "min", "max",
                    "isinstance", "hasattr", "callable", "complex", "round", "pow", "print", "dict", "str", "sorted", "reversed", "bool", "type",
                    "set", "frozenset", "any", "all", "map", "filter", "getattr", "iter", "next", "id", "vars", "divmod"):
            return Opaque("builtin." + name)
        return Opaque(name)

    def attribute(self, n, env, mod, depth):
        d = dotted(n)
        if d is not None:
            head = d.split(".")[0]
            if head not in env:
                if d in ("math.pi", "np.pi", "numpy.pi", "sym.pi", "sp.pi"):
                    return sp.pi
                if d in ("math.e", "np.e"):
                    return sp.E
                if d.split(".")[-1] == "I" and d.split(".")[0] in ("sympy", "sym", "sy", "sp"):
                    return sp.I
                if d in ("np.inf", "math.inf"):
                    return sp.oo
                r = self.repo.resolve_name(mod, d)
                if isinstance(r, (Fn, Cls, Mod)):
                    return r
                if head in mod.imports or head in NUMERIC_MODULES:
                    return Opaque(d)
        obj = self.eval(n.value, env, mod, depth)
        if hasattr(obj, "tok_attrs") and n.attr in obj.tok_attrs:
            return obj.tok_attrs[n.attr]  # checker-defined token (a str / tuple subclass that carries attributes)
        if n.attr == "dtype" and not (isinstance(obj, SelfObj) and "dtype" in obj.attrs):
            return DType(obj)
        if n.attr in ("shape", "dtype") and isinstance(obj, SelfObj) and n.attr in obj.attrs:
            return obj.attrs[n.attr]
        if isinstance(obj, str) and n.attr == "format":
            return PyFunc(lambda *a, _s0=obj, **k: _s0.format(*[str(x) for x in a], **{kk: str(vv) for kk, vv in k.items()}))
        if self.hooks.get("attribute") and not is_sym(obj) and not isinstance(obj, (dict, SelfObj, Opaque, Mod, np.ndarray, DType, list, tuple, str)):
            return self.hooks["attribute"](self, obj, n.attr, n)  # checker-defined abstract values
        if n.attr in ("size", "ndim") and isinstance(obj, np.ndarray):
            return sp.Integer(getattr(obj, n.attr))
        if n.attr in ("shape",):
            if isinstance(obj, TensorList):
                return (sp.Integer(len(obj)),)
            if isinstance(obj, np.ndarray):
                return tuple(sp.Integer(k) for k in obj.shape)  # the component model knows its shape
            if self.hooks.get("allow_shape"):
                return Opaque("shape")
            raise Unmodelled("shape of symbolic tensor")
        if isinstance(obj, dict) and n.attr in obj:
            return obj[n.attr]
        if isinstance(obj, dict) and n.attr in ("get", "__getitem__"):
            # a bound dict method used as a value (sorted(.., key=order.get))
            if n.attr == "get":
                return PyFunc(lambda k_, d_=None, _o=obj: _o.get(_pykey(k_), d_))
            return PyFunc(lambda k_, _o=obj: _o[_pykey(k_)])
        if isinstance(obj, SelfObj):
            return obj.get(n.attr, self, depth)
        if isinstance(obj, Opaque):
            return Opaque(obj.name + "." + n.attr)
        if isinstance(obj, DType):
            return Opaque("dtype." + n.attr)
        if is_sym(obj) and n.attr in ("real",):
            return sp.re(obj)
        if is_sym(obj) and n.attr in ("imag",):
            return sp.im(obj)
        if isinstance(obj, Mod):
            r = self.repo.resolve_name(obj, n.attr)
            if r is not None:
                return r
            if n.attr in obj.toplevel_assign:
                return self.eval(obj.toplevel_assign[n.attr], {}, obj, depth)
        hook = self.hooks.get("attribute")
        if hook:
            return hook(self, obj, n.attr, n)
        raise Unmodelled("attribute %s of %r" % (n.attr, obj))

    # ---------------------------------------------------------------- calls
    def call(self, n, env, mod, depth):
        f = n.func
        if isinstance(f, ast.Name) and f.id == "super" and "__fn__" in env and getattr(env["__fn__"], "cls", None) is not None:
            # super() / super(Class, self): the next class in the MRO of the symbolic self
            me = env.get(env["__fn__"].params[0]) if env["__fn__"].params else None
            if isinstance(me, SelfObj):
                return SuperObj(me, env["__fn__"].cls)
        d = dotted(f)
        args = []
        for a in n.args:
            if isinstance(a, ast.Starred):
                v = self._iterable(self.eval(a.value, env, mod, depth), a, depth)
                if not isinstance(v, (list, tuple)):
                    raise Unmodelled("*args of symbolic value")
                args.extend(v)
            else:
                args.append(self.eval(a, env, mod, depth))
        kwargs = {}
        for k in n.keywords:
            if k.arg is None:
                v = self.eval(k.value, env, mod, depth)
                if not isinstance(v, dict):
                    raise Unmodelled("**kwargs of symbolic value")
                kwargs.update(v)
            else:
                kwargs[k.arg] = self.eval(k.value, env, mod, depth)
        # method on a python-level / symbolic object
        if isinstance(f, ast.Attribute) and not (d and d.split(".")[0] not in env and (d.split(".")[0] in mod.imports or d.split(".")[0] in NUMERIC_MODULES)):
            obj = self.eval(f.value, env, mod, depth)
            r = self.method_call(obj, f.attr, args, kwargs, n, mod, depth)
            if r is not NotImplemented:
                return r
        if d is not None:
            short = d
            # canonical short names: tf.math.sqrt -> sqrt
            last = d.split(".")[-1]
            head = d.split(".")[0]
            if d in self.opaque_calls or last in self.opaque_calls:
                return sp.Function(last)(*[x for x in args if is_sym(x)])
            if d in self.hooks:
                return self.hooks[d](self, args, kwargs, n)
            if head not in env and head in mod.imports and mod.imports[head][0] == "itertools" and mod.imports[head][1] is not None and "." not in d:
                return self.numeric_call("itertools." + mod.imports[head][1], mod.imports[head][1], args, kwargs, n)
            if head not in env and (head in NUMERIC_MODULES or head in mod.imports and self.repo.resolve_name(mod, head) is None):
                return self.numeric_call(d, last, args, kwargs, n)
        callee = self.eval(f, env, mod, depth) if not isinstance(f, ast.Attribute) or d is not None else None
        if callee is None:
            callee = self.eval(f, env, mod, depth)
        return self.apply(callee, args, kwargs, n, depth)

    @staticmethod
    def bound_args(fn, args, kwargs, drop_receiver=True):
        """name -> value table of a hooked call, however the call site spelt its arguments (for hooks: positional,
        keyword or mixed).  `fn` is the repo function; a leading receiver object (SelfObj) in `args` is dropped"""
        a = fn.node.args
        names = [x.arg for x in a.posonlyargs + a.args]
        vals = list(args)
        if names and names[0] in ("self", "cls"):
            names = names[1:]
            if drop_receiver and vals and isinstance(vals[0], SelfObj) and len(vals) > len(names) - sum(1 for nm_ in names if nm_ in kwargs):
                vals = vals[1:]
            elif drop_receiver and vals and isinstance(vals[0], SelfObj) and vals[0].cls is not None and fn.cls is not None and (vals[0].cls is fn.cls or fn.cls in getattr(vals[0].cls, "mro", [])):
                vals = vals[1:]
        out = dict(zip(names, vals))
        out.update(kwargs)
        return out

    def apply(self, callee, args, kwargs, n, depth):
        if isinstance(callee, Fn):
            if callee.key in self.hooks:
                return self.hooks[callee.key](self, args, kwargs, n)
            return self.call_fn(callee, args, kwargs, depth=depth + 1)
        if isinstance(callee, BoundMethod):
            if callee.fn.key in self.hooks:
                return self.hooks[callee.fn.key](self, [callee.self_obj] + list(args), kwargs, n)
            if any(isinstance(d_, ast.Name) and d_.id == "staticmethod" for d_ in getattr(callee.fn.node, "decorator_list", [])):
                return self.call_fn(callee.fn, args, kwargs, depth=depth + 1)   # self.f(...) of a @staticmethod: no receiver
            return self.call_fn(callee.fn, args, kwargs, self_obj=callee.self_obj, depth=depth + 1)
        if isinstance(callee, Closure):
            node = callee.node
            env2 = dict(callee.env)
            a = node.args
            pos = [x.arg for x in a.posonlyargs + a.args]
            for i, p in enumerate(pos):
                if i < len(args):
                    env2[p] = args[i]
                elif p in kwargs:
                    env2[p] = kwargs[p]
                else:
                    dflt = a.defaults
                    j = i - (len(pos) - len(dflt))
                    if j >= 0:
                        env2[p] = self.eval(dflt[j], callee.env, callee.mod, depth)
                    else:
                        raise Unmodelled("closure argument %s missing" % p)
            if a.vararg is not None:
                env2[a.vararg.arg] = tuple(args[len(pos):])
            elif len(args) > len(pos):
                raise Unmodelled("too many positional arguments for a closure")
            if a.kwarg is not None:
                env2[a.kwarg.arg] = {k_: v_ for k_, v_ in kwargs.items() if k_ not in pos}
            if isinstance(node, ast.Lambda):
                return self.eval(node.body, env2, callee.mod, depth + 1)
            if _is_generator(node):
                env2["__yield__"] = []
                self.exec_body(node.body, env2, callee.mod, depth + 1)
                return env2["__yield__"]
            r = self.exec_body(node.body, env2, callee.mod, depth + 1)
            return r[1] if r else None
        if isinstance(callee, PyFunc):
            return callee.f(*args, **kwargs)
        if isinstance(callee, SelfObj) and callee.cls is not None and callee.cls.lookup("__call__") is not None:
            return self.apply(BoundMethod(callee.cls.lookup("__call__"), callee), args, kwargs, n, depth)
        if isinstance(callee, Opaque):
            name = callee.name
            if name.startswith("builtin."):
                return self.builtin(name[8:], args, kwargs, n)
            return self.numeric_call(name, name.split(".")[-1], args, kwargs, n)
        if isinstance(callee, Cls):
            h = self.hooks.get(callee.key)
            if h:
                return h(self, args, kwargs, n)
            ok = self.hooks.get("construct")
            if ok and callee.key in ok:
                # the class's own __init__ interpreted on a fresh symbolic object
                obj = SelfObj(callee, {})
                init = callee.lookup("__init__")
                if init is not None:
                    saved = self.hooks.get("allow_attr_store")
                    self.hooks["allow_attr_store"] = True
                    try:
                        self.call_fn(init, args, kwargs, self_obj=obj, depth=depth + 1)
                    finally:
                        self.hooks["allow_attr_store"] = saved
                return obj
            raise Unmodelled("constructor call %s" % callee.key)
        raise Unmodelled("call of %r" % (callee,))

    def method_call(self, obj, name, args, kwargs, n, mod, depth):
        if isinstance(obj, Opaque) and obj.name == "logger":
            # a logging.Logger: isEnabledFor() is answered "no" (the guarded block only logs), everything else is a no-op
            return False if name == "isEnabledFor" else None
        if isinstance(obj, np.ndarray) and name == "copy" and not args:
            return obj.copy()
        if isinstance(obj, np.ndarray) and name == "reshape" and args:
            shp_ = args[0] if len(args) == 1 and isinstance(args[0], (list, tuple)) else args
            return obj.reshape(tuple(_pyint(x) for x in shp_))
        if isinstance(obj, np.ndarray) and name == "astype":
            return obj
        if isinstance(obj, np.ndarray) and name == "transpose":
            axes_ = args[0] if len(args) == 1 and isinstance(args[0], (list, tuple)) else (args or None)
            return obj.transpose(tuple(_pyint(x) for x in axes_)) if axes_ else obj.transpose()
        if isinstance(obj, np.ndarray) and name == "tolist" and not args:
            return obj.tolist()
        if isinstance(obj, (list, str, tuple)) and name == "index":
            return sp.Integer(obj.index(args[0]))
        if isinstance(obj, str) and name == "format":
            return obj.format(*[str(a) for a in args], **{k: str(v) for k, v in kwargs.items()})
        if isinstance(obj, str) and name == "join" and len(args) == 1 and isinstance(args[0], (list, tuple)) and all(isinstance(x, str) for x in args[0]):
            return obj.join(str(x) for x in args[0])
        if isinstance(obj, str) and name in ("split", "rsplit", "partition", "rpartition", "startswith", "endswith", "strip", "lstrip", "rstrip", "lower", "upper", "replace", "isdigit", "find", "rfind", "index", "count") and all(isinstance(x, (str, int)) or (is_sym(x) and x.is_Integer) for x in args):
            return getattr(str(obj), name)(*[int(x) if is_sym(x) else x for x in args])
        if isinstance(obj, PySet):
            if name in ("add", "discard"):
                getattr(obj, name)(args[0])
                return None
            if name in ("intersection_update", "difference_update", "symmetric_difference_update"):
                others = [_pykey(x) for a in args for x in list(a)]
                cur = list(obj)
                if name == "intersection_update":
                    keep_ = [x for x in cur if all(x in [_pykey(y) for y in list(a)] for a in args)]
                elif name == "difference_update":
                    keep_ = [x for x in cur if x not in others]
                else:
                    keep_ = [x for x in cur if x not in others] + [x for x in others if x not in cur]
                del obj[:]
                for x in keep_:
                    obj.add(x)
                return None
            if name == "remove":
                if _pykey(args[0]) not in obj:
                    raise Unmodelled("set.remove of a missing element (KeyError)")
                obj.discard(args[0])
                return None
            if name == "update":
                for a in args:
                    for x in list(a):
                        obj.add(x)
                return None
            if name in ("union", "difference", "intersection", "symmetric_difference"):
                other = PySet(x for a in args for x in list(a))
                if name == "union":
                    return PySet(list(obj) + list(other))
                if name == "difference":
                    return PySet(x for x in obj if x not in other)
                if name == "intersection":
                    return PySet(x for x in obj if x in other)
                return PySet([x for x in obj if x not in other] + [x for x in other if x not in obj])
            if name == "copy":
                return PySet(obj)
            if name in ("issubset", "issuperset"):
                other = PySet(list(args[0]))
                return all(x in other for x in obj) if name == "issubset" else all(x in obj for x in other)
            raise Unmodelled("set method %s" % name)
        if isinstance(obj, list):
            if name == "append":
                obj.append(args[0])
                return None
            if name == "extend":
                obj.extend(list(args[0]))
                return None
            if name == "copy":
                return list(obj)
            if name == "remove":
                ks = [_pykey(x) for x in obj]
                if _pykey(args[0]) not in ks:
                    raise Unmodelled("list.remove of a missing element (ValueError)")
                del obj[ks.index(_pykey(args[0]))]
                return None
            if name == "pop":
                return obj.pop(*[_pyint(a) for a in args])
            if name == "insert":
                obj.insert(_pyint(args[0]), args[1])
                return None
            if name == "reverse" and not args:
                obj.reverse()
                return None
            if name == "sort" and not args and not kwargs:
                if all((is_sym(x) and x.is_number) or isinstance(x, (int, float, str)) or _pyplain(x) for x in obj):
                    obj.sort()
                    return None
                raise Unmodelled("sort of symbolic values")
        if isinstance(obj, dict) and name == "setdefault":
            return obj.setdefault(_pykey(args[0]), args[1] if len(args) > 1 else None)
        if isinstance(obj, dict):
            if name == "get":
                return obj.get(_pykey(args[0]), args[1] if len(args) > 1 else None)
            if name == "items":
                return list(obj.items())
            if name == "keys":
                return list(obj.keys())
            if name == "values":
                return list(obj.values())
            if name == "update":
                for a in args:
                    if isinstance(a, dict):
                        obj.update(a)
                    elif isinstance(a, (list, tuple)):
                        for k_, v_ in a:
                            obj[_pykey(k_)] = v_
                    else:
                        raise Unmodelled("dict.update with a non-constant argument")
                obj.update(kwargs)
                return None
            if name == "pop" and args:
                k_ = _pykey(args[0])
                if k_ in obj:
                    return obj.pop(k_)
                if len(args) > 1:
                    return args[1]
                raise Unmodelled("dict.pop of a missing key (KeyError)")
            if name == "copy" and not args:
                return dict(obj)
        if isinstance(obj, SuperObj):
            mro = obj.self_obj.cls.mro if obj.self_obj.cls is not None else []
            after = mro[mro.index(obj.cls) + 1:] if obj.cls in mro else []
            for c in after:
                if name in c.methods:
                    return self.apply(BoundMethod(c.methods[name], obj.self_obj), args, kwargs, n, depth)
            raise Unmodelled("super().%s not found" % name)
        if isinstance(obj, SelfObj):
            return self.apply(obj.get(name, self, depth), args, kwargs, n, depth)
        if is_sym(obj) and self.hooks.get("sym_method"):
            r = self.hooks["sym_method"](self, obj, name, args, kwargs)
            if r is not NotImplemented:
                return r
        if is_sym(obj):
            if name in ("numpy", "copy"):
                return obj
            if name == "conjugate":
                return sp.conjugate(obj)
            if name in ("doit", "evalf", "simplify", "expand"):
                return obj
            if name == "subs":
                return obj.subs(args[0])
        if isinstance(obj, Mod):
            r = self.repo.resolve_name(obj, name)
            if isinstance(r, Fn):
                return self.apply(r, args, kwargs, n, depth)
        return NotImplemented

    def builtin(self, name, args, kwargs, n):
        a0 = args[0] if args else None
        if name in ("list", "tuple", "set", "frozenset", "sorted", "len", "enumerate", "zip", "sum", "any", "all", "min", "max") and any(isinstance(x, SelfObj) for x in args):
            args = [self._iterable(x, n, 0) if isinstance(x, SelfObj) else x for x in args]
            a0 = args[0]
        if name == "int":
            if is_sym(a0) and a0.is_number:
                return sp.Integer(int(a0))
            if isinstance(a0, (int, float)):
                return sp.Integer(int(a0))
            if isinstance(a0, str):
                try:
                    return sp.Integer(int(a0))
                except ValueError:
                    raise Raised("ValueError: invalid literal for int(): %r" % a0)
            raise Unmodelled("int() of symbolic value")
        if name in ("float", "complex"):
            return num(a0) if not is_sym(a0) else a0
        if name == "len":
            if isinstance(a0, (list, tuple, dict, str, range)):
                return sp.Integer(len(a0))
            if isinstance(a0, np.ndarray) and a0.ndim >= 1:
                return sp.Integer(a0.shape[0])   # the component model knows its leading dimension
            raise Unmodelled("len() of symbolic value")
        if name == "range":
            return range(*[_pyint(x) for x in args])
        if name == "abs":
            return sp.Abs(a0) if is_sym(a0) else abs(a0)
        if name == "sum":
            tot = args[1] if len(args) > 1 else sp.Integer(0)
            for x in a0:
                tot = tot + x
            return tot
        if name in ("list", "tuple"):
            if a0 is None:
                return [] if name == "list" else ()
            return list(a0) if name == "list" else tuple(a0)
        if name in ("set", "frozenset"):
            if a0 is not None and not isinstance(a0, (list, tuple, range, dict, str)):
                raise Unmodelled("set() of a symbolic value")
            return PySet(a0 if a0 is not None else ())
        if name in ("any", "all"):
            vals = [self.truth(x) for x in list(a0)]
            return any(vals) if name == "any" else all(vals)
        if name in ("set.intersection", "set.union"):
            sets = [PySet(a) for a in args]
            out = sets[0] if sets else PySet()
            for o in sets[1:]:
                out = PySet(x for x in out if x in o) if name.endswith("intersection") else PySet(list(out) + list(o))
            return out
        if name == "type" and len(args) == 1:
            # type(x)(...) rebuilds a container of the same kind
            if isinstance(a0, PySet):
                return PyFunc(lambda it=(): PySet(it), name="type:set")
            if isinstance(a0, dict):
                return PyFunc(lambda it=(), **kw: dict(it, **kw) if not isinstance(it, dict) else dict(it), name="type:dict")
            if isinstance(a0, list):
                return PyFunc(lambda it=(): list(it), name="type:list")
            if isinstance(a0, tuple):
                return PyFunc(lambda it=(): tuple(it), name="type:tuple")
            if isinstance(a0, str):
                return PyFunc(lambda it="": str(it), name="type:str")
            raise Unmodelled("type() of a symbolic value")
        if name == "str" and len(args) == 1:
            if isinstance(a0, str):
                return str(a0)
            if isinstance(a0, (bool, int, float, type(None))):
                return str(a0)
            if isinstance(a0, tuple) and _pyplain(a0):
                return str(a0)
            if is_sym(a0) and a0.is_number:
                return str(a0)
            if isinstance(a0, SelfObj) and isinstance(a0.attrs.get("__str__"), str):
                return a0.attrs["__str__"]
            if isinstance(a0, SelfObj) and a0.cls is not None:
                m_ = a0.cls.lookup("__str__") or a0.cls.lookup("__repr__")
                if m_ is not None:
                    return self.call_fn(m_, [], {}, self_obj=a0, depth=1)
            raise Unmodelled("str() of a symbolic value")
        if name == "print":
            return None
        if name == "id" and len(args) == 1:
            return id(a0)  # identity of the abstract value: equal for the same object, different otherwise
        if name == "vars" and len(args) == 1 and isinstance(a0, SelfObj):
            return a0.attrs
        if name == "iter" and len(args) == 1:
            a0 = self._iterable(a0, n, 0)
            if isinstance(a0, (list, tuple, dict, range, str)):
                return PyIter(a0)
            raise Unmodelled("iter() of a non-constant iterable")
        if name == "next" and len(args) in (1, 2) and isinstance(a0, PyIter):
            if not a0:
                if len(args) == 2:
                    return args[1]
                raise Unmodelled("next() on an exhausted iterator")
            return a0.pop(0)
        if name == "next" and len(args) in (1, 2) and isinstance(a0, list) and n is not None and n.args and isinstance(n.args[0], ast.GeneratorExp):
            # next(<generator expression>[, default]): the generator was evaluated eagerly into a list
            if a0:
                return a0[0]
            if len(args) == 2:
                return args[1]
            raise Unmodelled("next() on an empty generator")
        if name == "getattr" and len(args) >= 2 and isinstance(args[1], str):
            if isinstance(a0, SelfObj):
                try:
                    return a0.get(args[1], self, 0)
                except Unmodelled:
                    if len(args) > 2:
                        return args[2]
                    raise
            if isinstance(a0, dict):
                if args[1] in a0:
                    return a0[args[1]]
                if len(args) > 2:
                    return args[2]
            raise Unmodelled("getattr on a symbolic value")
        if name == "map" and len(args) >= 2:
            seqs = [list(x) for x in args[1:]]
            return [self.apply(a0, list(items), {}, n, 0) for items in zip(*seqs)]
        if name == "filter" and len(args) == 2:
            keep = (lambda x_: self.truth(x_, n)) if a0 is None else (lambda x_: self.truth(self.apply(a0, [x_], {}, n, 0), n))
            return [x_ for x_ in list(args[1]) if keep(x_)]
        if name == "zip":
            return list(zip(*[list(x) for x in args]))
        if name == "dict":
            out = {}
            if a0 is not None:
                for k_, v_ in (a0.items() if isinstance(a0, dict) else list(a0)):
                    out[_pykey(k_)] = v_
            out.update(kwargs)
            return out
        if name == "enumerate":
            start = kwargs.get("start", args[1] if len(args) > 1 else 0)
            return [(sp.Integer(i), x) for i, x in enumerate(list(a0), _pyint(start))]
        if name == "reversed":
            return list(reversed(list(a0)))
        if name in ("sorted", "min", "max") and (kwargs.get("key") is not None or "reverse" in kwargs or "default" in kwargs):
            items = list(a0) if (name == "sorted" or len(args) == 1) else list(args)
            keyf = kwargs.get("key")
            rev = kwargs.get("reverse", False)
            if not isinstance(rev, (bool, int)) and not (is_sym(rev) and rev.is_number) and rev not in (sp.true, sp.false):
                raise Unmodelled("sorted(reverse=<symbolic>)")
            rev = bool(rev)

            def plain(k_):
                if isinstance(k_, (tuple, list)):
                    return tuple(plain(x) for x in k_)
                if isinstance(k_, (str, bool, int, float)):
                    return k_
                if is_sym(k_) and k_.is_number and k_.is_real:
                    return sp.Rational(k_) if k_.is_Rational else float(k_)
                raise Unmodelled("sort key %r is not a concrete value" % (k_,))

            if keyf is None:
                keys = [plain(x) for x in items]
            else:
                keys = [plain(keyf(x) if callable(keyf) and not isinstance(keyf, (Fn, BoundMethod, Closure, PyFunc, Cls, Opaque, SelfObj)) else self.apply(keyf, [x], {}, n, 0)) for x in items]
            order_ = sorted(range(len(items)), key=lambda i_: keys[i_], reverse=rev)   # stable, like Python's
            if name == "sorted":
                return [items[i_] for i_ in order_]
            if not items:
                if "default" in kwargs:
                    return kwargs["default"]
                raise Unmodelled("%s() of an empty sequence" % name)
            best = items[0]
            bk = keys[0]
            for it_, k_ in zip(items[1:], keys[1:]):
                if (k_ < bk) if name == "min" else (k_ > bk):
                    best, bk = it_, k_
            return best
        if name == "sorted":
            return sorted(list(a0))
        if name in ("min", "max"):
            vals = list(a0) if len(args) == 1 else args
            if all(is_sym(v) and v.is_number or isinstance(v, (int, float)) for v in vals):
                return (min if name == "min" else max)(vals)
            raise Unmodelled("min/max of symbolic values")
        if name == "isinstance":
            h = self.hooks.get("builtin.isinstance")
            if h:
                return h(self, args, kwargs, n)
            raise Unmodelled("isinstance dispatch inside a kernel")
        if name == "hasattr":
            if isinstance(a0, SelfObj) and isinstance(args[1], str):
                if args[1] in a0.attrs:
                    return True
                if a0.cls is not None:
                    return a0.cls.lookup(args[1]) is not None or any(args[1] in c.class_attrs for c in a0.cls.mro)
                return False
            if args[1] == "dtype":
                return is_sym(a0)
            if args[1] == "__len__":
                return isinstance(a0, (list, tuple, dict, str, np.ndarray))
            raise Unmodelled("hasattr dispatch")
        if name == "callable":
            return isinstance(a0, (Fn, BoundMethod, Closure, PyFunc))
        if name == "round":
            raise Unmodelled("round")
        if name == "pow":
            return self.binop(ast.Pow(), args[0], args[1])
        if name == "print":
            return None
        if name == "bool":
            return self.truth(a0, n)
        if name == "divmod" and len(args) == 2:
            return (self.binop(ast.FloorDiv(), args[0], args[1]), self.binop(ast.Mod(), args[0], args[1]))
        if name == "dict.fromkeys" and 1 <= len(args) <= 2:
            return {_pykey(k_): (args[1] if len(args) > 1 else None) for k_ in list(a0)}
        raise Unmodelled("builtin %s" % name)

    def numeric_call(self, d, last, args, kwargs, n):
        if not args and kwargs and d.split(".")[0] in ("tf", "np", "tensorflow", "numpy"):
            # the first parameter of a tf / np function given by keyword (tf.cast(x=..), tf.concat(values=..),
            # tf.clip_by_value(t=..)): the same call with that argument in first position
            for first in ("x", "t", "a", "value", "values", "tensor", "input", "input_tensor", "tensors"):
                if first in kwargs:
                    kwargs = dict(kwargs)
                    args = [kwargs.pop(first)]
                    break
        if d in ("logging.getLogger", "getLogger"):
            return Opaque("logger")
        if d in ("functools.partial", "partial") and args:
            # partial(f, *a, **k): a callable that applies f to the stored and the later arguments
            f0, a0_, k0_ = args[0], list(args[1:]), dict(kwargs)
            return PyFunc(lambda *a_, _f=f0, _a=a0_, _k=k0_, **k_: self.apply(_f, _a + list(a_), dict(_k, **k_), n, 0), name="partial")
        if last in ("less", "greater", "less_equal", "greater_equal", "equal", "not_equal") and len(args) == 2 and d.split(".")[0] in ("tf", "np", "tensorflow", "numpy"):
            # functional spelling of a comparison: tf.less(a, b) is a < b
            op_ = {"less": ast.Lt(), "greater": ast.Gt(), "less_equal": ast.LtE(), "greater_equal": ast.GtE(), "equal": ast.Eq(), "not_equal": ast.NotEq()}[last]
            return self.compare(op_, args[0], args[1])
        if d in ("copy.deepcopy", "deepcopy", "copy.copy") and len(args) == 1 and isinstance(args[0], (dict, list, tuple)) and not isinstance(args[0], np.ndarray):
            def _cp(x, deep):
                if isinstance(x, dict) and type(x) is dict:
                    return {k_: (_cp(v_, deep) if deep else v_) for k_, v_ in x.items()}
                if type(x) is list:
                    return [(_cp(v_, deep) if deep else v_) for v_ in x]
                if type(x) is tuple:
                    return tuple((_cp(v_, deep) if deep else v_) for v_ in x)
                return x   # leaves (symbols, tokens, arrays of the component model) are values
            return _cp(args[0], d != "copy.copy")
        if last == "shape" and d.split(".")[0] in ("tf", "tensorflow") and len(args) == 1 and isinstance(args[0], (np.ndarray, TensorList)):
            # tf.shape(x) of a component array / of a batch of event tokens: same as x.shape
            return tuple(sp.Integer(k) for k in args[0].shape) if isinstance(args[0], np.ndarray) else (sp.Integer(len(args[0])),)
        a0 = args[0] if args else None
        if d.split(".")[0] == "itertools":
            import itertools as _it
            seqs = []
            for a in args:
                a = self._iterable(a, n, 0)
                if isinstance(a, dict):
                    a = list(a)
                if not isinstance(a, (list, tuple, range, str)):
                    seqs = None
                    break
                seqs.append(list(a))
            if seqs is not None and last == "product":
                rep = _pyint(kwargs.get("repeat", 1))
                return [tuple(x) for x in _it.product(*seqs, repeat=rep)]
            if seqs is not None and last == "chain":
                return [x for s_ in seqs for x in s_]
            if last in ("combinations", "permutations") and len(args) >= 1 and isinstance(self._iterable(args[0], n, 0), (list, tuple, range)):
                r_ = _pyint(args[1]) if len(args) > 1 else _pyint(kwargs.get("r")) if kwargs.get("r") is not None else None
                f_ = getattr(_it, last)
                return [tuple(x) for x in (f_(list(self._iterable(args[0], n, 0)), r_) if r_ is not None else f_(list(self._iterable(args[0], n, 0))))]
            raise Unmodelled("itertools.%s of these arguments" % last)
        first = self.hooks.get("numeric_call_first")
        if first:
            r = first(self, d, args, kwargs, n)
            if r is not NotImplemented:
                return r
        if last == "diag" and isinstance(a0, (list, tuple)) and a0 and all(is_sym(x) or isinstance(x, (int, float)) for x in a0):
            return np.diag(as_arr(list(a0))) + sp.Integer(0)
        if last == "map_structure" and len(args) >= 2:
            # tf.nest.map_structure(f, *structures): f applied leaf-wise over parallel lists / tuples / dicts
            fn_, structs = args[0], args[1:]

            def rec(parts):
                p0 = parts[0]
                if isinstance(p0, (list, tuple)) and not isinstance(p0, TensorList):
                    if any(not isinstance(p, (list, tuple)) or len(p) != len(p0) for p in parts):
                        raise Unmodelled("map_structure over structures of different shape")
                    out = [rec([p[i] for p in parts]) for i in range(len(p0))]
                    return tuple(out) if isinstance(p0, tuple) else out
                if isinstance(p0, dict):
                    if any(not isinstance(p, dict) or sorted(p, key=str) != sorted(p0, key=str) for p in parts):
                        raise Unmodelled("map_structure over dicts with different keys")
                    return {k: rec([p[k] for p in parts]) for k in sorted(p0, key=str)}
                if isinstance(fn_, Opaque):
                    return self.numeric_call(fn_.name, fn_.name.split(".")[-1], list(parts), {}, n)
                return self.apply(fn_, list(parts), {}, n, 0)

            return rec(list(structs))
        if last == "cast" and len(args) >= 1:
            # a boolean mask cast to a number: True -> 1, False -> 0 (element-wise)
            def _num_of_bool(v):
                if isinstance(v, bool) or v is sp.true or v is sp.false:
                    return sp.Integer(1 if bool(v) else 0)
                if isinstance(v, _BOOL_EXPR):
                    try:
                        return sp.Integer(1 if self.truth(v, n) else 0)
                    except Unmodelled:
                        return sp.Piecewise((sp.Integer(1), v), (sp.Integer(0), True))
                return v
            if isinstance(args[0], np.ndarray) and args[0].size and any(isinstance(v, (bool,) + _BOOL_EXPR) for v in args[0].reshape(-1)):
                out_ = np.empty(args[0].shape, dtype=object)
                for i_ in np.ndindex(args[0].shape):
                    out_[i_] = _num_of_bool(args[0][i_])
                return out_
            if isinstance(args[0], (bool,) + _BOOL_EXPR):
                return _num_of_bool(args[0])
        r = self.array_call(d, last, args, kwargs, n)
        if r is not NotImplemented:
            return r
        if d in IDENTITY_CALLS or last in ("cast", "convert_to_tensor", "identity", "stop_gradient", "asarray"):
            if isinstance(a0, (list, tuple)) and (last == "constant" or self.hooks.get("stack_as_array")) and a0 and all(is_sym(x) or isinstance(x, (int, float)) for x in a0):
                return as_arr(a0)
            return a0 if is_sym(a0) or not isinstance(a0, (int, float)) else num(a0)
        if last == "complex" and len(args) == 2:
            return _s(args[0]) + sp.I * _s(args[1])
        if last == "broadcast_to":
            return a0
        if last in ("zeros", "ones") and self.hooks.get("concrete_zeros"):
            shp = kwargs.get("shape", a0)
            if (is_sym(shp) and shp.is_Integer) or (isinstance(shp, int) and not isinstance(shp, bool)):
                shp = [shp]   # np.ones(n): a vector of length n
            if isinstance(shp, (list, tuple)) and all((is_sym(x) and x.is_Integer) or isinstance(x, int) for x in shp):
                out = np.empty(tuple(int(x) for x in shp), dtype=object)
                out.fill(sp.Integer(0 if last == "zeros" else 1))
                return out
        if last == "full" and self.hooks.get("concrete_zeros") and len(args) >= 2:
            shp = a0
            if (is_sym(shp) and shp.is_Integer) or (isinstance(shp, int) and not isinstance(shp, bool)):
                shp = [shp]
            if isinstance(shp, (list, tuple)) and all((is_sym(x) and x.is_Integer) or isinstance(x, int) for x in shp):
                out = np.empty(tuple(int(x) for x in shp), dtype=object)
                out.fill(_s(args[1]))
                return out
        if last in ("zeros_like", "zeros"):
            return sp.Integer(0)
        if last in ("ones_like", "ones"):
            return sp.Integer(1)
        if ("unary:" + last) in self.hooks and len(args) >= 1:
            return self.hooks["unary:" + last](self, _s(a0))
        if last in UNARY_FUNCS and len(args) >= 1:
            return UNARY_FUNCS[last](_s(a0))
        if last in ("pow", "power") and len(args) == 2:
            return self.binop(ast.Pow(), args[0], args[1])
        if last in ("atan2", "arctan2"):
            return sp.atan2(_s(args[0]), _s(args[1]))
        if last == "where":
            c0 = args[0]
            if isinstance(c0, (list, tuple)) and c0 and all(isinstance(x, bool) or x is sp.true or x is sp.false for x in c0):
                vals = []
                for k_, ck in enumerate(c0):
                    pick = args[1] if self.truth(ck, n) else args[2]
                    vals.append(pick[k_] if isinstance(pick, (list, tuple, np.ndarray)) else pick)
                return as_arr(vals)  # element-wise selection by a list of flags
            c = self.truth(args[0], n)
            return _s(args[1] if c else args[2])
        if last == "polyval":
            coeffs, x = args[0], _s(args[1])
            if not isinstance(coeffs, (list, tuple)):
                raise Unmodelled("polyval with symbolic coefficient list")
            acc = sp.Integer(0)
            for c in coeffs:  # tf.math.polyval / np.polyval: highest power first (Horner)
                acc = acc * x + _s(c)
            return acc
        if last in ("arange", "range") and all((is_sym(x) and x.is_number) or isinstance(x, (int, float)) for x in args) and 1 <= len(args) <= 3:
            a = [_s(x) for x in args]
            lo, hi, st = (sp.Integer(0), a[0], sp.Integer(1)) if len(a) == 1 else (a[0], a[1], a[2] if len(a) == 3 else sp.Integer(1))
            if st <= 0:
                raise Unmodelled("arange with non-positive step")
            out, v = [], lo
            while v < hi and len(out) < 10000:
                out.append(v)
                v = v + st
            return as_arr(out) if out else np.empty((0,), dtype=object)
        if last in ("maximum", "minimum"):
            raise Unmodelled("%s is data dependent" % d)
        if last in ("add", "subtract", "multiply", "divide", "truediv"):
            op = {"add": ast.Add(), "subtract": ast.Sub(), "multiply": ast.Mult(), "divide": ast.Div(), "truediv": ast.Div()}[last]
            return self.binop(op, args[0], args[1])
        if last == "factorial":
            return sp.factorial(_s(a0))
        if last in ("Fraction",):
            return sp.Rational(_pyint(args[0]), _pyint(args[1]) if len(args) > 1 else 1)
        if last in ("Symbol", "symbols"):
            if last == "symbols" and isinstance(a0, str) and len(a0.replace(",", " ").split()) > 1:
                out_ = tuple(sp.Symbol(t_) for t_ in a0.replace(",", " ").split())
                _OBJECT_SYMBOLS.update(out_)   # sympy symbols the interpreted code itself creates: objects, not unknown data
                return out_
            _OBJECT_SYMBOLS.add(sp.Symbol(str(a0)))
            return sp.Symbol(str(a0))
        hook = self.hooks.get("numeric_call")
        if hook:
            r = hook(self, d, args, kwargs, n)
            if r is not NotImplemented:
                return r
        raise Unmodelled("numeric call %s not modelled" % d)

    def array_call(self, d, last, args, kwargs, n):
        """tensor-shaped operations on the component model (numpy object arrays)"""
        a0 = args[0] if args else None
        axis = kwargs.get("axis", None)

        def ax(default=None, pos=1):
            v = axis if axis is not None else (args[pos] if len(args) > pos else default)
            if isinstance(v, np.ndarray) and v.ndim == 1:
                v = list(v)   # axis=tf.range(1, tf.rank(x)): a 1-d tensor of axes
            if isinstance(v, (list, tuple)):
                return tuple(_pyint(x) for x in v)  # reduction over several axes
            return None if v is None else _pyint(v)

        if last == "copy" and d.split(".")[0] in ("np", "numpy") and isinstance(a0, np.ndarray):
            return a0.copy()
        if last in ("rank", "ndim") and isinstance(a0, np.ndarray):
            return sp.Integer(a0.ndim)
        if last in ("reduce_sum", "sum") and isinstance(a0, (list, tuple)) and not a0 and not isinstance(a0, np.ndarray):
            return sp.Integer(0)   # the sum over an empty list of parts
        if last in ("reduce_sum", "sum") and isinstance(a0, (list, tuple)) and a0 and all(is_sym(x) or isinstance(x, (int, float)) for x in a0) and ax(None) in (0, None):
            # a python list of per-part tensors summed over the list axis
            tot = sp.Integer(0)
            for x in a0:
                tot = tot + _s(x)
            return tot
        if last in ("reduce_prod", "prod") and isinstance(a0, (list, tuple)) and a0 and all(is_sym(x) or isinstance(x, (int, float)) for x in a0) and ax(None) in (0, None):
            tot = sp.Integer(1)
            for x in a0:
                tot = tot * _s(x)
            return tot
        if last in ("reduce_sum", "sum") and is_arr(a0):
            k = ax(None)
            r = np.sum(a0, axis=k)
            return r[()] if isinstance(r, np.ndarray) and r.shape == () else r
        if last in ("reduce_prod", "prod") and is_arr(a0):
            k = ax(None)
            r = np.prod(a0, axis=k)
            return r[()] if isinstance(r, np.ndarray) and r.shape == () else r
        if last in ("reduce_mean", "mean") and is_arr(a0) and a0.size:
            k = ax(None)
            cnt = a0.size if k is None else a0.shape[k]
            r = np.sum(a0, axis=k) / sp.Integer(cnt)
            return r[()] if isinstance(r, np.ndarray) and r.shape == () else r
        if last == "expand_dims":
            return np.expand_dims(as_arr(a0), ax(-1))
        if last in ("concat", "concatenate") and isinstance(a0, (list, tuple)):
            return np.concatenate([as_arr(x) for x in a0], axis=ax(0))
        if last == "stack" and isinstance(a0, (list, tuple)) and (kwargs.get("axis") is not None or any(is_arr(x) for x in a0) or self.hooks.get("stack_as_array")):
            return np.stack([as_arr(x) for x in a0], axis=ax(0))
        if last == "eye":
            k = _pyint(a0)
            k2 = args[1] if len(args) > 1 else kwargs.get("M", kwargs.get("num_columns"))
            k2 = k if k2 is None else _pyint(k2)
            out = np.empty((k, k2), dtype=object)
            for i in range(k):
                for j in range(k2):
                    out[i, j] = sp.Integer(1 if i == j else 0)
            return out
        if last == "array" and d.split(".")[0] in ("np", "numpy") and isinstance(a0, (list, tuple)) and not isinstance(a0, np.ndarray) and a0 and all(isinstance(r_, (list, tuple)) for r_ in a0) and (self.hooks.get("concrete_zeros") or self.hooks.get("stack_as_array")):
            try:
                arr_ = np.array(a0, dtype=object)
            except ValueError:
                arr_ = None
            if arr_ is not None and arr_.ndim >= 2 and all(is_sym(v_) or isinstance(v_, (int, float)) for v_ in arr_.reshape(-1)):
                out_ = np.empty(arr_.shape, dtype=object)
                for i_ in np.ndindex(arr_.shape):
                    out_[i_] = _s(arr_[i_])
                return out_
        if last == "reshape" and self.hooks.get("concrete_zeros") and is_sym(a0) and len(args) > 1 and isinstance(args[1], (list, tuple)):
            # a scalar tensor component reshaped to (-1, 1) etc.: one event
            shp = [_pyint(x) for x in args[1]]
            return np.reshape(as_arr([a0]), [1 if x == -1 else x for x in shp])
        if not any(is_arr(x) for x in args):
            return NotImplemented
        if last in ("zeros_like", "ones_like"):
            v = sp.Integer(0 if last == "zeros_like" else 1)
            return arr_map(lambda _: v, a0)
        if last in UNARY_FUNCS:
            return arr_map(UNARY_FUNCS[last], a0)
        if last == "norm":
            return sp.sqrt(np.sum(a0 * a0, axis=ax(-1)))
        if d in IDENTITY_CALLS or last in ("cast", "convert_to_tensor", "identity", "stop_gradient", "asarray"):
            if last == "array" and isinstance(a0, np.ndarray):
                return a0.copy()  # np.array(x) copies an array (np.asarray does not)
            return a0
        if last == "where":
            c0 = args[0]
            if isinstance(c0, (list, tuple)) and c0 and all(isinstance(x, bool) or x is sp.true or x is sp.false for x in c0):
                c0 = np.array(list(c0), dtype=object)
            if isinstance(c0, np.ndarray) and c0.dtype == object and _boolish(c0) and c0.size:
                A, B = as_arr(args[1]) if is_arr(args[1]) else args[1], as_arr(args[2]) if is_arr(args[2]) else args[2]
                C, A, B = np.broadcast_arrays(c0, np.asarray(A, dtype=object), np.asarray(B, dtype=object))
                out = np.empty(C.shape, dtype=object)
                for i in np.ndindex(C.shape):
                    out[i] = A[i] if self.truth(C[i], n) else B[i]
                return out
            c = self.truth(args[0], n)
            return args[1] if c else args[2]
        if last in ("einsum",):
            expr = args[0]
            return np.einsum(expr, *[as_arr(x) for x in args[1:]])
        if last in ("matmul", "dot"):
            return np.dot(as_arr(args[0]), as_arr(args[1]))
        if last == "pad" and len(args) >= 2 and str(kwargs.get("mode", args[2] if len(args) > 2 else "CONSTANT")).upper() == "CONSTANT":
            pads = [tuple(_pyint(x) for x in pr) for pr in args[1]]
            fill = kwargs.get("constant_values", 0)
            return np.pad(as_arr(a0), pads, mode="constant", constant_values=_s(fill))
        if last == "gather" and len(args) >= 2:
            idx = [_pyint(x) for x in args[1]]
            return np.take(as_arr(a0), idx, axis=ax(0, pos=2))
        if last in ("pow", "power") and len(args) == 2:
            return as_arr(args[0]) ** as_arr(args[1])
        if last in ("multiply", "add", "subtract", "divide", "truediv") and len(args) == 2:
            A, B = as_arr(args[0]), as_arr(args[1])
            return {"multiply": A * B, "add": A + B, "subtract": A - B}.get(last, A / B)
        if last == "diag":
            return np.diag(as_arr(a0)) + sp.Integer(0)
        if last == "cross":
            return np.cross(as_arr(args[0]), as_arr(args[1]))
        if last == "normalize":
            a = as_arr(a0)
            nrm = sp.sqrt(np.sum(a * a, axis=ax(-1)))
            nn = np.expand_dims(as_arr(nrm), -1) if isinstance(nrm, np.ndarray) else nrm
            return (a / nn, nrm)
        if last == "transpose":
            perm = kwargs.get("perm", args[1] if len(args) > 1 else None)
            return np.transpose(a0, [_pyint(x) for x in perm] if perm is not None else None)
        if last == "reshape":
            shp = args[1] if len(args) > 1 else kwargs.get("shape", kwargs.get("newshape"))
            if shp is None:
                raise Unmodelled("reshape without a shape")
            return np.reshape(a0, [_pyint(x) for x in shp])
        if last == "complex" and len(args) == 2:
            return as_arr(args[0]) + sp.I * as_arr(args[1])
        raise Unmodelled("array call %s not modelled" % d)

    # ------------------------------------------------------------ operators
    def binop(self, op, a, b):
        try:
            return self._binop(op, a, b)
        except TypeError as e:
            # e.g. a sympy relational added to a symbol (tf.cast(mask, dtype) modelled as the identity): not a model
            raise Unmodelled("arithmetic on %s and %s: %s" % (type(a).__name__, type(b).__name__, e))

    def _binop(self, op, a, b):
        if isinstance(op, (ast.BitAnd, ast.BitOr)) and _boolish(a) and _boolish(b) and (is_arr(a) or is_arr(b) or is_sym(a) or is_sym(b)):
            f = sp.And if isinstance(op, ast.BitAnd) else sp.Or  # element-wise mask algebra
            if is_arr(a) or is_arr(b):
                A, B = np.broadcast_arrays(np.asarray(a, dtype=object), np.asarray(b, dtype=object))
                out = np.empty(A.shape, dtype=object)
                for i in np.ndindex(A.shape):
                    out[i] = f(A[i], B[i])
                return out
            return f(a, b)
        if is_arr(a) and isinstance(b, (list, tuple)) and b and all(is_sym(x) or isinstance(x, (int, float)) for x in b):
            b = as_arr(list(b))  # numpy converts the list operand
        if is_arr(b) and isinstance(a, (list, tuple)) and a and all(is_sym(x) or isinstance(x, (int, float)) for x in a):
            a = as_arr(list(a))
        if is_arr(a) or is_arr(b):
            A = a if is_arr(a) else _s(a)
            B = b if is_arr(b) else _s(b)
            if isinstance(op, ast.Add):
                return A + B
            if isinstance(op, ast.Sub):
                return A - B
            if isinstance(op, ast.Mult):
                return A * B
            if isinstance(op, ast.Div):
                return A / B
            if isinstance(op, ast.Pow):
                return A ** B
            if isinstance(op, ast.Mod):
                return A % B
            if isinstance(op, ast.MatMult):
                return np.dot(A, B)
            raise Unmodelled("array operator %s" % type(op).__name__)
        if isinstance(a, PySet) and isinstance(b, PySet):
            if isinstance(op, ast.Sub):
                return PySet(x for x in a if x not in b)
            if isinstance(op, ast.BitOr):
                return PySet(list(a) + list(b))
            if isinstance(op, ast.BitAnd):
                return PySet(x for x in a if x in b)
            if isinstance(op, ast.BitXor):
                return PySet([x for x in a if x not in b] + [x for x in b if x not in a])
            raise Unmodelled("set operator %s" % type(op).__name__)
        if isinstance(a, PySet) or isinstance(b, PySet):
            raise Unmodelled("set combined with a non-set")
        if isinstance(a, (list, tuple)) or isinstance(b, (list, tuple)):
            if isinstance(op, ast.Add) and type(a) == type(b):
                return a + b
            if isinstance(op, ast.Mult) and isinstance(b, (int, sp.Integer)):
                return a * int(b)
            raise Unmodelled("sequence arithmetic")
        if isinstance(a, str) or isinstance(b, str):
            if isinstance(op, ast.Add):
                return str(a) + str(b)
            if isinstance(op, ast.Mod) and isinstance(a, str):
                vals = b if isinstance(b, tuple) else (b,)
                try:
                    return str(a) % tuple((int(v) if is_sym(v) and v.is_Integer else (float(v) if is_sym(v) and v.is_number else (str(v) if not isinstance(v, (int, float, str)) else v))) for v in vals)
                except (TypeError, ValueError):
                    return "<fmt>"
            if isinstance(op, ast.Mod):
                return "<fmt>"
            raise Unmodelled("string arithmetic")
        a, b = _s(a), _s(b)
        if isinstance(op, ast.Add):
            return a + b
        if isinstance(op, ast.Sub):
            return a - b
        if isinstance(op, ast.Mult):
            return a * b
        if isinstance(op, ast.Div):
            return a / b
        if isinstance(op, ast.Pow):
            return a ** b
        if isinstance(op, ast.FloorDiv):
            if a.is_number and b.is_number:
                return sp.floor(a / b)
            raise Unmodelled("floor division of symbolic values")
        if isinstance(op, (ast.RShift, ast.LShift)):
            if a.is_Integer and b.is_Integer and b >= 0:
                return sp.Integer(int(a) >> int(b)) if isinstance(op, ast.RShift) else sp.Integer(int(a) << int(b))
            raise Unmodelled("shift of non-integer values")
        if isinstance(op, ast.Mod):
            if a.is_number and b.is_number:
                return a % b
            if self.hooks.get("binop:Mod"):
                return self.hooks["binop:Mod"](self, a, b)
            raise Unmodelled("modulo of symbolic values")
        raise Unmodelled("operator %s" % type(op).__name__)

    def compare(self, op, a, b):
        if isinstance(a, PySet) and isinstance(b, PySet) and isinstance(op, (ast.Eq, ast.NotEq, ast.Lt, ast.LtE, ast.Gt, ast.GtE)):
            ka, kb = [_pykey(x) for x in a], [_pykey(x) for x in b]
            sub, sup = all(x in kb for x in ka), all(x in ka for x in kb)
            table = {ast.Eq: sub and sup, ast.NotEq: not (sub and sup), ast.LtE: sub, ast.Lt: sub and not sup, ast.GtE: sup, ast.Gt: sup and not sub}
            return table[type(op)]  # subset / superset tests, as for Python sets
        if isinstance(op, (ast.Is, ast.IsNot)) and (is_arr(a) or is_arr(b)):
            r = a is b
            return r if isinstance(op, ast.Is) else not r
        if is_arr(a) or is_arr(b):
            # element-wise comparison of component arrays: an array of sympy relationals
            rel = {ast.Lt: sp.Lt, ast.LtE: sp.Le, ast.Gt: sp.Gt, ast.GtE: sp.Ge, ast.Eq: sp.Eq, ast.NotEq: sp.Ne}.get(type(op))
            if rel is None:
                raise Unmodelled("array comparison %s" % type(op).__name__)
            A, B = np.broadcast_arrays(as_arr(a) if is_arr(a) else np.array(_s(a), dtype=object), as_arr(b) if is_arr(b) else np.array(_s(b), dtype=object))
            out = np.empty(A.shape, dtype=object)
            for i in np.ndindex(A.shape):
                out[i] = rel(A[i], B[i])
            return out
        if isinstance(op, (ast.In, ast.NotIn)):
            if isinstance(b, (list, tuple, dict, str, range)):
                r = _pykey(a) in ([_pykey(x) for x in b] if not isinstance(b, (dict, str)) else b)
                return r if isinstance(op, ast.In) else not r
            raise Unmodelled("membership in symbolic value")
        if isinstance(op, (ast.Is, ast.IsNot)):
            # type(x) is dict: the builtin types are singletons, `is` and `==` agree on them
            for x_, y_ in ((a, b), (b, a)):
                if isinstance(x_, PyFunc) and str(getattr(x_, "name", "")).startswith("type:") and isinstance(y_, Opaque) and y_.name.startswith("builtin."):
                    r_ = x_.name[5:] == y_.name[8:]
                    return r_ if isinstance(op, ast.Is) else not r_
            r = (a is b) or (a is None and b is None)
            if a is None or b is None:
                r = a is None and b is None
            return r if isinstance(op, ast.Is) else not r
        if isinstance(op, (ast.Eq, ast.NotEq)):
            # type(x) == dict / list / ...: the result of type() against the builtin name
            for x_, y_ in ((a, b), (b, a)):
                if isinstance(x_, PyFunc) and str(getattr(x_, "name", "")).startswith("type:") and isinstance(y_, Opaque) and y_.name.startswith("builtin."):
                    r_ = x_.name[5:] == y_.name[8:]
                    return r_ if isinstance(op, ast.Eq) else not r_
        if isinstance(a, (DType, Opaque)) or isinstance(b, (DType, Opaque)):
            raise Unmodelled("comparison of dtypes / opaque objects")
        if isinstance(a, bool) or isinstance(b, bool):
            if isinstance(op, ast.Eq):
                return a is b if isinstance(a, bool) and isinstance(b, bool) else bool(a) == bool(b) if (isinstance(a, bool) or a in (0, 1)) and (isinstance(b, bool) or b in (0, 1)) else False
            if isinstance(op, ast.NotEq):
                return not self.compare(ast.Eq(), a, b)
            raise Unmodelled("ordering of booleans")
        if _pyplain(a) and _pyplain(b) and isinstance(a, (str, tuple, list)) and isinstance(b, (str, tuple, list)) and (isinstance(a, str) == isinstance(b, str)) and (isinstance(a, tuple) == isinstance(b, tuple)):
            # strings / tuples / lists of strings (incl. checker tokens): Python's own comparison
            table = {ast.Eq: lambda: a == b, ast.NotEq: lambda: a != b, ast.Lt: lambda: a < b, ast.LtE: lambda: a <= b, ast.Gt: lambda: a > b, ast.GtE: lambda: a >= b}
            return bool(table[type(op)]())
        if isinstance(a, str) or isinstance(b, str) or a is None or b is None:
            if isinstance(op, ast.Eq):
                return a == b
            if isinstance(op, ast.NotEq):
                return a != b
            raise Unmodelled("ordering of non-numeric values")
        a, b = _s(a), _s(b)
        if a.is_number and b.is_number:
            table = {ast.Eq: a == b, ast.NotEq: a != b, ast.Lt: a < b, ast.LtE: a <= b, ast.Gt: a > b, ast.GtE: a >= b}
            return bool(table[type(op)])
        rel = {ast.Eq: sp.Eq, ast.NotEq: sp.Ne, ast.Lt: sp.Lt, ast.LtE: sp.Le, ast.Gt: sp.Gt, ast.GtE: sp.Ge}[type(op)](a, b)
        if rel is sp.true:
            return True
        if rel is sp.false:
            return False
        return rel


def _boolish(v):
    """a truth value or an array of truth values (sympy relationals / booleans)"""
    from sympy.logic.boolalg import Boolean
    if isinstance(v, np.ndarray):
        return v.dtype == object and all(isinstance(x, (bool, Boolean)) for x in v.reshape(-1))  # an empty mask is a mask
    return isinstance(v, (bool, Boolean))


def _is_generator(fnode):
    """does the function body (not nested defs / lambdas) contain a yield?"""
    stack = list(getattr(fnode, "body", []))
    while stack:
        n = stack.pop()
        if isinstance(n, (ast.Yield, ast.YieldFrom)):
            return True
        if isinstance(n, (ast.FunctionDef, ast.AsyncFunctionDef, ast.Lambda, ast.ClassDef)):
            continue
        stack.extend(ast.iter_child_nodes(n))
    return False


class PySet(list):
    """python-level set of hashable keys, kept in insertion order so that interpretation is deterministic
    (order-sensitivity of set iteration is the business of the E4 rule, not of this interpreter)"""

    def __init__(self, items=()):
        super().__init__()
        for x in items:
            self.add(x)

    def add(self, x):
        k = _pykey(x)
        if k not in self:
            self.append(k)

    def discard(self, x):
        k = _pykey(x)
        if k in self:
            list.remove(self, k)


class TensorList(list):
    """a 1-d tensor modelled as the python list of its elements: .shape is (len,), slices stay tensors"""

    def __getitem__(self, k):
        r = list.__getitem__(self, k)
        return TensorList(r) if isinstance(k, slice) else r


class PyIter(list):
    """an iterator over a python-level sequence: next() consumes from the front"""


class SuperObj:
    def __init__(self, self_obj, cls):
        self.self_obj, self.cls = self_obj, cls


class Raised(Exception):
    """the interpreted path executes a `raise` (only when the hook "allow_raise" is set)"""


class SelfObj:
    """a symbolic `self`: attributes come from a table of bindings, methods from the class"""

    def __init__(self, cls, attrs=None):
        self.cls = cls
        self.attrs = dict(attrs or {})

    def get(self, name, tr, depth):
        if name in self.attrs:
            return self.attrs[name]
        if name == "__dict__":
            return self.attrs  # the instance dictionary is the table of bindings
        if self.cls is None:
            raise Unmodelled("attribute %s of a class-less probe object (bound: %s)" % (name, sorted(self.attrs)))
        m = self.cls.lookup(name)
        if m is not None:
            if m.is_property():
                return tr.call_fn(m, self_obj=self, depth=depth + 1)
            return BoundMethod(m, self)
        for c in self.cls.mro:
            if name in c.class_attrs:
                return tr.eval(c.class_attrs[name], {}, c.mod, depth)
        raise Unmodelled("self.%s is not bound in the symbolic object of %s" % (name, self.cls.key))


def _s(x):
    if is_sym(x):
        return x
    if isinstance(x, bool):
        raise Unmodelled("boolean used as number")
    if isinstance(x, (int, float, complex)):
        return num(x)
    raise Unmodelled("non-numeric value %r in arithmetic" % (x,))


def _pyplain(x):
    """a python-level value whose comparisons are Python's own: strings, ints and (nested) tuples / lists of them"""
    if isinstance(x, (str, int)) and not isinstance(x, bool):
        return True
    if isinstance(x, (tuple, list)):
        return all(_pyplain(y) for y in x)
    return False


_OBJECT_SYMBOLS = set()


def _pykey(x):
    if is_sym(x):
        if x in _OBJECT_SYMBOLS:
            return x
        if x.is_Integer:
            return int(x)
        if x.is_number:
            return float(x)
        raise Unmodelled("symbolic key")
    if isinstance(x, float) and x == int(x):
        return int(x)
    return x


def _pyint(x):
    if x is None:
        return None
    if is_sym(x):
        if x.is_Integer:
            return int(x)
        raise Unmodelled("symbolic index")
    return int(x)


def _as_load(t):
    import copy

    t2 = copy.deepcopy(t)
    for x in ast.walk(t2):
        if hasattr(x, "ctx"):
            x.ctx = ast.Load()
    return t2


def default_where_policy(cond, tr):
    """decide `expr > eps`-style guards under the stated domain assumption that every
    symbol declared positive is bounded away from zero (\"above threshold\")."""
    if isinstance(cond, (sp.StrictGreaterThan, sp.GreaterThan)):
        a, b = cond.lhs, cond.rhs
        if b.is_number and abs(float(b)) <= 1e-9 and a.is_positive:
            tr.assumed.append("%s (positive quantity above the numerical guard)" % cond)
            return True
        if b.is_number and abs(float(b)) <= 1e-9 and a.is_negative:
            return False
    if isinstance(cond, (sp.StrictLessThan, sp.LessThan)):
        a, b = cond.lhs, cond.rhs
        if a.is_number and abs(float(a)) <= 1e-9 and b.is_positive:
            tr.assumed.append("%s" % cond)
            return True
        if b.is_number and abs(float(b)) <= 1e-9 and a.is_positive:
            tr.assumed.append("not (%s)" % cond)
            return False
    return None


# ------------------------------------------------------------------ algebra
def canon(e):
    """canonical rational form; radicands are brought to cancelled num/den form"""
    e = sp.sympify(e)

    def fix_pow(x):
        if x.is_Pow and x.exp.is_Rational and not x.exp.is_Integer:
            base = sp.cancel(sp.together(x.base))
            return sp.Pow(base, x.exp)
        return x

    e = e.replace(lambda x: x.is_Pow and x.exp.is_Rational and not x.exp.is_Integer, fix_pow)
    return e


def canon_squares(e):
    """second-stage normalisation: sqrt(C * f1^2k * g) -> f1^k * sqrt(C * g) for every factor f1 of the radicand whose
    sign is decided positive / non-negative from the symbols' assumptions (sum of positive terms after expansion)"""
    e = sp.sympify(e)

    def fix(x):
        if not (x.is_Pow and x.exp.is_Rational and x.exp.q == 2):
            return x
        base = sp.cancel(sp.together(x.base))
        if len(str(base)) > 4000:
            return x
        num, den = sp.fraction(base)
        out, rest = sp.Integer(1), sp.Integer(1)
        for part, sgn in ((num, 1), (den, -1)):
            try:
                c, facs = sp.factor_list(part)
            except Exception:
                return x
            rest *= c ** sgn
            for f, k in facs:
                fe = sp.expand(f)
                if k >= 2 and (fe.is_positive or fe.is_nonnegative):
                    out *= f ** (sgn * (k // 2) * x.exp.p)
                    if k % 2:
                        rest *= f ** sgn
                else:
                    rest *= f ** (sgn * k)
        if out == 1:
            return x
        return out * sp.Pow(rest, x.exp)

    return e.replace(lambda x: x.is_Pow and x.exp.is_Rational and x.exp.q == 2, fix)


def equal(a, b, seed=0, symbols_domain=None, _stage=0):
    """(verdict, detail): verdict True (identity proved), False (numeric witness of difference),
    None (normaliser too weak: equal at all probe points but identity not established)."""
    a, b = canon(a), canon(b)
    if _stage == 1:
        a, b = canon_squares(a), canon_squares(b)
    diff = sp.together(sp.expand_complex(a - b) if (a - b).has(sp.I) and not (a - b).has(sp.re, sp.im, sp.conjugate) else a - b)
    try:
        nume = sp.expand(sp.numer(diff))
    except Exception:
        nume = sp.numer(diff)
    if nume == 0:
        return True, "identity"
    nume2 = sp.expand(sp.numer(sp.together(canon(sp.expand(a - b)))))
    if nume2 == 0:
        return True, "identity"
    s = sp.simplify(nume2) if len(str(nume2)) < 400 else nume2
    if s == 0:
        return True, "identity (simplify)"
    # classify the failure numerically on the translated expressions only
    import random

    rnd = random.Random(1234 + seed)
    # opaque function applications are treated as independent atoms for the classification
    from sympy.core.function import AppliedUndef

    atoms = sorted((a.atoms(AppliedUndef) | b.atoms(AppliedUndef)), key=str)
    if atoms:
        rep = {at: sp.Symbol("atom%d__" % i, positive=True) for i, at in enumerate(atoms)}
        a, b = a.xreplace(rep), b.xreplace(rep)
    syms = sorted(a.free_symbols | b.free_symbols, key=lambda x: x.name)
    worst = None
    for _ in range(6):
        pt = {}
        for x in syms:
            dom = (symbols_domain or {}).get(x.name)
            if dom is None:
                lo, hi = sp.Rational(1, 2), sp.Rational(3)
                val = lo + (hi - lo) * sp.Rational(rnd.randint(1, 997), 1000)
                if not x.is_positive and rnd.random() < 0.5:
                    val = -val  # symbols not declared positive are probed on both signs
            else:
                lo, hi = dom
                val = lo + (hi - lo) * sp.Rational(rnd.randint(1, 997), 1000)
            pt[x] = val
        try:
            va = sp.N(a.subs(pt), 50)
            vb = sp.N(b.subs(pt), 50)
        except Exception as e:
            return None, "cannot evaluate at probe point: %s" % e
        if va.has(sp.nan, sp.zoo, sp.oo) or vb.has(sp.nan, sp.zoo, sp.oo):
            if va.has(sp.nan, sp.zoo, sp.oo) != vb.has(sp.nan, sp.zoo, sp.oo):
                return False, "one side is not finite at %s: %s vs %s" % ({str(k): str(v) for k, v in pt.items()}, va, vb)
            continue
        d = abs(va - vb)
        scale = max(abs(va), abs(vb), 1)
        if d > scale * sp.Float("1e-30"):
            return False, "differs at %s: %s vs %s" % ({str(k): str(v) for k, v in pt.items()}, sp.N(va, 12), sp.N(vb, 12))
    if _stage == 0 and (a.has(sp.Pow) or b.has(sp.Pow)):
        r = equal(a, b, seed, symbols_domain, _stage=1)  # perfect-square radicands
        if r[0] is True:
            return r
    return None, "equal at 6 probe points but the identity was not established symbolically"
