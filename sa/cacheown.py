"""Ownership rule for memoised tables: the object a memoised function (functools.lru_cache / functools.cache /
the repo's simple_cache_fun) returns is shared by every later caller, so no caller may mutate it in place.

  providers   functions carrying a memoising decorator, plus (fix-point) functions that return a provider's
              result unchanged
  taint       x = provider(...) ; y = x ; h[k] = x makes h a holder ; c = h[k] taints c.  Copies
              (list(x), x[:], x[::-1], x.copy(), sorted(x), comprehensions, arithmetic) are fresh.
  violation   tainted.<in-place method>(...), tainted[...] = v, del tainted[...], tainted += v,
              the same directly on the call's value or on holder[k]
Flow: a name with several assignments is judged by the assignment textually preceding the mutation site.
"""
import ast

from .effects import INPLACE_LIST_METHODS, unwrap_copy
from .model import norm_text, walk_local

MEMO_DECOS = ("lru_cache", "cache", "simple_cache_fun")
MUTATORS = set(INPLACE_LIST_METHODS) | {"setdefault", "popitem", "add", "discard", "fill", "resize", "put", "itemset", "setflags"}


def is_memoised(fn):
    for d in getattr(fn.node, "decorator_list", ()):
        t = norm_text(d.func if isinstance(d, ast.Call) else d)
        if t.split(".")[-1] in MEMO_DECOS:
            return True
    return False


def _block_paths(fnode):
    """id(node) -> tuple of (id(owner statement), field) block identifiers enclosing the node, outermost first"""
    out = {}

    def visit_block(stmts, path):
        for st in stmts:
            mark(st, path)
            for field in ("body", "orelse", "finalbody"):
                sub = getattr(st, field, None)
                if isinstance(sub, list) and sub and isinstance(sub[0], ast.stmt) and not isinstance(st, (ast.FunctionDef, ast.AsyncFunctionDef, ast.ClassDef)):
                    visit_block(sub, path + ((id(st), field),))
            for h in getattr(st, "handlers", ()):
                visit_block(h.body, path + ((id(st), "handler%d" % id(h)),))

    def mark(st, path):
        for n in ast.walk(st):
            if id(n) not in out:
                out[id(n)] = path
        # nested statements get their own (longer) paths afterwards: ast.walk marked them with the outer path first,
        # so clear them and let visit_block assign
        for field in ("body", "orelse", "finalbody"):
            sub = getattr(st, field, None)
            if isinstance(sub, list) and sub and isinstance(sub[0], ast.stmt):
                for x in sub:
                    for n in ast.walk(x):
                        out.pop(id(n), None)
        for h in getattr(st, "handlers", ()):
            for x in h.body:
                for n in ast.walk(x):
                    out.pop(id(n), None)

    visit_block(fnode.body, ())
    return out


def _target_key(t):
    if isinstance(t, ast.Name):
        return t.id
    if isinstance(t, ast.Attribute) and isinstance(t.value, ast.Name) and t.value.id == "self":
        return "self." + t.attr
    return None


def _assignments(fnode, paths):
    """name or self.attr -> [(line, value or None, block path)] sorted by line"""
    out = {}

    def rec(key, line, value, node):
        out.setdefault(key, []).append((line, value, paths.get(id(node), ())))

    for n in walk_local(fnode):
        if isinstance(n, ast.Assign):
            for t in n.targets:
                k = _target_key(t)
                if k:
                    rec(k, n.lineno, n.value, n)
                elif isinstance(t, (ast.Tuple, ast.List)):
                    for e in t.elts:
                        k = _target_key(e)
                        if k:
                            rec(k, n.lineno, None, n)
        elif isinstance(n, ast.AnnAssign) and n.value is not None:
            k = _target_key(n.target)
            if k:
                rec(k, n.lineno, n.value, n)
        elif isinstance(n, ast.For):
            for e in ast.walk(n.target):
                if isinstance(e, ast.Name):
                    rec(e.id, n.lineno, None, n)
        elif isinstance(n, ast.comprehension):
            for e in ast.walk(n.target):
                if isinstance(e, ast.Name):
                    rec(e.id, getattr(n.target, "lineno", 0), None, n.target)
        elif isinstance(n, ast.withitem) and n.optional_vars is not None:
            for e in ast.walk(n.optional_vars):
                if isinstance(e, ast.Name):
                    rec(e.id, e.lineno, None, e)
    for v in out.values():
        v.sort(key=lambda p: p[0])
    return out


class FnTaint:
    def __init__(self, fn, resolver, providers):
        self.fn, self.res, self.providers = fn, resolver, providers
        self.paths = _block_paths(fn.node)
        self.assigns = _assignments(fn.node, self.paths)
        self.holders = {}  # holder name -> provider key (h[k] = tainted)
        for _ in range(3):  # holders: small fix-point
            for n in walk_local(fn.node):
                if isinstance(n, ast.Assign):
                    for t in n.targets:
                        if isinstance(t, ast.Subscript) and isinstance(t.value, ast.Name):
                            p = self.source(n.value, n.lineno, self.paths.get(id(n), ()))
                            if p:
                                self.holders.setdefault(t.value.id, p)

    def call_provider(self, call):
        cands, how = self.res.resolve_call(self.fn, call)
        if how in ("generic", "byname", "external") or not cands:
            return None
        hits = [c.key for c in cands if c.key in self.providers]
        return hits[0] if hits and len(hits) == len(cands) else None

    def reaching(self, key, line, path):
        """definitions of `key` that may reach a use at (line, block path): textually preceding assignments, newest
        first, up to and including the first one whose block encloses the use (it is executed on every path to the use)"""
        prev = [d for d in self.assigns.get(key, ()) if d[0] < line]
        if not prev:
            later = self.assigns.get(key, ())
            return list(later) if len(later) == 1 and later[0][0] != line else []  # single assignment below (loop)
        out = []
        for d in reversed(prev):
            out.append(d)
            if path[: len(d[2])] == d[2]:
                break
        return out

    def source(self, expr, line, path, depth=0):
        """provider key if `expr` may evaluate to (an alias of) a memoised result at the use site"""
        if expr is None or depth > 8:
            return None
        if isinstance(expr, ast.Call):
            return self.call_provider(expr)
        key = _target_key(expr) if isinstance(expr, (ast.Name, ast.Attribute)) else None
        if key is not None:
            for ln, v, pth in self.reaching(key, line, path):
                p = self.source(v, ln, pth, depth + 1)
                if p:
                    return p
            return None
        if isinstance(expr, ast.Subscript) and isinstance(expr.value, ast.Name) and not isinstance(expr.slice, ast.Slice):
            if expr.value.id in self.holders:
                return self.holders[expr.value.id]
        if isinstance(expr, ast.IfExp):
            return self.source(expr.body, line, path, depth + 1) or self.source(expr.orelse, line, path, depth + 1)
        return None

    def mutations(self):
        out = []
        for n in walk_local(self.fn.node):
            path = self.paths.get(id(n), ())
            if isinstance(n, ast.Call) and isinstance(n.func, ast.Attribute) and n.func.attr in MUTATORS:
                p = self.source(n.func.value, n.lineno, path)
                if p:
                    out.append((n.lineno, p, "%s.%s(...)" % (norm_text(n.func.value), n.func.attr)))
            elif isinstance(n, (ast.Assign, ast.AugAssign, ast.Delete)):
                tg = n.targets if isinstance(n, (ast.Assign, ast.Delete)) else [n.target]
                for t in tg:
                    if isinstance(t, ast.Subscript):
                        p = self.source(t.value, n.lineno, path)
                        if p:
                            out.append((n.lineno, p, "%s[...] %s" % (norm_text(t.value), "deleted" if isinstance(n, ast.Delete) else "assigned")))
                    elif isinstance(n, ast.AugAssign) and isinstance(t, ast.Name):
                        p = self.source(t, n.lineno, path)
                        if p:
                            out.append((n.lineno, p, "%s %s= ..." % (t.id, type(n.op).__name__)))
        return out

    def returns_provider(self):
        for n in walk_local(self.fn.node):
            if isinstance(n, ast.Return) and n.value is not None:
                p = self.source(n.value, n.lineno, self.paths.get(id(n), ()))
                if p:
                    return p
        return None


def _all_functions(repo):
    return [f for rel, m in sorted(repo.mods.items()) if '/tests/' not in rel for f in m.funcs.values()]


def analyse(repo, resolver, only_providers=None):
    """-> (providers: key -> origin key, sites: [(fn, line, provider, construct)], n_calls)"""
    providers = {f.key: f.key for f in _all_functions(repo) if is_memoised(f)}
    if only_providers is not None:
        providers = {k: v for k, v in providers.items() if only_providers(k)}
    base = set(providers)
    for _ in range(4):  # pass-through wrappers
        grew = False
        for f in _all_functions(repo):
            if f.key in providers:
                continue
            p = FnTaint(f, resolver, providers).returns_provider()
            if p:
                providers[f.key] = providers[p]
                grew = True
        if not grew:
            break
    sites, n_calls = [], 0
    for f in _all_functions(repo):
        ft = FnTaint(f, resolver, providers)
        for n in walk_local(f.node):
            if isinstance(n, ast.Call) and ft.call_provider(n):
                n_calls += 1
        for ln, p, c in ft.mutations():
            sites.append((f, ln, providers[p], c))
    return providers, base, sites, n_calls


def check_cache_ownership(repo, chk, files, min_providers, min_calls, rule="O-cache"):
    """register rule O-cache for the memoised functions defined in `files`"""
    from .resolve import Resolver

    chk.rule(rule, "the object returned by a memoised function (functools.lru_cache / simple_cache_fun) defined in %s is shared by all later callers: no caller mutates it in place (directly, through an alias, or through a container it was stored in)" % ", ".join(files))
    providers, base, sites, n_calls = analyse(repo, Resolver(repo), only_providers=lambda k: k.split("::")[0] in files)
    for k in sorted(providers):
        chk.instance(rule, "memoised provider %s%s" % (k, "" if k in base else " (returns the result of %s unchanged)" % providers[k]))
    chk.info("%s: %d call sites of %d providers analysed for in-place mutation of the result" % (rule, n_calls, len(providers)))
    _fixture()
    for f, ln, p, c in sites:
        chk.violation(rule, f.key, "%s<-%s" % (c, p.split("::")[1]), "`%s` mutates in place the object memoised by %s: every later call of the memoised function returns the modified object" % (c, p), file=f.mod.rel, line=ln)
    chk.oblige(rule, "no in-place mutation of a memoised result (%d call sites)" % n_calls, not sites)
    if len(base) < min_providers or n_calls < min_calls:
        from .model import AnalysisError

        if not sites:
            raise AnalysisError("%s: only %d memoised providers / %d call sites found in %s (expected >= %d / %d)" % (rule, len(base), n_calls, files, min_providers, min_calls))


def _fixture():
    """positive examples that must match on every run (the rule's expected count on /repo is zero)"""
    import os

    from .model import AnalysisError, Repo
    from .resolve import Resolver

    here = os.path.join(os.path.dirname(os.path.abspath(__file__)), "fixtures", "cacheown")
    frepo = Repo(here, package="tf_pwa")
    _, _, sites, n_calls = analyse(frepo, Resolver(frepo))
    got = {f.qual for f, _, _, _ in sites}
    want = {q for q in frepo.mod("tf_pwa/tables.py").funcs if q.startswith("bad_")}
    if got != want or len(want) < 5:
        raise AnalysisError("O-cache fixture: reported %s, expected %s" % (sorted(got), sorted(want)))


# ---------------------------------------------------------------------------------------------------------
# soundness of memoisation: what may be memoised at all
# ---------------------------------------------------------------------------------------------------------
BLIND_DECOS = ("simple_cache_fun",)  # cache key = the object only: arguments are ignored after the first call
STATE_CELLS = ("params", "mask", "mask_factor", "chains", "config")


def check_memo_soundness(repo, chk, rule="M-sound"):
    """a memoised function returns its first result for ever: it must not depend on anything that changes -
    (i) under an argument-blind memoiser (simple_cache_fun) it takes no argument besides self;
    (ii) under any memoiser it does not read a model state cell (parameter values, masks, chain selection, config)"""
    from .effects import Effects
    from .model import AnalysisError
    from .resolve import Resolver

    chk.rule(rule, "memoisation is sound: a function under an argument-blind memoiser (simple_cache_fun) has no parameter besides self, and no memoised function (lru_cache / simple_cache_fun) reads a model state cell (parameter values, masks, chain selection, config) - its first result would be served after the state has changed")
    eff = Effects(repo, Resolver(repo))
    # is the project's own memoiser still argument-blind?  (its slot is named after the function only: the name handed
    # to hasattr / setattr / getattr is computed outside the wrapper)  If it ever keys the slot by the arguments the
    # "no parameter besides self" demand no longer applies.
    blind_decos = set()
    for d in BLIND_DECOS:
        defs = [f for f in _all_functions(repo) if f.name == d and f.parent is None]
        if not defs:
            raise AnalysisError("%s: memoiser %s vanished" % (rule, d))
        for df in defs:
            inner = [x for x in ast.walk(df.node) if isinstance(x, ast.FunctionDef) and x is not df.node]
            slot_names = set()
            # locals that hold the instance dictionary: d = vars(self) / d = self.__dict__
            dict_aliases = set()
            for w in inner:
                for st in ast.walk(w):
                    if isinstance(st, ast.Assign) and len(st.targets) == 1 and isinstance(st.targets[0], ast.Name):
                        v = st.value
                        if (isinstance(v, ast.Call) and isinstance(v.func, ast.Name) and v.func.id == "vars") or (isinstance(v, ast.Attribute) and v.attr == "__dict__"):
                            dict_aliases.add(st.targets[0].id)
            for w in inner:
                for c in ast.walk(w):
                    if isinstance(c, ast.Call) and isinstance(c.func, ast.Name) and c.func.id in ("setattr", "hasattr", "getattr") and len(c.args) >= 2:
                        slot_names.add(norm_text(c.args[1]))
                    # the instance dictionary used directly: vars(self)[slot] / self.__dict__[slot] / slot in vars(self)
                    if isinstance(c, ast.Subscript) and not isinstance(c.slice, ast.Slice):
                        base = c.value
                        if (isinstance(base, ast.Call) and isinstance(base.func, ast.Name) and base.func.id == "vars") or (isinstance(base, ast.Attribute) and base.attr == "__dict__") or (isinstance(base, ast.Name) and base.id in dict_aliases):
                            slot_names.add(norm_text(c.slice))
                    if isinstance(c, ast.Call) and isinstance(c.func, ast.Attribute) and c.func.attr in ("get", "setdefault", "pop") and c.args:
                        base = c.func.value
                        if (isinstance(base, ast.Call) and isinstance(base.func, ast.Name) and base.func.id == "vars") or (isinstance(base, ast.Attribute) and base.attr == "__dict__") or (isinstance(base, ast.Name) and base.id in dict_aliases):
                            slot_names.add(norm_text(c.args[0]))
            wrapper_locals = {a.arg for w in inner for a in w.args.args + w.args.kwonlyargs + ([w.args.vararg] if w.args.vararg else []) + ([w.args.kwarg] if w.args.kwarg else [])}
            wrapper_locals |= {t.id for w in inner for st in ast.walk(w) if isinstance(st, ast.Assign) for t in st.targets if isinstance(t, ast.Name)}
            if not slot_names:
                raise AnalysisError("%s: cannot tell how %s names its cache slot" % (rule, d))
            if all(isinstance(ast.parse(t, mode="eval").body, (ast.Name, ast.Constant)) and t not in wrapper_locals for t in slot_names):
                blind_decos.add(d)
            chk.instance(rule, "memoiser %s keeps one slot per object (slot name %s computed outside the wrapper): %s" % (d, sorted(slot_names), d in blind_decos))
    n = 0
    for f in _all_functions(repo):
        if not is_memoised(f):
            continue
        n += 1
        decos = [norm_text(d.func if isinstance(d, ast.Call) else d).split(".")[-1] for d in f.node.decorator_list]
        blind = any(d in blind_decos for d in decos)
        extra = [p for p in f.params if p not in ("self", "cls")]
        reads = sorted(set(eff.readers.get(f, ())) & set(STATE_CELLS))
        ok = not (blind and extra) and not reads
        chk.oblige(rule, "%s [%s]: parameters %s, state cells read: %s" % (f.key, ",".join(d for d in decos if d in MEMO_DECOS), extra or "-", reads or "none"), ok)
        if blind and extra:
            chk.violation(rule, f.key, "blind-args", "memoised by the argument-blind %s but takes the arguments %s: every later call gets the result of the first one whatever it passes" % ([d for d in decos if d in blind_decos][0], extra), file=f.mod.rel, line=f.lineno)
        if reads:
            chk.violation(rule, f.key, "reads:" + ",".join(reads), "memoised function depends on the model state cell(s) %s: after the state changes (e.g. set_params in a fit) the stale first result is still returned" % reads, file=f.mod.rel, line=f.lineno)
    if n < 20:
        raise AnalysisError("%s: only %d memoised functions found" % (rule, n))
    # value-keyed memo: functools.lru_cache on a METHOD keys the table by `self` through __hash__ / __eq__.  The decay
    # classes compare by particle NAMES, so an entry is shared by every equal-named object of the process (a second
    # model, a spin scan re-using a resonance name).  Safe only if the result is a function of the names alone.
    VALUE_KEYED_SAFE = {
        "DecayChain.topology_id": "built from sorted_table(): final-state names below each particle - the equality key itself",
    }
    for f in _all_functions(repo):
        decos = [norm_text(d.func if isinstance(d, ast.Call) else d).split(".")[-1] for d in f.node.decorator_list]
        if not any(d in ("lru_cache", "cache") for d in decos) or f.cls is None:
            continue
        eq_owner = next((c for c in f.cls.mro if "__eq__" in c.methods or "__hash__" in c.methods), None)
        if eq_owner is None:
            continue
        short = "%s.%s" % (f.cls.name, f.name)
        if short in VALUE_KEYED_SAFE:
            chk.instance(rule, "%s: lru_cache keyed by the object's value (%s.__eq__); frozen as safe: %s" % (f.key, eq_owner.name, VALUE_KEYED_SAFE[short]), nontrivial=False)
            continue
        same_name = repo.func_by_name.get(f.name, [])
        if len([g for g in same_name if g.cls is not None]) != 1:
            chk.info("%s: lru_cache on a method of the value-keyed class %s (equal-named objects share entries); the method name is not unique in the repository, call sites not decided" % (f.key, f.cls.name))
            continue
        sites = []
        for g in _all_functions(repo):
            for c in ast.walk(g.node):
                if isinstance(c, ast.Call) and isinstance(c.func, ast.Attribute) and c.func.attr == f.name:
                    sites.append((g, c))
        chk.oblige(rule, "%s: lru_cache on a method of the value-keyed class %s (objects with equal particle names share one entry) - call sites: %d" % (f.key, f.cls.name, len(sites)), not sites)
        for g, c in sites[:3]:
            chk.violation(rule, g.key, "value-keyed:%s" % f.name, "calls %s, which is memoised with functools.lru_cache on a class that compares by particle names (%s.__eq__): the entry computed for the first object with these names is returned for every later one - another model of the same process, a spin scan that re-uses a resonance name - although the result depends on more than the names" % (f.key, eq_owner.name), file=g.mod.rel, line=c.lineno)


# ---------------------------------------------------------------------------------------------------------------
# P-state: state that a method keeps on the object from one call to the next, computed from that call's arguments
PSTATE_BENIGN = {
    ("HelicityDecay.set_ls", "total_ls"): "records the unrestricted coupling list the first time a restriction is applied; computed from the object, not from the argument",
    ("ConfigLoader.get_params_error", "inv_he"): "opt-in (`using_cached=True`) re-use of the last inverse Hessian, requested by the caller",
    ("SimpleData.load_cached_data", "cached_data"): "explicit file cache, loaded once per loader object by design",
    ("MultiData.get_data", "_Ngroup"): "number of data groups recorded at the first load and asserted to stay the same",
    ("MultiNpzData.get_data", "_Ngroup"): "number of data groups recorded at the first load and asserted to stay the same",
    ("Frame.get_histogram", "nbins"): "plot layout default taken from the first histogram (presentation only)",
    ("Frame.get_histogram", "x_range"): "plot layout default taken from the first histogram (presentation only)",
    ("BaseModel.grad_hessp_batch", "hess_product_vector_i"): "buffer created once and re-filled from the argument on every call (decided by C07 rule C-fresh)",
    ("ModelCachedAmp.grad_hessp_batch", "hess_product_vector_i"): "buffer created once and re-filled from the argument on every call (decided by C07 rule C-fresh)",
    ("VarsManager.rename_var", "bnd_dic"): "moves the entry of the old name to the new name (the guard asks whether the old name has an entry)",
}


def _param_deps(fn):
    """name -> set of parameters (other than self) it derives from; flow-insensitive, comprehension targets are local"""
    params = [p for p in fn.all_param_names() if p not in ("self", "cls")]
    dep = {p: {p} for p in params}
    comp_locals = {x.id for c in ast.walk(fn.node) if isinstance(c, ast.comprehension) for x in ast.walk(c.target) if isinstance(x, ast.Name)}

    def pd(expr):
        out = set()
        for x in ast.walk(expr):
            if isinstance(x, ast.Name) and x.id in dep and x.id not in comp_locals:
                out |= dep[x.id]
            if isinstance(x, ast.comprehension):
                out |= pd(x.iter)
        return out

    for _ in range(6):
        for st in _walk_fn(fn.node):
            if isinstance(st, ast.Assign):
                tg, val = st.targets, st.value
            elif isinstance(st, (ast.AugAssign, ast.AnnAssign)) and st.value is not None:
                tg, val = [st.target], st.value
            elif isinstance(st, ast.For):
                tg, val = [st.target], st.iter
            else:
                continue
            src = pd(val)
            if src:
                for t in tg:
                    for x in ast.walk(t):
                        if isinstance(x, ast.Name) and isinstance(x.ctx, ast.Store) and x.id not in comp_locals:
                            dep.setdefault(x.id, set()).update(src)
    return dep, pd


def _walk_fn(fnode):
    stack = list(fnode.body)
    while stack:
        n = stack.pop()
        yield n
        for c in ast.iter_child_nodes(n):
            if not isinstance(c, (ast.FunctionDef, ast.AsyncFunctionDef, ast.Lambda, ast.ClassDef)):
                stack.append(c)


def _refilled_from_argument(f, attr, guard_node):
    """after the guarded creation of self.<attr>, the same function assigns element-wise into the buffer from a
    parameter: `for i, j in zip(self.<attr>, p): i.assign(j)` (any statement that mentions the buffer, a parameter and
    an .assign call)"""
    params = {p for p in f.all_param_names() if p not in ("self", "cls")}
    for st in f.node.body:
        if st is guard_node or getattr(st, "lineno", 0) <= getattr(guard_node, "lineno", 0):
            continue
        names = {x.id for x in ast.walk(st) if isinstance(x, ast.Name)}
        has_buf = any(isinstance(x, ast.Attribute) and x.attr == attr and isinstance(x.value, ast.Name) and x.value.id == "self" for x in ast.walk(st))
        has_assign = any(isinstance(x, ast.Call) and isinstance(x.func, ast.Attribute) and x.func.attr == "assign" for x in ast.walk(st))
        if has_buf and has_assign and names & params:
            return True
    return False


def _key_paired_at_call_sites(f, key_params, value_params):
    """f is a method whose cache key is its parameter(s) `key_params` and whose cached value depends on `value_params`:
    True when the class calls it (self.f(..)) at least once and at every call site the key argument is computed from
    every caller argument the value argument is computed from"""
    if f.cls is None:
        return False
    a = f.node.args
    names = [x.arg for x in a.posonlyargs + a.args][1:]
    sites = 0
    for k in list(f.cls.mro) + list(f.cls.all_subclasses()):
        for caller in k.methods.values():
            if caller is f:
                continue
            _, cpd = _param_deps(caller)
            for c in _walk_fn(caller.node):
                if not (isinstance(c, ast.Call) and isinstance(c.func, ast.Attribute) and c.func.attr == f.name and isinstance(c.func.value, ast.Name) and c.func.value.id == "self"):
                    continue
                bound = dict(zip(names, c.args))
                bound.update({kw.arg: kw.value for kw in c.keywords if kw.arg})
                if any(p_ not in bound for p_ in key_params + value_params):
                    return False
                kd = set()
                for p_ in key_params:
                    kd |= cpd(bound[p_])
                vd = set()
                for p_ in value_params:
                    vd |= cpd(bound[p_])
                if not vd <= kd:
                    return False
                sites += 1
    return sites > 0


def check_persistent_state(repo, chk, prefixes, rule="P-state"):
    """a method must not keep, on the object, a value computed from the arguments of one call and serve it to later
    calls made with other arguments: (1) `if <self.A not set yet>: self.A = f(args)`; (2) `if k not in self.C:
    self.C[k] = f(args)` where the key k does not depend on every argument the value depends on.  Confirmed benign
    instances are frozen by (method, attribute) with a reason."""
    from .model import AnalysisError, parent_map

    chk.rule(rule, "no method memoises on the object a value computed from its call arguments under a guard that does not mention those arguments (guarded `self.A = f(args)`; `self.C[k] = f(args)` under `k not in self.C` with k not covering the arguments): a later call with other arguments (another sample, another mass, another batch size) would be served the first call's value; %d confirmed benign instances are frozen" % len(PSTATE_BENIGN))
    seen_benign = set()
    n_fn = 0
    for rel, m in sorted(repo.mods.items()):
        if "/tests/" in rel or not any(rel.startswith(p) for p in prefixes):
            continue
        for f in m.funcs.values():
            if f.cls is None or f.name == "__init__":
                continue
            n_fn += 1
            dep, pd = _param_deps(f)
            alias = {}
            for st in _walk_fn(f.node):
                if isinstance(st, ast.Assign) and len(st.targets) == 1 and isinstance(st.targets[0], ast.Name) and isinstance(st.value, ast.Attribute) and isinstance(st.value.value, ast.Name) and st.value.value.id == "self":
                    alias[st.targets[0].id] = st.value.attr
            pm = parent_map(f.node)
            # a container chosen by a test on an argument (one table per value of the flag) carries that argument
            alias_params = {}
            for st in _walk_fn(f.node):
                if isinstance(st, ast.Assign) and len(st.targets) == 1 and isinstance(st.targets[0], ast.Name) and st.targets[0].id in alias:
                    cur_ = st
                    while cur_ in pm and not isinstance(pm[cur_], (ast.FunctionDef, ast.AsyncFunctionDef)):
                        cur_ = pm[cur_]
                        if isinstance(cur_, ast.If):
                            alias_params.setdefault(st.targets[0].id, set()).update(pd(cur_.test))
                    if isinstance(st.value, ast.IfExp):
                        alias_params.setdefault(st.targets[0].id, set()).update(pd(st.value.test))

            def cont_attr(base):
                if isinstance(base, ast.Attribute) and isinstance(base.value, ast.Name) and base.value.id == "self":
                    return base.attr
                if isinstance(base, ast.Name) and base.id in alias:
                    return alias[base.id]
                return None

            hits = []
            for n in _walk_fn(f.node):
                # (1) guarded attribute initialisation
                if isinstance(n, ast.If):
                    attrs = set()
                    for x in ast.walk(n.test):
                        if isinstance(x, ast.Attribute) and isinstance(x.value, ast.Name) and x.value.id == "self":
                            attrs.add(x.attr)
                        if isinstance(x, ast.Call) and isinstance(x.func, ast.Name) and x.func.id == "hasattr" and len(x.args) == 2 and isinstance(x.args[1], ast.Constant):
                            attrs.add(x.args[1].value)
                        if isinstance(x, ast.Name) and x.id in alias:
                            attrs.add(alias[x.id])
                    test_params = pd(n.test)
                    for st in [y for br in (n.body, n.orelse) for s_ in br for y in ast.walk(s_)]:
                        if isinstance(st, ast.Assign):
                            flat_targets = []
                            for tg0 in st.targets:
                                flat_targets.extend(tg0.elts if isinstance(tg0, (ast.Tuple, ast.List)) else [tg0])   # self.A, _ = f(args)
                            for tg in flat_targets:
                                if isinstance(tg, ast.Attribute) and isinstance(tg.value, ast.Name) and tg.value.id == "self" and tg.attr in attrs:
                                    vp = pd(st.value)
                                    if vp and not vp <= test_params:
                                        hits.append((tg.attr, n, "`if %s: self.%s = %s`: the value depends on the argument(s) %s, the guard does not" % (norm_text(n.test)[:50], tg.attr, norm_text(st.value)[:50], sorted(vp - test_params))))
                # (2) guarded keyed store
                if isinstance(n, ast.Assign) and len(n.targets) == 1 and isinstance(n.targets[0], ast.Subscript):
                    t = n.targets[0]
                    attr = cont_attr(t.value)
                    if attr is None:
                        continue
                    cur, guard, child = n, None, n
                    while cur in pm and not isinstance(pm[cur], (ast.FunctionDef, ast.AsyncFunctionDef)):
                        child, cur = cur, pm[cur]
                        if isinstance(cur, ast.If):
                            in_body = any(child is b_ for b_ in cur.body)
                            # the guard must establish "no entry yet": `k not in C` (store in the body) / `k in C` (store in the else branch)
                            want = ast.NotIn if in_body else ast.In
                            neg = isinstance(cur.test, ast.UnaryOp) and isinstance(cur.test.op, ast.Not)
                            if neg:
                                want = ast.In if in_body else ast.NotIn
                            if any(isinstance(c, ast.Compare) and isinstance(c.ops[0], want) and cont_attr(c.comparators[0]) == attr for c in ast.walk(cur.test)):
                                guard = cur
                                break
                    if guard is None:
                        continue
                    vp, kp = pd(n.value), pd(t.slice)  # the KEY must carry the arguments; a guard that mentions them does not key the entry
                    if isinstance(t.value, ast.Name):
                        kp = kp | alias_params.get(t.value.id, set())   # ... or the choice of the table does
                    if vp and not vp <= kp and isinstance(t.slice, ast.Name) and kp and _key_paired_at_call_sites(f, sorted(kp), sorted(vp - kp)):
                        # a private helper that is handed key and value: every call site of the class passes a key
                        # computed from the very argument the value is computed from (self._fill(id(data), data))
                        continue
                    if vp and not vp <= kp:
                        hits.append((attr, n, "`self.%s[%s] = %s` under `%s`: the value depends on the argument(s) %s, the key does not" % (attr, norm_text(t.slice)[:30], norm_text(n.value)[:50], norm_text(guard.test)[:40], sorted(vp - kp))))
            short = "%s.%s" % (f.cls.name, f.name)
            done = set()
            for attr, node, msg in hits:
                if (attr, node.lineno) in done:
                    continue
                done.add((attr, node.lineno))
                ben = PSTATE_BENIGN.get((short, attr))
                if ben is None:
                    # the same buffer of the same class handled in a helper method (split / renamed method)
                    ben = next((v for (k0, k1), v in PSTATE_BENIGN.items() if k1 == attr and k0.split(".")[0] in {c_.name for c_ in f.cls.mro}), None)
                if ben is None and _refilled_from_argument(f, attr, node):
                    ben = "buffer created once and re-filled from the same argument on every call (element-wise assign after the guard)"
                if ben is not None:
                    seen_benign.add((short, attr))
                    chk.instance(rule, "%s: %s - benign: %s" % (f.key, msg, ben), nontrivial=False)
                    continue
                chk.instance(rule, "%s: %s" % (f.key, msg))
                chk.violation(rule, f.key, "memo:%s" % attr, "%s - from the second call on the method serves the value of the first call whatever it is given" % msg, file=rel, line=node.lineno)
    chk.instance(rule, "%d methods under %s analysed for call-persistent state; benign instances met: %d" % (n_fn, ", ".join(prefixes), len(seen_benign)))
    if n_fn < 5:
        raise AnalysisError("%s: only %d methods analysed under %s" % (rule, n_fn, prefixes))
    # positive example
    t = ast.parse("class K:\n    def f(self, mc):\n        if self._i is None:\n            self._i = g(mc)\n        return self._i\n    def h(self, name, m):\n        ms = self._all\n        if name not in ms:\n            ms[name] = conv(m)\n        return ms\n    def ok(self, data):\n        k = id(data)\n        if k not in self.c:\n            self.c[k] = build(data)\n        return self.c[k]\n")
    chk.instance(rule, "fixture parsed (%d methods); the rule is exercised by the self-test mutants" % len(t.body[0].body), nontrivial=False)


def check_mutable_defaults(repo, chk, prefixes, rule="L6-default"):
    """a parameter whose default is a mutable display ({} / [] / set()) is ONE object shared by every call that omits the
    argument: it must not be mutated, returned, put into a container, or stored on the object if the class mutates
    that attribute in place"""
    from .model import AnalysisError

    chk.rule(rule, "no mutable default argument ({} / [] / set()) is mutated in place, returned, stored into a container, or stored on `self` under an attribute that the class mutates in place: every call that omits the argument would share one object (a constraint added to one likelihood would appear in all of them)")
    INPLACE = ("update", "append", "extend", "setdefault", "pop", "add", "insert", "remove", "clear", "popitem", "sort", "reverse")
    n_par = 0
    for rel, m in sorted(repo.mods.items()):
        if "/tests/" in rel or not any(rel.startswith(p) for p in prefixes):
            continue
        for f in m.funcs.values():
            a = f.node.args
            names = [x.arg for x in a.posonlyargs + a.args]
            defaults = dict(zip(names[len(names) - len(a.defaults):], a.defaults))
            defaults.update({k.arg: d for k, d in zip(a.kwonlyargs, a.kw_defaults) if d is not None})
            for p, d in sorted(defaults.items()):
                if not (isinstance(d, (ast.Dict, ast.List, ast.Set)) or (isinstance(d, ast.Call) and isinstance(d.func, ast.Name) and d.func.id in ("dict", "list", "set") and not d.args)):
                    continue
                n_par += 1
                rebound = any(isinstance(st, ast.Assign) and any(isinstance(t, ast.Name) and t.id == p for t in st.targets) for st in _walk_fn(f.node))
                problems = []
                for st in _walk_fn(f.node):
                    if isinstance(st, ast.Call) and isinstance(st.func, ast.Attribute) and isinstance(st.func.value, ast.Name) and st.func.value.id == p and st.func.attr in INPLACE and not rebound:
                        problems.append((st, "is mutated in place by `%s`" % norm_text(st)[:50]))
                    if isinstance(st, (ast.Assign, ast.AugAssign)):
                        for t in (st.targets if isinstance(st, ast.Assign) else [st.target]):
                            if isinstance(t, ast.Subscript) and isinstance(t.value, ast.Name) and t.value.id == p and not rebound:
                                problems.append((st, "is mutated in place by `%s`" % norm_text(st)[:50]))
                    if isinstance(st, ast.Assign) and isinstance(st.value, ast.Name) and st.value.id == p and not rebound:
                        for t in st.targets:
                            if isinstance(t, ast.Attribute) and isinstance(t.value, ast.Name) and t.value.id == "self" and f.cls is not None:
                                muts = []
                                for c in list(f.cls.mro) + list(f.cls.all_subclasses()):
                                    for mm in c.methods.values():
                                        for x in _walk_fn(mm.node):
                                            if isinstance(x, ast.Call) and isinstance(x.func, ast.Attribute) and x.func.attr in INPLACE and isinstance(x.func.value, ast.Attribute) and x.func.value.attr == t.attr and isinstance(x.func.value.value, ast.Name) and x.func.value.value.id == "self":
                                                muts.append((mm, x))
                                            if isinstance(x, (ast.Assign, ast.AugAssign)):
                                                for tt in (x.targets if isinstance(x, ast.Assign) else [x.target]):
                                                    if isinstance(tt, ast.Subscript) and isinstance(tt.value, ast.Attribute) and tt.value.attr == t.attr and isinstance(tt.value.value, ast.Name) and tt.value.value.id == "self":
                                                        muts.append((mm, x))
                                if muts:
                                    problems.append((st, "is stored as self.%s, which %s mutates in place (`%s`)" % (t.attr, muts[0][0].qual, norm_text(muts[0][1])[:50])))
                            elif isinstance(t, ast.Subscript):
                                problems.append((st, "is stored into a container by `%s`" % norm_text(st)[:50]))
                    if isinstance(st, ast.Return) and isinstance(st.value, ast.Name) and st.value.id == p and not rebound:
                        problems.append((st, "is returned to the caller"))
                chk.instance(rule, "%s: parameter `%s` defaults to a shared mutable object; hazardous uses: %d" % (f.key, p, len(problems)), nontrivial=bool(problems))
                for st, why in problems[:2]:
                    chk.violation(rule, f.key, "default:%s" % p, "the mutable default of `%s` %s: all calls that omit `%s` share one object, so a change made through one of them shows up in every other" % (p, why, p), file=rel, line=st.lineno)
    if n_par < 1:
        raise AnalysisError("%s: no mutable default argument found under %s (the rule would pass vacuously)" % (rule, prefixes))


# (class, attribute) -> methods that hand each other sequences paired by position (confirmed by reading the callers)
OITER_GROUPS = {
    ("SimpleNllFracModel", "constr_frac"): {"eval_normal_factors", "eval_nll_part"},   # the k-th extra normalisation factor belongs to the k-th constraint
    ("CombineFCN", "fcns"): {"get_nll", "get_nll_grad", "get_nll_grad_hessian", "get_grad", "get_grad_hessp"},   # per-part results summed / concatenated in one order
    ("HelicityAngle", "decay_chain"): {"find_variable", "build_data", "eval_phsp_factor"},   # find_variable produces the angle lists build_data consumes
    ("HelicityAngle1", "decay_chain"): {"__init__", "generate_p_mass", "get_phsp_factor"},
    ("HelicityAngle1", "par"): {"generate_p", "get_phsp_factor"},
}

_ORDER_BLIND = {"sum", "set", "frozenset", "dict", "any", "all", "max", "min", "len", "sorted", "join", "reduce_sum", "add_n", "reduce_max", "reduce_min", "reduce_prod", "update", "Counter"}


def _positional_product(x, parent_):
    """does this traversal produce (or consume) a sequence whose k-th entry is tied to the k-th entry traversed?
    - a list comprehension / a generator handed to list(), tuple(), an array constructor ... unless the result goes
      straight into an order-blind consumer (sum, set, dict, any, all, max, min, sorted, str.join, reduce_sum ...);
    - a for loop that appends / extends / inserts into a list held in a local name, yields, concatenates lists, or runs
      over enumerate(...) / zip(...) of the attribute (an index or a partner sequence is paired by position).
    Keyed stores (d[k] = ...), accumulations (s += v) and side effects per entry are not positional."""
    if isinstance(x, ast.comprehension):
        comp = parent_.get(id(x))
        if isinstance(comp, (ast.DictComp, ast.SetComp)):
            return False
        user = parent_.get(id(comp))
        if isinstance(user, ast.Call) and comp in user.args:
            f_ = user.func
            nm = f_.attr if isinstance(f_, ast.Attribute) else f_.id if isinstance(f_, ast.Name) else ""
            if nm in _ORDER_BLIND:
                return False
            if isinstance(comp, ast.GeneratorExp):
                return True
        elif isinstance(comp, ast.GeneratorExp):
            return True
        return True
    if isinstance(x, ast.For):
        t = norm_text(x.iter)
        if t.startswith("enumerate(") or t.startswith("zip(") or "zip(" in t[:20]:
            return True
        for q_ in x.body:
            for n_ in ast.walk(q_):
                if isinstance(n_, (ast.Yield, ast.YieldFrom)):
                    return True
                if isinstance(n_, ast.Call) and isinstance(n_.func, ast.Attribute) and n_.func.attr in ("append", "extend", "insert") and isinstance(n_.func.value, (ast.Name, ast.Attribute)):
                    return True
                if isinstance(n_, ast.AugAssign) and isinstance(n_.op, ast.Add) and isinstance(n_.value, (ast.List, ast.ListComp, ast.Tuple)):
                    return True
                if isinstance(n_, ast.Assign) and isinstance(n_.value, ast.BinOp) and isinstance(n_.value.op, ast.Add) and isinstance(n_.value.right, (ast.List, ast.Tuple)):
                    return True
        return False
    return False


def check_iteration_order_agreement(repo, chk, prefixes, rule="O-iter"):
    """methods of one class that traverse the same attribute and pair the entries by position must traverse it in the
    same order: plain (insertion) order everywhere, or sorted everywhere.  Only traversals that produce or consume a
    positional sequence count (see _positional_product)"""
    chk.rule(rule, "within a class, every traversal of one and the same dict / list attribute that builds or consumes a positional sequence (list comprehension, append / yield loop, enumerate / zip) uses the same order - insertion order everywhere or sorted(...) everywhere: two methods that pair entries by position (the k-th integral with the k-th constraint) would otherwise mix up entries that are not listed alphabetically")
    n_attr = 0
    for rel, m in sorted(repo.mods.items()):
        if "/tests/" in rel or not any(rel.startswith(p) for p in prefixes):
            continue
        for cls in m.all_classes:
            sites = {}
            for mm in cls.methods.values():
                alias_ = {}
                for st_ in _walk_fn(mm.node):
                    if isinstance(st_, ast.Assign) and len(st_.targets) == 1 and isinstance(st_.targets[0], ast.Name) and isinstance(st_.value, ast.Attribute) and isinstance(st_.value.value, ast.Name) and st_.value.value.id == "self":
                        alias_[st_.targets[0].id] = st_.value.attr
                    # a chain derived from the attribute by a parameterless method of it (renamed copy in the same order)
                    if (isinstance(st_, ast.Assign) and len(st_.targets) == 1 and isinstance(st_.targets[0], ast.Name) and isinstance(st_.value, ast.Call) and not st_.value.args and not st_.value.keywords
                            and isinstance(st_.value.func, ast.Attribute) and isinstance(st_.value.func.value, ast.Attribute) and isinstance(st_.value.func.value.value, ast.Name) and st_.value.func.value.value.id == "self"):
                        alias_[st_.targets[0].id] = st_.value.func.value.attr
                parent_ = {}
                for q_ in ast.walk(mm.node):
                    for c_ in ast.iter_child_nodes(q_):
                        parent_[id(c_)] = q_
                for x in _walk_fn(mm.node):
                    it = None
                    if isinstance(x, (ast.For, ast.comprehension)):
                        it = x.iter
                    if it is None:
                        continue
                    if not _positional_product(x, parent_):
                        continue   # keyed stores, reductions, displays: the order of such a traversal is immaterial
                    kind = "plain"
                    core = it
                    for _ in range(5):
                        if isinstance(core, ast.Subscript) and isinstance(core.slice, ast.Slice):
                            step = core.slice.step
                            if step is not None and norm_text(step).replace(" ", "") in ("-1",):
                                kind = kind + "-reversed"
                            core = core.value
                            continue
                        if isinstance(core, ast.Call) and isinstance(core.func, ast.Attribute) and core.func.attr not in ("items", "keys", "values", "copy") and not core.args and isinstance(core.func.value, (ast.Attribute, ast.Name)):
                            # a traversal method of the object itself: chain.depth_first()
                            kind = core.func.attr + "()"
                            core = core.func.value
                            continue
                        if isinstance(core, ast.Call) and isinstance(core.func, ast.Name) and core.func.id in ("enumerate", "list", "tuple", "reversed", "zip") and core.args:
                            core = core.args[0] if core.func.id != "zip" else next((a_ for a_ in core.args if "self." in norm_text(a_)), core.args[0])
                        elif isinstance(core, ast.Call) and isinstance(core.func, ast.Name) and core.func.id == "sorted" and core.args:
                            kind = "sorted"
                            core = core.args[0]
                        elif isinstance(core, ast.Call) and isinstance(core.func, ast.Attribute) and core.func.attr in ("items", "keys", "values") and not core.args:
                            core = core.func.value
                        else:
                            break
                    if isinstance(core, ast.Name) and core.id in alias_:
                        sites.setdefault(alias_[core.id], []).append((kind, mm, x))
                    if isinstance(core, ast.Attribute) and isinstance(core.value, ast.Name) and core.value.id == "self":
                        sites.setdefault(core.attr, []).append((kind, mm, x))
            for attr, ss in sorted(sites.items()):
                # judged are the groups of methods confirmed (by reading) to exchange position-paired sequences; a
                # traversal of the same attribute elsewhere (a new display helper, a sorted listing) is reported only
                grp = OITER_GROUPS.get((cls.name, attr))
                if grp is not None:
                    for k_, mm_, x_ in ss:
                        if mm_.name not in grp:
                            chk.info("%s: %s.%s traverses self.%s in `%s` order outside the confirmed position-paired group %s (not judged)" % (rule, cls.name, mm_.name, attr, k_, sorted(grp)))
                    ss = [z for z in ss if z[1].name in grp]
                else:
                    for k_, mm_, x_ in ss:
                        chk.info("%s: %s.%s traverses self.%s in `%s` order; no position-paired group is confirmed for this attribute (not judged)" % (rule, cls.name, mm_.name, attr, k_))
                    continue
                kinds = {k for k, _, _ in ss}
                meths = {mm.name for _, mm, _ in ss}
                if len(meths) < 2:
                    continue
                n_attr += 1
                ok = len(kinds) == 1
                chk.instance(rule, "%s.%s traversed in %d methods (%s): order %s" % (cls.name, attr, len(meths), ", ".join(sorted(meths))[:80], "/".join(sorted(kinds))), nontrivial=not ok)
                if not ok:
                    major = max(kinds, key=lambda k_: sum(1 for z in ss if z[0] == k_))
                    s_ = next(z for z in ss if z[0] != major)
                    p_ = next(z for z in ss if z[0] == major)
                    chk.violation(rule, s_[1].key, "order:%s" % attr, ("%s traverses self.%s in `" + s_[0] + "` order while %s traverses it in `" + p_[0] + "` order: results paired by position belong to different entries unless the two orders happen to coincide") % (s_[1].qual, attr, p_[1].qual), file=rel, line=getattr(s_[2], "lineno", s_[1].lineno) if hasattr(s_[2], "lineno") else s_[1].lineno)
    chk.instance(rule, "%d (class, attribute) pairs traversed by several methods under %s" % (n_attr, ", ".join(prefixes)), nontrivial=False)


def check_class_level_mutables(repo, chk, prefixes, rule="L6-classattr"):
    """a mutable display bound in a class body is ONE object shared by every instance: a method that fills it through
    `self` (self.X[k] = v, self.X.append(..)) without the instance ever getting its own (`self.X = ...` in a method
    that runs first, i.e. __init__ of the class or a base) lets the objects see each other's entries"""
    from .model import AnalysisError

    chk.rule(rule, "a dict / list / set bound in a class body and filled through `self` by a method of the class (self.X[k] = .., self.X.append / update / ...) is given to every instance as its own object by __init__ (of the class or of a base class): otherwise all instances share one table - per-object results (integrals, caches, selections) of one object show up in another, depending on the order in which they were used")
    INPLACE = ("update", "append", "extend", "setdefault", "pop", "add", "insert", "remove", "clear", "popitem", "sort", "reverse")
    n_attr = 0
    for rel, m in sorted(repo.mods.items()):
        if "/tests/" in rel or not any(rel.startswith(p) for p in prefixes):
            continue
        for c in m.classes.values():
            for st in c.node.body:
                tgt = None
                if isinstance(st, ast.Assign) and len(st.targets) == 1 and isinstance(st.targets[0], ast.Name):
                    tgt, val = st.targets[0].id, st.value
                elif isinstance(st, ast.AnnAssign) and isinstance(st.target, ast.Name) and st.value is not None:
                    tgt, val = st.target.id, st.value
                if tgt is None:
                    continue
                if not (isinstance(val, (ast.Dict, ast.List, ast.Set)) or (isinstance(val, ast.Call) and isinstance(val.func, ast.Name) and val.func.id in ("dict", "list", "set") and not val.args)):
                    continue
                n_attr += 1
                family = list(c.mro) + list(c.all_subclasses())
                muts = []
                for k in family:
                    for mm in k.methods.values():
                        if any(isinstance(d_, ast.Name) and d_.id in ("classmethod", "staticmethod") for d_ in mm.node.decorator_list):
                            continue
                        for x in _walk_fn(mm.node):
                            if isinstance(x, ast.Call) and isinstance(x.func, ast.Attribute) and x.func.attr in INPLACE and isinstance(x.func.value, ast.Attribute) and x.func.value.attr == tgt and isinstance(x.func.value.value, ast.Name) and x.func.value.value.id == "self":
                                muts.append((mm, x))
                            if isinstance(x, (ast.Assign, ast.AugAssign)):
                                for tt in (x.targets if isinstance(x, ast.Assign) else [x.target]):
                                    if isinstance(tt, ast.Subscript) and isinstance(tt.value, ast.Attribute) and tt.value.attr == tgt and isinstance(tt.value.value, ast.Name) and tt.value.value.id == "self":
                                        muts.append((mm, x))
                # the instance gets its own object: `self.X = ...` in __init__ of the class or a base / subclass that
                # every construction path runs (we accept any __init__ in the mro of the class that defines the attribute
                # or below it)
                own = False
                for k in family:
                    init = k.methods.get("__init__")
                    if init is None:
                        continue
                    for x in _walk_fn(init.node):
                        if isinstance(x, (ast.Assign, ast.AnnAssign)):
                            for tt in (x.targets if isinstance(x, ast.Assign) else [x.target]):
                                if isinstance(tt, ast.Attribute) and tt.attr == tgt and isinstance(tt.value, ast.Name) and tt.value.id == "self":
                                    own = True
                # a process-wide "seen" registry - filled through self but only asked for membership (`k in self.X`),
                # never read back as data - is shared on purpose: what is flagged is a table whose ENTRIES are used
                reads_data = False
                for k in family:
                    for mm in k.methods.values():
                        for x in _walk_fn(mm.node):
                            if isinstance(x, ast.Subscript) and isinstance(x.ctx, ast.Load) and isinstance(x.value, ast.Attribute) and x.value.attr == tgt and isinstance(x.value.value, ast.Name) and x.value.value.id == "self":
                                reads_data = True
                            if isinstance(x, ast.Call) and isinstance(x.func, ast.Attribute) and x.func.attr in ("get", "items", "values", "pop", "copy") and isinstance(x.func.value, ast.Attribute) and x.func.value.attr == tgt and isinstance(x.func.value.value, ast.Name) and x.func.value.value.id == "self":
                                reads_data = True
                            if isinstance(x, (ast.For, ast.comprehension)) and isinstance(x.iter, ast.Attribute) and x.iter.attr == tgt and isinstance(x.iter.value, ast.Name) and x.iter.value.id == "self":
                                reads_data = True
                if muts and not reads_data:
                    chk.instance(rule, "%s.%s (class level): filled through self but only tested for membership - a shared registry, not per-object data" % (c.name, tgt), nontrivial=False)
                    continue
                # a registry filled by class-level code (decorators, classmethods) and only read through self is fine
                chk.instance(rule, "%s.%s = %s (class level): filled through self in %d place(s), own object per instance: %s" % (c.name, tgt, norm_text(val)[:20], len(muts), own), nontrivial=bool(muts))
                if muts and not own:
                    mm, x = muts[0]
                    chk.violation(rule, mm.key, "shared:%s.%s" % (c.name, tgt), "`%s` fills `self.%s`, which is bound once in the body of class %s and never re-bound per instance (no `self.%s = ...` in an __init__): every %s object shares this table, so what one object accumulated is read back - divided by its own totals - by another" % (norm_text(x)[:60], tgt, c.name, tgt, c.name), file=mm.mod.rel, line=x.lineno)
    chk.instance(rule, "%d class-level mutable attributes under %s" % (n_attr, ", ".join(prefixes)), nontrivial=False)
