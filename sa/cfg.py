"""E2 - statement-level control-flow graph with exceptional edges.

Nodes are simple statements, compound-statement headers (if/while tests, for
headers, with enter/exit) and the synthetic ENTRY / EXIT (normal return) /
RAISE (exception leaves the function) nodes.  `finally` bodies (and with-exits)
are duplicated per continuation (normal / exception / return / break /
continue), the textbook construction, so that a path through the graph is a
real control path.

Edge kinds:
  'n'    normal fall-through / branch
  'exc'  an exception raised while executing the source node
  'gen'  GeneratorExit / thrown exception delivered at a `yield` in the source
         node (generators only)
"""
import ast

from .model import AnalysisError, walk_stmt

ENTRY, EXIT, RAISE = "ENTRY", "EXIT", "RAISE"


class Node:
    __slots__ = ("id", "kind", "ast", "label", "with_node", "exit_kind")

    def __init__(self, id, kind, astn=None, label=""):
        self.id = id
        self.kind = kind  # stmt | test | for | with_enter | with_exit | ENTRY | EXIT | RAISE | handler | join
        self.ast = astn
        self.label = label
        self.with_node = None
        self.exit_kind = None

    @property
    def lineno(self):
        return getattr(self.ast, "lineno", None)

    def __repr__(self):
        return "<%s %s L%s>" % (self.kind, self.label, self.lineno)


def may_raise(expr_or_stmt):
    for n in walk_stmt(expr_or_stmt):
        if isinstance(n, (ast.Call, ast.Raise, ast.Assert, ast.Await, ast.Delete)):
            return True
        if isinstance(n, ast.Subscript) and isinstance(n.ctx, ast.Load):
            return True
    return False


def has_yield(node):
    for n in walk_stmt(node):
        if isinstance(n, (ast.Yield, ast.YieldFrom)):
            return True
    return False


class Ctx:
    __slots__ = ("exc", "ret", "brk", "cont")

    def __init__(self, exc, ret, brk=None, cont=None):
        self.exc = exc  # callable kind -> node id   (lazy, for finally duplication)
        self.ret = ret
        self.brk = brk
        self.cont = cont


class CFG:
    def __init__(self, fnode):
        self.fnode = fnode
        self.nodes = []
        self.succ = {}
        self.entry = self._new(ENTRY).id
        self.exit = self._new(EXIT).id
        self.raise_exit = self._new(RAISE).id
        ctx = Ctx(lambda: self.raise_exit, lambda: self.exit)
        first = self._seq(fnode.body, lambda: self.exit, ctx)
        self._edge(self.entry, first, "n")

    # ------------------------------------------------------------- primitives
    def _new(self, kind, astn=None, label=""):
        n = Node(len(self.nodes), kind, astn, label)
        self.nodes.append(n)
        self.succ[n.id] = []
        return n

    def _edge(self, a, b, kind):
        if (b, kind) not in self.succ[a]:
            self.succ[a].append((b, kind))

    def _exc_edges(self, nid, astn, ctx, extra_nodes=None):
        probe = [astn] if extra_nodes is None else extra_nodes
        if any(may_raise(p) for p in probe):
            self._edge(nid, ctx.exc(), "exc")
        if any(has_yield(p) for p in probe):
            self._edge(nid, ctx.exc(), "gen")

    # --------------------------------------------------------------- building
    def _seq(self, stmts, nxt, ctx):
        """entry node id for executing stmts then continuing at nxt() (lazy)."""
        if not stmts:
            return nxt()
        head, rest = stmts[0], stmts[1:]
        memo = {}

        def after():
            if "v" not in memo:
                memo["v"] = self._seq(rest, nxt, ctx)
            return memo["v"]

        return self._stmt(head, after, ctx)

    def _stmt(self, st, nxt, ctx):
        if isinstance(st, (ast.FunctionDef, ast.AsyncFunctionDef, ast.ClassDef)):
            n = self._new("stmt", st, "def " + st.name)
            self._edge(n.id, nxt(), "n")
            return n.id
        if isinstance(st, ast.Return):
            n = self._new("stmt", st, "return")
            self._exc_edges(n.id, st, ctx)
            self._edge(n.id, ctx.ret(), "n")
            return n.id
        if isinstance(st, ast.Raise):
            n = self._new("stmt", st, "raise")
            self._edge(n.id, ctx.exc(), "exc")
            return n.id
        if isinstance(st, ast.Break):
            n = self._new("stmt", st, "break")
            if ctx.brk is None:
                raise AnalysisError("break outside loop")
            self._edge(n.id, ctx.brk(), "n")
            return n.id
        if isinstance(st, ast.Continue):
            n = self._new("stmt", st, "continue")
            self._edge(n.id, ctx.cont(), "n")
            return n.id
        if isinstance(st, ast.If):
            n = self._new("test", st, "if")
            self._exc_edges(n.id, st.test, ctx)
            self._edge(n.id, self._seq(st.body, nxt, ctx), "t")  # test true
            self._edge(n.id, self._seq(st.orelse, nxt, ctx), "f")  # test false
            return n.id
        if isinstance(st, (ast.For, ast.AsyncFor)):
            n = self._new("for", st, "for")
            # iterating a plain name / attribute cannot raise in this model; an iterable
            # produced by a call (generator, zip(...), method) can
            self._exc_edges(n.id, st.iter, ctx, [st.iter, st.target])
            lctx = Ctx(ctx.exc, ctx.ret, nxt, lambda: n.id)
            self._edge(n.id, self._seq(st.body, lambda: n.id, lctx), "n")
            self._edge(n.id, self._seq(st.orelse, nxt, ctx), "n")
            return n.id
        if isinstance(st, ast.While):
            n = self._new("test", st, "while")
            self._exc_edges(n.id, st.test, ctx)
            lctx = Ctx(ctx.exc, ctx.ret, nxt, lambda: n.id)
            self._edge(n.id, self._seq(st.body, lambda: n.id, lctx), "t")
            is_true = isinstance(st.test, ast.Constant) and bool(st.test.value)
            if not is_true:
                self._edge(n.id, self._seq(st.orelse, nxt, ctx), "f")
            return n.id
        if isinstance(st, (ast.With, ast.AsyncWith)):
            return self._with(st, nxt, ctx)
        if isinstance(st, ast.Try) or st.__class__.__name__ == "TryStar":
            return self._try(st, nxt, ctx)
        if st.__class__.__name__ == "Match":
            n = self._new("test", st, "match")
            self._exc_edges(n.id, st.subject, ctx)
            for case in st.cases:
                self._edge(n.id, self._seq(case.body, nxt, ctx), "n")
            self._edge(n.id, nxt(), "n")
            return n.id
        # simple statement
        n = self._new("stmt", st, st.__class__.__name__)
        self._exc_edges(n.id, st, ctx)
        self._edge(n.id, nxt(), "n")
        return n.id

    def _with(self, st, nxt, ctx):
        enter = self._new("with_enter", st, "with")
        enter.with_node = st
        items = [i.context_expr for i in st.items]
        self._edge(enter.id, ctx.exc(), "exc")  # __enter__ may raise
        memo = {}

        def exit_to(kind, target):
            def f():
                if kind not in memo:
                    x = self._new("with_exit", st, "with-exit/" + kind)
                    x.with_node = st
                    x.exit_kind = kind
                    self._edge(x.id, target(), "n")
                    if kind == "normal":
                        # __exit__ may raise as well
                        self._edge(x.id, ctx.exc(), "exc")
                    memo[kind] = x.id
                return memo[kind]

            return f

        ictx = Ctx(
            exit_to("exc", ctx.exc),
            exit_to("ret", ctx.ret),
            exit_to("brk", ctx.brk) if ctx.brk else None,
            exit_to("cont", ctx.cont) if ctx.cont else None,
        )
        body = self._seq(st.body, exit_to("normal", nxt), ictx)
        self._edge(enter.id, body, "n")
        return enter.id

    def _try(self, st, nxt, ctx):
        fin = st.finalbody
        memo = {}

        def through_finally(kind, target):
            if not fin:
                return target

            def f():
                if kind not in memo:
                    memo[kind] = self._seq(fin, target, ctx)
                return memo[kind]

            return f

        after = through_finally("normal", nxt)
        o_exc = through_finally("exc", ctx.exc)
        o_ret = through_finally("ret", ctx.ret)
        o_brk = through_finally("brk", ctx.brk) if ctx.brk else None
        o_cont = through_finally("cont", ctx.cont) if ctx.cont else None
        # context inside handlers / else: exceptions go through finally to outer
        hctx = Ctx(o_exc, o_ret, o_brk, o_cont)
        if st.handlers:
            dmemo = {}

            def dispatch():
                if "d" not in dmemo:
                    d = self._new("handler", st, "except-dispatch")
                    dmemo["d"] = d.id
                    catch_all = False
                    for h in st.handlers:
                        hn = self._new("handler", h, "except")
                        self._edge(d.id, hn.id, "n")
                        self._edge(hn.id, self._seq(h.body, after, hctx), "n")
                        if h.type is None:
                            catch_all = True
                        else:
                            names = []
                            t = h.type
                            for e in t.elts if isinstance(t, ast.Tuple) else [t]:
                                if isinstance(e, ast.Name):
                                    names.append(e.id)
                            if "BaseException" in names:
                                catch_all = True
                    if not catch_all:
                        self._edge(d.id, o_exc(), "exc")
                return dmemo["d"]

            bctx = Ctx(dispatch, o_ret, o_brk, o_cont)
        else:
            bctx = hctx
        if st.orelse:
            body_next_memo = {}

            def body_next():
                if "v" not in body_next_memo:
                    body_next_memo["v"] = self._seq(st.orelse, after, hctx)
                return body_next_memo["v"]

        else:
            body_next = after
        return self._seq(st.body, body_next, bctx)

    # ---------------------------------------------------------------- queries
    def reachable(self):
        seen = {self.entry}
        stack = [self.entry]
        while stack:
            a = stack.pop()
            for b, _ in self.succ[a]:
                if b not in seen:
                    seen.add(b)
                    stack.append(b)
        return seen

    def preds(self):
        p = {n.id: [] for n in self.nodes}
        for a, outs in self.succ.items():
            for b, k in outs:
                p[b].append((a, k))
        return p


def forward(cfg, init, transfer, join=None):
    """Generic forward may-analysis over sets of abstract states.

    transfer(node, state, edge_kind) -> iterable of successor states for that edge.
    States must be hashable.  Returns {node id: set of states at node entry} and
    a predecessor witness map for path reconstruction.
    """
    at = {n.id: set() for n in cfg.nodes}
    wit = {}
    at[cfg.entry].add(init)
    work = [(cfg.entry, init)]
    while work:
        nid, s = work.pop()
        node = cfg.nodes[nid]
        for b, kind in cfg.succ[nid]:
            for s2 in transfer(node, s, kind):
                if s2 not in at[b]:
                    at[b].add(s2)
                    wit[(b, s2)] = (nid, s, kind)
                    work.append((b, s2))
    return at, wit


def witness_path(cfg, wit, nid, state, limit=60):
    path = []
    cur = (nid, state)
    seen = set()
    while cur in wit and cur not in seen and len(path) < limit:
        seen.add(cur)
        p, s, k = wit[cur]
        n = cfg.nodes[p]
        path.append("%s%s@L%s" % (n.label, "" if k in ("n", "t", "f") else "[" + k + "]", n.lineno))
        cur = (p, s)
    return list(reversed(path))
