"""X-restore: a context manager that changes state for the duration of a block puts it back on EVERY exit of the block.

A `@contextmanager` generator is resumed after its `yield` only when the block ends normally; when the block raises (or a
generator that uses it is closed early) the exception is thrown in at the `yield`, and statements that merely follow
it are skipped.  Rule, per generator function decorated with contextlib.contextmanager under the given prefixes:
  - statements that run after the `yield` on the normal path (the rest of the yield's block and of every enclosing
    block up to the function body) and undo a change made before the yield - a store to an attribute / item that the
    manager stored to before the yield, or a statement call of the same callee (set_config ... set_config) - are the
    clean-up; a store that publishes a result of the block (self.tape = tape) is not;
  - clean-up must sit in the `finally` clause of a `try` whose body holds the `yield`, or be delegated to a nested
    `with <other context manager>:` around the `yield` (that manager's own exit runs on every path), or be done twice:
    in an `except BaseException:` / bare `except:` handler that re-raises and again after the try (`except Exception`
    does not count: GeneratorExit and KeyboardInterrupt pass it).
Not clean-up: rebinding a local name, logging / print calls, `return`."""
import ast

from .model import AnalysisError, norm_text

QUIET_CALLS = {"print", "debug", "info", "warning", "warn", "error", "log"}


def _is_ctxmanager(fn_node):
    for d in fn_node.decorator_list:
        t = norm_text(d)
        if t.split(".")[-1] == "contextmanager":
            return True
    return False


def _yield_path(body, path):
    """path of (block, index) pairs from the function body down to the statement that holds the first yield"""
    for i, st in enumerate(body):
        if isinstance(st, (ast.FunctionDef, ast.AsyncFunctionDef, ast.ClassDef)):
            continue
        has = any(isinstance(x, (ast.Yield, ast.YieldFrom)) for x in ast.walk(st))
        if not has:
            continue
        here = path + [(body, i, st)]
        for field in ("body", "orelse", "finalbody"):
            sub = getattr(st, field, None)
            if isinstance(sub, list) and any(isinstance(x, (ast.Yield, ast.YieldFrom)) for s_ in sub for x in ast.walk(s_)):
                return _yield_path(sub, here + [(field,)])
        for h in getattr(st, "handlers", []) or []:
            if any(isinstance(x, (ast.Yield, ast.YieldFrom)) for s_ in h.body for x in ast.walk(s_)):
                return _yield_path(h.body, here + [("handler",)])
        return here
    return path


def _stores_and_calls(st):
    """(texts of attribute / item store targets, texts of callees of expression-statement calls) of a statement"""
    stores, calls = set(), set()
    for n in ast.walk(st):
        if isinstance(n, (ast.Assign, ast.AugAssign, ast.AnnAssign)):
            ts = n.targets if isinstance(n, ast.Assign) else [n.target]
            for t in ts:
                for x in ast.walk(t):
                    if isinstance(x, (ast.Attribute, ast.Subscript)) and isinstance(x.ctx, ast.Store):
                        stores.add(norm_text(x))
        if isinstance(n, ast.Delete):
            for t in n.targets:
                if isinstance(t, (ast.Attribute, ast.Subscript)):
                    stores.add(norm_text(t))
        if isinstance(n, ast.Expr) and isinstance(n.value, ast.Call):
            c = n.value
            last = c.func.attr if isinstance(c.func, ast.Attribute) else (c.func.id if isinstance(c.func, ast.Name) else "")
            if last not in QUIET_CALLS:
                calls.add(norm_text(c.func))
    return stores, calls


def _effect(st, changed):
    """the statement undoes a change the manager made before its yield: it stores to a target the manager stored to, or
    calls (as a statement) the callee the manager called to make the change (set_config(...) ... set_config(...))"""
    stores, calls = _stores_and_calls(st)
    hit = (stores & changed[0]) | (calls & changed[1])
    return norm_text(st)[:70] if hit else None


def check_ctx_restore(repo, chk, prefixes, rule="X-restore", min_functions=1):
    chk.rule(rule, "in every @contextmanager generator, the statements that undo the manager's change (a store to an attribute / item the manager stored to before its yield, or a statement call of the callee it made the change with) run on every exit of the block: they sit in the `finally` of a try around the `yield`, or the yield sits inside a nested `with` whose own exit does the work - a clean-up that merely follows the yield is skipped when the block raises or a generator using the manager is closed early, and the temporary state (mask, parameters, chain selection, configuration) stays in force")
    n_fn = 0
    for rel, m in sorted(repo.mods.items()):
        if "/tests/" in rel or not any(rel.startswith(p) for p in prefixes):
            continue
        for f in m.funcs.values():
            if not _is_ctxmanager(f.node):
                continue
            path = _yield_path(f.node.body, [])
            if not path:
                continue
            n_fn += 1
            ylineno = min(x.lineno for x in ast.walk(f.node) if isinstance(x, (ast.Yield, ast.YieldFrom)))
            pre_s, pre_c = set(), set()
            for st0 in ast.walk(f.node):
                if isinstance(st0, ast.stmt) and st0 is not f.node and getattr(st0, "end_lineno", 0) < ylineno:
                    s_, c_ = _stores_and_calls(st0)
                    pre_s |= s_
                    pre_c |= c_
            bound = (pre_s, pre_c)
            bad = []
            protected = 0
            # walk the path from the innermost block outwards
            items = [p for p in path if len(p) == 3]
            fields = [p[0] for p in path if len(p) == 1]
            for depth in range(len(items) - 1, -1, -1):
                block, i, st = items[depth]
                inside_finally_of = None
                # the statements after position i in this block run only on the normal path ...
                # a `try: yield / except BaseException: <clean-up>; raise` (or a bare `except:`) does on the exception
                # exits what the statements after the try do on the normal one: together they cover every exit
                covered = (set(), set())
                if isinstance(st, ast.Try):
                    for h in st.handlers:
                        catches_all = h.type is None or (norm_text(h.type).split(".")[-1] == "BaseException")
                        if catches_all and h.body and isinstance(h.body[-1], ast.Raise) and h.body[-1].exc is None:
                            for hs in h.body:
                                s_, c_ = _stores_and_calls(hs)
                                covered = (covered[0] | s_, covered[1] | c_)
                for later in block[i + 1:]:
                    if isinstance(later, ast.Return):
                        break
                    e = _effect(later, bound)
                    if e:
                        ls_, lc_ = _stores_and_calls(later)
                        if (ls_ & bound[0]) <= covered[0] and (lc_ & bound[1]) <= covered[1]:
                            protected += 1
                            continue
                        bad.append((later, e))
                # ... unless an enclosing construct takes care: a `try` with a finally (its body holds us) protects only
                # what is IN the finally; statements after it are ordinary followers (handled one level up)
                if isinstance(st, ast.Try) and depth < len(items) - 1 or (isinstance(st, ast.Try) and fields and depth < len(fields) and fields[depth] == "body"):
                    if st.finalbody:
                        protected += sum(1 for s_ in st.finalbody if _effect(s_, bound))
                if isinstance(st, (ast.With, ast.AsyncWith)):
                    protected += 1
            # a yield inside a `finally` / handler is not a shape this rule knows
            if any(fl in ("finalbody", "handler") for fl in fields):
                raise AnalysisError("%s: %s yields inside a finally / except clause - not a shape the rule decides" % (rule, f.key))
            chk.instance(rule, "%s: %d clean-up statement(s) after the yield on the normal path only, %d protected (finally / nested with)" % (f.key, len(bad), protected), nontrivial=True)
            for later, e in bad[:2]:
                chk.violation(rule, f.key, "unprotected:%s" % norm_text(later)[:40], "`%s` undoes the manager's change but only follows the `yield`: when the block inside `with %s(...)` raises (or a generator that holds the manager open is closed early) it is skipped and the temporary state stays in force for everything that runs afterwards" % (e, f.node.name), file=rel, line=later.lineno)
    if n_fn < min_functions:
        raise AnalysisError("%s: %d context-manager generators under %s (expected at least %d)" % (rule, n_fn, prefixes, min_functions))
    chk.require_count(rule, min_functions)
