"""State cells of the model and may-write / reads summaries (fix-point over the call graph).

Cells
  chains       DecayGroup.chains_idx              (list of active chain indices)
  params       values held by VarsManager.variables[*] (tf.Variable.assign)
  mask         VarsManager.mask_vars
  mask_factor  .mask_factor flags on decays / chains
  config       tf_pwa.config._config[name]
  bounds       VarsManager.bnd_dic
`not_full` is a derived flag of `chains` (it only disables a cached evaluation
path) and is not a cell of its own.
"""
import ast

from .model import Fn, dotted, walk_local, walk_stmt

CELLS = ("chains", "params", "mask", "mask_factor", "config", "bounds")

ATTR_CELL = {
    "chains_idx": "chains",
    "mask_vars": "mask",
    "mask_factor": "mask_factor",
    "bnd_dic": "bounds",
}

INPLACE_LIST_METHODS = {"append", "extend", "remove", "pop", "insert", "clear", "sort", "reverse", "update", "__setitem__", "__delitem__"}
ASSIGN_METHODS = {"assign", "assign_add", "assign_sub"}


def _is_config_dict(fn, node):
    # `_config[...]` inside tf_pwa/config.py::create_config closures
    return (
        isinstance(node, ast.Subscript)
        and isinstance(node.value, ast.Name)
        and node.value.id == "_config"
        and fn.mod.rel.endswith("tf_pwa/config.py")
    )


def primitive_writes(fn, stmt):
    """[(cell, mode, node)] for primitive writes syntactically in `stmt`
    (not entering nested defs).  mode in {'rebind', 'inplace'}"""
    out = []
    for n in walk_stmt(stmt):
        targets = []
        if isinstance(n, ast.Assign):
            targets = n.targets
        elif isinstance(n, (ast.AugAssign, ast.AnnAssign)):
            targets = [n.target]
        elif isinstance(n, ast.Delete):
            targets = n.targets
        elif isinstance(n, (ast.For, ast.comprehension)):
            targets = [n.target]
        elif isinstance(n, ast.With):
            targets = [i.optional_vars for i in n.items if i.optional_vars is not None]
        flat = []
        for t in targets:
            if isinstance(t, (ast.Tuple, ast.List)):
                flat.extend(t.elts)
            else:
                flat.append(t)
        for t in flat:
            if isinstance(t, ast.Starred):
                t = t.value
            if isinstance(t, ast.Attribute) and t.attr in ATTR_CELL:
                out.append((ATTR_CELL[t.attr], "rebind", n))
            elif isinstance(t, ast.Subscript):
                v = t.value
                if isinstance(v, ast.Attribute) and v.attr in ATTR_CELL:
                    out.append((ATTR_CELL[v.attr], "inplace", n))
                elif _is_config_dict(fn, t):
                    out.append(("config", "rebind", n))
        if isinstance(n, ast.Call) and isinstance(n.func, ast.Attribute):
            f = n.func
            if f.attr in ASSIGN_METHODS:
                out.append(("params", "rebind", n))
            elif f.attr in INPLACE_LIST_METHODS and isinstance(f.value, ast.Attribute) and f.value.attr in ATTR_CELL:
                out.append((ATTR_CELL[f.value.attr], "inplace", n))
            elif f.attr == "setattr":
                pass
        if isinstance(n, ast.Call) and isinstance(n.func, ast.Name) and n.func.id == "setattr" and len(n.args) >= 2:
            a = n.args[1]
            if isinstance(a, ast.Constant) and a.value in ATTR_CELL:
                out.append((ATTR_CELL[a.value], "rebind", n))
    return out


def primitive_read_cells(fn, expr):
    """cells whose stored value `expr` syntactically reads (top level, any depth)."""
    out = set()
    for n in walk_stmt(expr):
        if isinstance(n, ast.Attribute) and isinstance(n.ctx, ast.Load) and n.attr in ATTR_CELL:
            out.add(ATTR_CELL[n.attr])
        elif isinstance(n, ast.Call) and isinstance(n.func, ast.Name) and n.func.id == "getattr" and len(n.args) >= 2:
            a = n.args[1]
            if isinstance(a, ast.Constant) and a.value in ATTR_CELL:
                out.add(ATTR_CELL[a.value])
        elif _is_config_dict(fn, n) and isinstance(n.ctx, ast.Load):
            out.add("config")
        elif isinstance(n, ast.Subscript) and isinstance(n.ctx, ast.Load):
            v = n.value
            if isinstance(v, ast.Attribute) and v.attr == "variables":
                out.add("params")
    return out


def is_copy_of_cell_read(expr):
    """True when expr takes a copy (list(x.chains_idx), x.chains_idx[:], .copy(), comprehension...)"""
    if isinstance(expr, ast.Attribute):
        return False
    if isinstance(expr, ast.Name):
        return False
    return True


class Effects:
    def __init__(self, repo, resolver):
        self.repo = repo
        self.res = resolver
        self.writes = {}  # Fn -> set(cell)
        self.inplace = {}  # Fn -> set(cell) written in place w/o a dominating rebind in the same fn
        self.readers = {}  # Fn -> set(cell) whose value the function returns
        self.calls = {}  # Fn -> list[(call node, [Fn])]
        self.unresolved = {}
        self._compute()

    def _compute(self):
        fns = list(self.repo.all_fns())
        for f in fns:
            w = set()
            ip = set()
            rebinds_before = set()
            # source-order scan for "rebind dominates in-place" (straight-line approximation)
            for st in f.node.body:
                for cell, mode, n in primitive_writes(f, st):
                    w.add(cell)
                    if mode == "rebind":
                        rebinds_before.add(cell)
                    elif cell not in rebinds_before:
                        ip.add(cell)
            self.writes[f] = w
            self.inplace[f] = ip
            calls = []
            for n in walk_local(f.node):
                if isinstance(n, ast.Call):
                    cands, how = self.res.resolve_call(f, n)
                    if how == "byname":
                        # ambiguous by-name resolution is not used for may-write facts
                        self.unresolved.setdefault(f, []).append(n)
                        cands = []
                    if how == "class":
                        # X(...) initialises a fresh object, not the live model's cells
                        cands = []
                    calls.append((n, cands, how))
            self.calls[f] = calls
            # readers: return value derived from a primitive read
            r = set()
            for n in walk_local(f.node):
                if isinstance(n, ast.Return) and n.value is not None:
                    r |= primitive_read_cells(f, n.value)
            self.readers[f] = r
        # "in place after rebind through callee": f calls g(rebind) then h(inplace) -> handled at use site
        changed = True
        while changed:
            changed = False
            for f in fns:
                for n, cands, how in self.calls[f]:
                    for g in cands:
                        if g is f:
                            continue
                        add = self.writes[g] - self.writes[f]
                        if add:
                            self.writes[f] |= add
                            changed = True
        # readers.  params: the returned value derives (through local assignments,
        # subscript stores and appends) from a primitive read or a reader call
        # (get_all_dic builds its dictionary element by element).  Other cells:
        # strict - the returned value *is* the cell value or a copy of it.
        derivs = {f: local_derivations(f.node) for f in fns}
        self.strict_alias = {f: strict_aliases(f.node) for f in fns}
        ret_exprs = {}
        for f in fns:
            exprs = []
            for n in walk_local(f.node):
                if isinstance(n, ast.Return) and n.value is not None:
                    exprs.append(n.value)
                    for nm in [x.id for x in ast.walk(n.value) if isinstance(x, ast.Name)]:
                        exprs.extend(derivs[f].get(nm, ()))
            ret_exprs[f] = exprs
            for e in exprs:
                if "params" in primitive_read_cells(f, e):
                    self.readers[f].add("params")
        ret_calls = {}
        for f in fns:
            cs = []
            for e in ret_exprs[f]:
                for n in walk_stmt(e):
                    if isinstance(n, ast.Call):
                        cands, how = self.res.resolve_call(f, n)
                        if how not in ("byname", "class"):
                            cs.extend(cands)
            ret_calls[f] = cs
        changed = True
        rounds = 0
        while changed and rounds < 10:
            changed = False
            rounds += 1
            for f in fns:
                for g in ret_calls[f]:
                    if "params" in self.readers[g] and "params" not in self.readers[f]:
                        self.readers[f].add("params")
                        changed = True
            for f in fns:
                for n in walk_local(f.node):
                    if isinstance(n, ast.Return) and n.value is not None:
                        add = self.snapshot_cells(f, n.value, through_names=True) - {"params"} - self.readers[f]
                        if add:
                            self.readers[f] |= add
                            changed = True

    # ---------------------------------------------------------------- values
    def snapshot_cells(self, f, expr, through_names=False, _depth=0):
        """cells whose *value* `expr` is (the cell itself, a copy of it, a reader call,
        or a display/comprehension whose elements are such values)."""
        out = set()
        if _depth > 6:
            return out
        e = unwrap_copy(expr)
        if e is not expr:
            return self.snapshot_cells(f, e, through_names, _depth + 1)
        if isinstance(expr, ast.Attribute) and expr.attr in ATTR_CELL:
            return {ATTR_CELL[expr.attr]}
        if isinstance(expr, ast.Call):
            if isinstance(expr.func, ast.Name) and expr.func.id == "getattr" and len(expr.args) >= 2:
                a = expr.args[1]
                if isinstance(a, ast.Constant) and a.value in ATTR_CELL:
                    return {ATTR_CELL[a.value]}
            cands, how = self.res.resolve_call(f, expr)
            if how not in ("byname", "class"):
                for g in cands:
                    out |= self.readers.get(g, set())
            return out
        if isinstance(expr, ast.Subscript):
            if _is_config_dict(f, expr):
                return {"config"}
            v = expr.value
            if isinstance(v, ast.Attribute) and v.attr == "variables":
                return {"params"}
            return out
        if isinstance(expr, (ast.ListComp, ast.SetComp, ast.GeneratorExp)):
            return self.snapshot_cells(f, expr.elt, through_names, _depth + 1)
        if isinstance(expr, ast.DictComp):
            return self.snapshot_cells(f, expr.value, through_names, _depth + 1)
        if isinstance(expr, (ast.List, ast.Tuple)):
            for x in expr.elts:
                out |= self.snapshot_cells(f, x, through_names, _depth + 1)
            return out
        if isinstance(expr, ast.Dict):
            for x in expr.values:
                if x is not None:
                    out |= self.snapshot_cells(f, x, through_names, _depth + 1)
            return out
        if isinstance(expr, ast.Name) and through_names:
            for src in self.strict_alias.get(f, {}).get(expr.id, ()):  # exprs the name is assigned from
                out |= self.snapshot_cells(f, src, through_names, _depth + 1)
            return out
        return out

    def recompute_writes(self, balanced):
        """recompute may-write summaries treating `balanced` = {Fn: set(cells)} as
        functions whose net effect on those cells is nil (they restore on all exits)"""
        fns = list(self.repo.all_fns())
        w = {}
        for f in fns:
            s = set()
            for st in f.node.body:
                for cell, mode, n in primitive_writes(f, st):
                    s.add(cell)
            w[f] = s - balanced.get(f, set())
        changed = True
        while changed:
            changed = False
            for f in fns:
                for n, cands, how in self.calls[f]:
                    for g in cands:
                        if g is f:
                            continue
                        add = w[g] - w[f] - balanced.get(f, set())
                        if add:
                            w[f] |= add
                            changed = True
        self.writes = w

    def call_writes(self, f, call):
        """cells a call may write (through resolved callees)"""
        cands, how = self.res.resolve_call(f, call)
        if how in ("byname", "class"):
            return set(), [], how
        out = set()
        for g in cands:
            out |= self.writes.get(g, set())
        return out, cands, how

    def call_reads(self, f, call):
        cands, how = self.res.resolve_call(f, call)
        if how == "byname":
            return set()
        out = set()
        for g in cands:
            out |= self.readers.get(g, set())
        return out

    def expr_read_cells(self, f, expr):
        return self.snapshot_cells(f, expr)


def local_derivations(fnode):
    """name -> list of expression nodes it is (flow-insensitively) assigned from,
    transitively closed over names."""
    direct = {}

    def add(t, v):
        if isinstance(t, ast.Name):
            direct.setdefault(t.id, []).append(v)
        elif isinstance(t, (ast.Tuple, ast.List)):
            for e in t.elts:
                add(e, v)
        elif isinstance(t, ast.Starred):
            add(t.value, v)

    for n in walk_local(fnode):
        if isinstance(n, ast.Assign):
            for t in n.targets:
                add(t, n.value)
        elif isinstance(n, ast.AugAssign):
            add(n.target, n.value)
        elif isinstance(n, ast.AnnAssign) and n.value is not None:
            add(n.target, n.value)
        elif isinstance(n, (ast.For, ast.comprehension)):
            add(n.target, n.iter)
        elif isinstance(n, ast.With):
            for i in n.items:
                if i.optional_vars is not None:
                    add(i.optional_vars, i.context_expr)
        elif isinstance(n, ast.NamedExpr):
            add(n.target, n.value)
    for n in walk_local(fnode):
        if isinstance(n, ast.Assign):
            for t in n.targets:
                if isinstance(t, ast.Subscript) and isinstance(t.value, ast.Name):
                    direct.setdefault(t.value.id, []).append(n.value)
        elif (
            isinstance(n, ast.Call)
            and isinstance(n.func, ast.Attribute)
            and n.func.attr in ("append", "extend", "add", "update")
            and isinstance(n.func.value, ast.Name)
            and n.args
        ):
            direct.setdefault(n.func.value.id, []).append(n.args[0])
    # transitive closure over names
    closed = {}
    for k in direct:
        seen_names = {k}
        exprs = []
        stack = list(direct[k])
        while stack:
            e = stack.pop()
            exprs.append(e)
            for x in ast.walk(e):
                if isinstance(x, ast.Name) and x.id in direct and x.id not in seen_names:
                    seen_names.add(x.id)
                    stack.extend(direct[x.id])
        closed[k] = exprs
    return closed


def derived_names(fnode):
    """name -> set of names it may derive from (including itself)"""
    d = local_derivations(fnode)
    out = {}
    for k, exprs in d.items():
        s = {k}
        for e in exprs:
            s |= {x.id for x in ast.walk(e) if isinstance(x, ast.Name)}
        out[k] = s
    return out


COPY_FUNCS = {"list", "tuple", "dict", "set", "sorted", "copy", "deepcopy", "array", "float", "simple_deepcopy"}
COPY_METHODS = {"copy", "numpy", "tolist"}


def unwrap_copy(e):
    """list(x) / x.copy() / x[:] / copy.deepcopy(x) / dict(x) ... -> x ; otherwise e itself"""
    if isinstance(e, ast.Call):
        fn = e.func
        if isinstance(fn, ast.Name) and fn.id in COPY_FUNCS and len(e.args) == 1 and not e.keywords:
            return e.args[0]
        if isinstance(fn, ast.Attribute) and fn.attr in COPY_FUNCS and isinstance(fn.value, ast.Name) and fn.value.id in ("copy", "np", "numpy") and len(e.args) == 1:
            return e.args[0]
        if isinstance(fn, ast.Attribute) and fn.attr in COPY_METHODS and not e.args and not e.keywords:
            return fn.value
    if isinstance(e, ast.Subscript) and isinstance(e.slice, ast.Slice):
        sl = e.slice
        if sl.lower is None and sl.upper is None and sl.step is None:
            return e.value
    return e


def strict_aliases(fnode):
    """name -> list of expressions it is directly assigned from (plain `a = expr`)"""
    out = {}
    for n in walk_local(fnode):
        if isinstance(n, ast.Assign):
            for t in n.targets:
                if isinstance(t, ast.Name):
                    out.setdefault(t.id, []).append(n.value)
        elif isinstance(n, ast.AnnAssign) and n.value is not None and isinstance(n.target, ast.Name):
            out.setdefault(n.target.id, []).append(n.value)
    return out


def strict_names(fnode_aliases, expr, _seen=None):
    """names that `expr` is a plain alias / copy of (following a = b, a = list(b) ...)"""
    _seen = _seen if _seen is not None else set()
    e = expr
    while True:
        u = unwrap_copy(e)
        if u is e:
            break
        e = u
    if not isinstance(e, ast.Name):
        return set()
    if e.id in _seen:
        return set()
    _seen.add(e.id)
    out = {e.id}
    for src in fnode_aliases.get(e.id, ()):  # a = b
        out |= strict_names(fnode_aliases, src, _seen)
    return out


def loop_element_sources(fnode):
    """loop-target name -> names appearing in the iterable of its `for` (element-of relation)"""
    out = {}
    for n in walk_local(fnode):
        if isinstance(n, (ast.For, ast.comprehension)):
            srcs = {x.id for x in ast.walk(n.iter) if isinstance(x, ast.Name)}
            for t in ast.walk(n.target):
                if isinstance(t, ast.Name):
                    out.setdefault(t.id, set()).update(srcs)
    return out


MULTI_SLOT_CELLS = {"params", "mask_factor", "config", "bounds"}
