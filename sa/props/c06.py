"""C06 - the negative log-likelihood equals its defining formula (structural clauses).

  (a) event-data key agreement: within each likelihood model class the data term
      and the normalisation term read the same per-event keys (efficiency,
      background density); a key read by only one side that no loader writes is the
      defect (a key no loader writes is never reported on its own: users may add
      extra_var keys)
  (b) aggregation siblings: every aggregate of CombineFCN iterates all of self.fcns,
      calls the same-named method of each part and sums every returned component;
      value-returning FCN entry points add the constraint term
  (c) background sign / blending: in every get_weight_data the default background
      weight is built from -self.w_bkg, weights are concatenated in the order the
      samples are merged, and alpha = sum w / sum w^2 of one and the same tensor
Not decided: the numerical value of the NLL, batch independence, scaling invariance.
"""
import ast

from ..model import AnalysisError, norm_text, walk_local, walk_stmt

MODEL_FILES = ["tf_pwa/model/model.py", "tf_pwa/model/cfit.py", "tf_pwa/model/custom.py", "tf_pwa/model/opt_int.py"]
WRITER_FILES = ["tf_pwa/config_loader/data.py", "tf_pwa/data.py", "tf_pwa/cal_angle.py", "tf_pwa/amp/preprocess.py",
                "tf_pwa/config_loader/data_root_lhcb.py", "tf_pwa/config_loader/sample.py"]
EVENT_RECEIVERS = {"data", "mcdata", "bg", "phsp", "i", "x", "inmc", "weight_phsp", "mcdata_i", "data_i"}
SIBLINGS = [("eval_nll_part", "eval_normal_factors")]


def event_keys(fn_node, receivers=None):
    """string keys read from event dictionaries:  X.get("k", ..) / X["k"]  with X a data-like name"""
    out = {}
    for n in walk_stmt(fn_node):
        key = recv = None
        if isinstance(n, ast.Call) and isinstance(n.func, ast.Attribute) and n.func.attr == "get" and n.args and isinstance(n.args[0], ast.Constant) and isinstance(n.args[0].value, str):
            recv, key = n.func.value, n.args[0].value
        elif isinstance(n, ast.Subscript) and isinstance(n.ctx, ast.Load) and isinstance(n.slice, ast.Constant) and isinstance(n.slice.value, str):
            recv, key = n.value, n.slice.value
        if key is None or not isinstance(recv, ast.Name):
            continue
        if receivers is not None and recv.id not in receivers:
            continue
        out.setdefault(key, []).append(n)
    return out


def writer_keys(repo):
    keys = set()
    for rel in WRITER_FILES:
        m = repo.mods.get(rel)
        if m is None:
            continue
        for n in ast.walk(m.tree):
            if isinstance(n, ast.Dict):
                for k in n.keys:
                    if isinstance(k, ast.Constant) and isinstance(k.value, str):
                        keys.add(k.value)
            elif isinstance(n, ast.Subscript) and isinstance(n.ctx, ast.Store) and isinstance(n.slice, ast.Constant) and isinstance(n.slice.value, str):
                keys.add(n.slice.value)
    return keys


def clause_a(repo, chk):
    chk.rule("A-keys", "sibling rule: the data term and the normalisation term of one likelihood class read the same per-event keys; the odd key that no loader writes is reported")
    wk = writer_keys(repo)
    if "eff_value" not in wk or "weight" not in wk:
        raise AnalysisError("default writer table lost 'eff_value'/'weight' (config_loader/data.py extra_var)")
    n_pairs = 0
    all_read = {}
    for rel in MODEL_FILES:
        m = repo.mod(rel)
        for f in m.funcs.values():
            params = set(f.all_param_names())
            recv = {p for p in params if p in EVENT_RECEIVERS} | ({"data", "mcdata"} & params)
            for k, nodes in event_keys(f.node, recv or EVENT_RECEIVERS).items():
                all_read.setdefault(k, []).append(f.key)
        for c in m.all_classes:
            for a, b in SIBLINGS:
                fa, fb = c.methods.get(a), c.methods.get(b)
                if fa is None or fb is None:
                    continue
                ka = set(event_keys(fa.node, set(fa.all_param_names()) - {"self", "weight", "norm", "idx"}))
                kb = set(event_keys(fb.node, set(fb.all_param_names()) - {"self", "weight", "norm", "idx"}))
                if not ka and not kb:
                    continue
                n_pairs += 1
                chk.instance("A-keys", "%s::%s %s reads %s / %s reads %s" % (rel, c.name, a, sorted(ka), b, sorted(kb)))
                if ka != kb:
                    odd = sorted(ka ^ kb)
                    unwritten = [k for k in odd if k not in wk]
                    side = a if any(k in ka for k in unwritten or odd) else b
                    fn = fa if side == a else fb
                    chk.violation(
                        "A-keys", fn.key, "keys:" + ",".join(odd),
                        "%s reads event keys %s but its sibling %s reads %s; key(s) %s are written by no loader/preprocessor (defaults: eff_value, bg_value, weight ...), "
                        "so the per-event factor is silently replaced by its default in one of the two terms"
                        % (a, sorted(ka), b, sorted(kb), unwritten or odd),
                        file=rel, line=fn.lineno,
                    )
    for k, where in sorted(all_read.items()):
        chk.instance("A-keys", "key %r read in %d model functions; default writer: %s" % (k, len(where), k in wk), nontrivial=False)
        if k not in wk:
            chk.info("event key %r (read in %s) has no default writer in the loaders" % (k, where[0]))
    if n_pairs < 2:
        raise AnalysisError("fewer than 2 (data term, normalisation) sibling pairs found")
    # cfit: the efficiency / background accessors each read one key and are wired to self.eff / self.bg
    cf = repo.mod("tf_pwa/model/cfit.py")
    fb, fe = cf.funcs.get("f_bg"), cf.funcs.get("f_eff")
    if fb is None or fe is None:
        raise AnalysisError("cfit default_bg/default_eff accessors vanished")
    kb, ke = set(event_keys(fb.node)), set(event_keys(fe.node))
    chk.instance("A-keys", "cfit default_bg reads %s, default_eff reads %s" % (sorted(kb), sorted(ke)))
    if kb != {"bg_value"} or ke != {"eff_value"}:
        chk.violation("A-keys", fb.key if kb != {"bg_value"} else fe.key, "cfit-accessor", "cfit accessors read %s / %s instead of bg_value / eff_value written by the loader" % (sorted(kb), sorted(ke)), file="tf_pwa/model/cfit.py", line=fb.lineno)
    # registration names of the accessors match the names Model_cfit asks for
    def _const(e):
        """string literal, possibly through a module-level named constant"""
        if isinstance(e, ast.Constant):
            return e.value
        if isinstance(e, ast.Name) and e.id in cf.toplevel_assign and isinstance(cf.toplevel_assign[e.id], ast.Constant):
            return cf.toplevel_assign[e.id].value
        return None

    reg = {}
    for f in (fb, fe):
        for d in f.node.decorator_list:
            if isinstance(d, ast.Call) and d.args and _const(d.args[0]) is not None:
                reg[_const(d.args[0])] = f.name
    init = repo.fn("tf_pwa/model/cfit.py::Model_cfit.__init__")
    asked = {}
    for n in walk_local(init.node):
        if isinstance(n, ast.Assign) and isinstance(n.value, ast.Call) and norm_text(n.value.func) == "get_function" and n.value.args and _const(n.value.args[0]) is not None:
            asked[norm_text(n.targets[0])] = _const(n.value.args[0])
    if not reg or not asked:
        raise AnalysisError("cfit default accessors: registration names / requested names not recognisable (registered %s, asked %s)" % (reg, asked))
    ok = asked.get("bg_f") in reg and reg.get(asked.get("bg_f")) == "f_bg" and reg.get(asked.get("eff_f")) == "f_eff"
    chk.instance("A-keys", "Model_cfit defaults: bg_f<-%s, eff_f<-%s; registered: %s" % (asked.get("bg_f"), asked.get("eff_f"), reg))
    if not ok:
        chk.violation("A-keys", init.key, "cfit-defaults", "Model_cfit default accessors are crossed or unregistered: asked %s, registered %s" % (asked, reg), file="tf_pwa/model/cfit.py", line=init.lineno)


AGG = {
    "get_nll": 1, "get_grad": 1, "get_nll_grad": 2, "get_nll_grad_hessian": 3, "get_grad_hessp": 2,
}


def clause_b(repo, chk):
    chk.rule("B-agg", "each CombineFCN aggregate, interpreted on three abstract parts, returns component by component the sum over all parts of the same-named method of the parts; value entry points add the constraint term")
    # interpretation: CombineFCN with three abstract parts whose methods return distinct symbols per (method, part,
    # component); the aggregate must return, component by component, the sum over all parts of the same-named method
    import sympy as sp

    from ..sym import SelfObj, Translator, Unmodelled

    M = "tf_pwa/model/model.py::"
    fcn, cls = repo.cls(M + "FCN"), repo.cls(M + "CombineFCN")
    PUBLIC = {"__call__": 1, "grad": 1, "nll_grad": 2, "nll_grad_hessian": 3, "grad_hessp": 2}

    def mk(mname, nc):
        def h(tr, args, kwargs, n):
            k = args[0].attrs["_k"]
            vals = tuple(sp.Symbol("%s_part%d_c%d" % (mname, k, c)) for c in range(nc))
            return vals if nc > 1 else vals[0]
        return h

    hooks = {"allow_attr_store": True}
    for mname, nc in list(AGG.items()) + list(PUBLIC.items()):
        if mname in fcn.methods:
            hooks[fcn.methods[mname].key] = mk(mname, nc)
    for mname, ncomp in AGG.items():
        fn = cls.methods.get(mname)
        if fn is None:
            raise AnalysisError("anchor vanished: CombineFCN.%s" % mname)
        tr = Translator(repo, hooks=hooks, max_depth=4)
        so = SelfObj(cls, {"fcns": [SelfObj(fcn, {"_k": k}) for k in range(3)]})
        args = [sp.Symbol("x"), sp.Symbol("p"), sp.Symbol("batch")][: len(fn.params) - 1]
        try:
            out = tr.call_fn(fn, args, self_obj=so)
        except Unmodelled as e:
            raise AnalysisError("CombineFCN.%s is not interpretable on abstract parts: %s" % (mname, e))
        comps = list(out) if isinstance(out, (tuple, list)) else [out]
        want = [sum(sp.Symbol("%s_part%d_c%d" % (mname, k, c)) for k in range(3)) for c in range(ncomp)]
        ok = len(comps) == ncomp and all(sp.expand(sp.sympify(a) - b) == 0 for a, b in zip(comps, want))
        chk.instance("B-agg", "CombineFCN.%s on three abstract parts returns %s: sum of the parts' %s, component by component: %s" % (mname, [str(c) for c in comps] if ncomp == 1 else "%d components" % len(comps), mname, ok))
        if not ok:
            chk.violation(
                "B-agg", fn.key, "aggregate",
                "the simultaneous-fit aggregate must return, for each of its %d component(s), the sum over all parts of the parts' `%s`; on three abstract parts it returns %s" % (ncomp, mname, [str(c) for c in comps]),
                file="tf_pwa/model/model.py", line=fn.lineno,
            )
    # value-returning entry points add the constraint term (shared with C07: interpretation on a component model)
    from .c07 import entry_points_by_interpretation

    res = entry_points_by_interpretation(repo)
    for (cname, mname), (arity_ok, oks, comps, ws, fn2) in sorted(res.items()):
        if mname not in ("__call__", "nll_grad", "nll_grad_hessian"):
            continue
        ok = bool(oks) and oks[0]
        chk.instance("B-agg", "%s.%s value = likelihood part + get_constrain_term(): %s" % (cname, mname, ok))
        if not ok:
            chk.violation("B-agg", fn2.key, "value:term", "the reported NLL value is `%s`, not likelihood part + Gaussian-constraint term" % (comps[0] if comps else None), file="tf_pwa/model/model.py", line=fn2.lineno)
    chk.require_count("B-agg", 11)


def clause_c(repo, chk):
    chk.rule("C-blend", "get_weight_data: default background weight is -self.w_bkg, weights are concatenated in the order data_merge merges the samples, alpha = sum(w)/sum(w*w) of the same tensor")
    n = 0
    for key in ("tf_pwa/model/model.py::Model.get_weight_data", "tf_pwa/model/model.py::Model_new.get_weight_data"):
        fn = repo.fn(key)
        n += 1
        # the local that carries the background weights: the one built from self.w_bkg (whatever it is called)
        bgw = "bg_weight"
        cands_ = {x.targets[0].id for x in walk_local(fn.node) if isinstance(x, ast.Assign) and isinstance(x.targets[0], ast.Name) and "self.w_bkg" in norm_text(x.value)}
        if len(cands_) == 1:
            bgw = next(iter(cands_))
        # default bg weight
        neg = False
        for x in walk_local(fn.node):
            if isinstance(x, ast.Assign) and isinstance(x.targets[0], ast.Name) and x.targets[0].id == bgw:
                for y in ast.walk(x.value):
                    if isinstance(y, ast.UnaryOp) and isinstance(y.op, ast.USub) and norm_text(y.operand) == "self.w_bkg":
                        neg = True
        pos_use = False
        for x in walk_local(fn.node):
            if isinstance(x, ast.Assign) and isinstance(x.targets[0], ast.Name) and x.targets[0].id == bgw:
                for y in ast.walk(x.value):
                    if isinstance(y, ast.Attribute) and norm_text(y) == "self.w_bkg":
                        # every occurrence must be under a unary minus
                        pass
                txt = norm_text(x.value)
                if "self.w_bkg" in txt and "-self.w_bkg" not in txt:
                    pos_use = True
        # merge / concat order
        merge = concat = None
        for x in walk_local(fn.node):
            if isinstance(x, ast.Call) and norm_text(x.func) == "data_merge" and len(x.args) == 2:
                a = [norm_text(v) for v in x.args]
                if a[1] == "bg":
                    merge = a
            if isinstance(x, ast.Call) and norm_text(x.func) == "tf.concat" and x.args and isinstance(x.args[0], ast.List):
                a = [norm_text(v) for v in x.args[0].elts]
                if bgw in a:
                    concat = a
        order_ok = merge == ["data", "bg"] and concat == ["weight", bgw]
        # alpha
        alpha_ok = False
        from .c07 import expand as _expand, single_defs as _single_defs

        _defs = {k: v for k, v in _single_defs(fn.node).items() if k not in ("alpha", "weight", "sw")}
        for x in walk_local(fn.node):
            if isinstance(x, ast.Assign) and isinstance(x.targets[0], ast.Name) and x.targets[0].id == "alpha":
                val = _expand(x.value, _defs)  # temporaries for numerator / denominator are looked through
                if isinstance(val, ast.BinOp) and isinstance(val.op, ast.Div):
                    alpha_ok = _is_alpha(val)
        ok = neg and not pos_use and order_ok and alpha_ok
        chk.instance("C-blend", "%s: -w_bkg:%s merge=%s concat=%s alpha=sum w/sum w^2:%s" % (key, neg and not pos_use, merge, concat, alpha_ok))
        if not (neg and not pos_use):
            chk.violation("C-blend", key, "bg-sign", "the default background weight is not built from -self.w_bkg: background would enter the likelihood with the wrong sign", file=fn.mod.rel, line=fn.lineno)
        if not order_ok:
            chk.violation("C-blend", key, "order", "samples are merged as %s but weights concatenated as %s" % (merge, concat), file=fn.mod.rel, line=fn.lineno)
        if not alpha_ok:
            chk.violation("C-blend", key, "alpha", "alpha is not sum(w)/sum(w*w) of one tensor", file=fn.mod.rel, line=fn.lineno)
    # the other alpha sites
    for key, target in (("tf_pwa/model/model.py::FCN.__init__", "self.alpha"), ("tf_pwa/model/model.py::BaseModel.nll", "alpha")):
        fn = repo.fn(key)
        found = False
        for x in walk_local(fn.node):
            if isinstance(x, ast.Assign) and norm_text(x.targets[0]) == target:
                from .c07 import expand as _expand, single_defs as _single_defs

                val = _expand(x.value, {k: v for k, v in _single_defs(fn.node).items() if k not in ("alpha", "self.alpha", "weight", "sw")})
                if not isinstance(val, ast.BinOp):
                    continue
                found = True
                ok = _is_alpha(val)
                n += 1
                chk.instance("C-blend", "%s: %s = %s -> %s" % (key, target, norm_text(x.value), ok))
                if not ok:
                    chk.violation("C-blend", key, "alpha", "%s is not sum(w)/sum(w*w)" % target, file=fn.mod.rel, line=x.lineno)
        if not found:
            raise AnalysisError("%s: alpha assignment vanished" % key)
    # BaseModel.nll combination:  -alpha * (sum(w ln f) - sw * int_f(int_mc))
    fn = repo.fn("tf_pwa/model/model.py::BaseModel.nll")
    r = [x for x in walk_local(fn.node) if isinstance(x, ast.Return)][-1]
    txt = norm_text(r.value)
    e = r.value
    shape_ok = (
        isinstance(e, ast.BinOp) and isinstance(e.op, ast.Mult) and isinstance(e.left, ast.UnaryOp) and isinstance(e.left.op, ast.USub)
        and norm_text(e.left.operand) == "alpha" and isinstance(e.right, ast.BinOp) and isinstance(e.right.op, ast.Sub)
        and "ln_data" in norm_text(e.right.left) and "int_f" in norm_text(e.right.right) and "sw" in norm_text(e.right.right)
    )
    n += 1
    chk.instance("C-blend", "BaseModel.nll returns -alpha*(sum w ln f - sw*int_f(int_mc)): %s" % shape_ok)
    if not shape_ok:
        # the value of BaseModel.nll is decided by N-formula (interpretation, exact identity); the spelling of its
        # return statement is reported only
        chk.info("BaseModel.nll returns `%s`: not the spelling -alpha*(sum(w*ln f) - sw*int_f(int_mc)) - decided by N-formula" % txt[:80])
    chk.require_count("C-blend", 5)


def _is_alpha(binop):
    l, r = binop.left, binop.right
    def rs(x):
        if isinstance(x, ast.Call) and norm_text(x.func) in ("tf.reduce_sum", "np.sum", "sum") and x.args:
            return x.args[0]
        return None
    a, b = rs(l), rs(r)
    if a is None:
        # sw / tf.reduce_sum(weight**2) with sw = reduce_sum(weight) checked by name
        if isinstance(l, ast.Name) and b is not None:
            a = ast.Name(id="weight", ctx=ast.Load()) if l.id == "sw" else None
    if a is None or b is None:
        return False
    ta = norm_text(a)
    if isinstance(b, ast.BinOp) and isinstance(b.op, ast.Mult):
        return norm_text(b.left) == norm_text(b.right) and (norm_text(b.left) == ta or ta == "weight")
    if isinstance(b, ast.BinOp) and isinstance(b.op, ast.Pow):
        return isinstance(b.right, ast.Constant) and b.right.value == 2 and (norm_text(b.left) == ta or ta == "weight")
    return False


def clause_d(repo, chk):
    """once-only likelihood terms: the batch index reaches eval_nll_part from every batched loop"""
    from ..model import bind_call

    chk.rule("D-idx", "inside a loop over data batches every call of a callee that has an `idx` parameter binds it to the loop's enumerate counter (eval_nll_part adds once-only terms under `if idx == 0`; a defaulted idx adds them once per batch, making the NLL depend on the batch size)")
    cls = repo.cls("tf_pwa/model/custom.py::BaseCustomModel")
    n = 0
    for mname, f in sorted(cls.methods.items()):
        for lp in [x for x in walk_local(f.node) if isinstance(x, ast.For)]:
            counter = None
            it = lp.iter
            if isinstance(it, ast.Call) and isinstance(it.func, ast.Name) and it.func.id == "enumerate" and isinstance(lp.target, ast.Tuple) and isinstance(lp.target.elts[0], ast.Name):
                counter = lp.target.elts[0].id
            # zip(itertools.count(), data, weight): the first zipped sequence is the counter
            if isinstance(it, ast.Call) and isinstance(it.func, ast.Name) and it.func.id == "zip" and it.args and isinstance(it.args[0], ast.Call) and norm_text(it.args[0].func).split(".")[-1] == "count" and not it.args[0].args and isinstance(lp.target, ast.Tuple) and isinstance(lp.target.elts[0], ast.Name):
                counter = lp.target.elts[0].id
            if isinstance(it, ast.Call) and isinstance(it.func, ast.Name) and it.func.id == "zip" and it.args and isinstance(it.args[0], ast.Call) and isinstance(it.args[0].func, ast.Name) and it.args[0].func.id == "range" and isinstance(lp.target, ast.Tuple) and isinstance(lp.target.elts[0], ast.Name):
                counter = lp.target.elts[0].id
            for c in [x for st in lp.body for x in ast.walk(st) if isinstance(x, ast.Call)]:
                if not (isinstance(c.func, ast.Attribute) and isinstance(c.func.value, ast.Name) and c.func.value.id == "self"):
                    continue
                g = cls.lookup(c.func.attr)
                if g is None or "idx" not in g.all_param_names():
                    continue
                bound, extra, star, kw = bind_call(c, g)
                b = bound.get("idx")
                n += 1
                ok = b is not None and isinstance(b, ast.Name) and counter is not None and b.id == counter
                chk.instance("D-idx", "BaseCustomModel.%s: `%s` binds idx=%s (loop counter %s): %s" % (mname, norm_text(c)[:70], norm_text(b) if b is not None else "<default>", counter, ok))
                if not ok:
                    chk.violation("D-idx", f.key, "idx:%s" % c.func.attr, "in the batch loop `%s` is called with idx=%s; every batch is then treated as batch 0 and once-only terms (fraction constraints) are added once per batch" % (norm_text(c)[:80], norm_text(b) if b is not None else "<default 0>"), file="tf_pwa/model/custom.py", line=c.lineno)
    # the forwarding inside the helpers themselves (own parameter idx -> callee idx)
    for mname in ("_fast_nll_part_grad", "_fast_nll_part_grad_multi"):
        f = cls.methods.get(mname)
        if f is None:
            raise AnalysisError("anchor vanished: BaseCustomModel.%s" % mname)
        for c in [x for x in ast.walk(f.node) if isinstance(x, ast.Call) and isinstance(x.func, ast.Attribute) and isinstance(x.func.value, ast.Name) and x.func.value.id == "self"]:
            g = cls.lookup(c.func.attr)
            if g is None or "idx" not in g.all_param_names() or g is f:
                continue
            bound, extra, star, kw = bind_call(c, g)
            b = bound.get("idx")
            n += 1
            ok = isinstance(b, ast.Name) and b.id == "idx"
            chk.instance("D-idx", "BaseCustomModel.%s forwards its idx to %s: %s" % (mname, c.func.attr, ok))
            if not ok:
                chk.violation("D-idx", f.key, "forward:%s" % c.func.attr, "%s does not forward its own `idx` to %s" % (mname, c.func.attr), file="tf_pwa/model/custom.py", line=c.lineno)
    if n < 5:
        raise AnalysisError("only %d idx bindings found in BaseCustomModel" % n)


class _Stop(Exception):
    pass


def enorm_by_interpretation(repo, chk, f):
    """one cfit method interpreted with the integrators replaced by probes: returns a list of problems, or None if the
    method has no mixture of the form prob(x) (nothing to decide)"""
    import sympy as sp

    from ..sym import PyFunc, SelfObj, Translator, Unmodelled
    X, Cd = sp.Symbol("X"), sp.Symbol("Cdata")
    EFF, AMP, BG, CAMP = sp.Function("EFF"), sp.Function("AMP"), sp.Function("BG"), sp.Function("CAMP")
    w = sp.Symbol("w_bkg", positive=True)
    MC, DATA = ["<mc batches>"], ["<data batches>"]
    integrals, probes = {}, []

    class _Amp(PyFunc):
        @property
        def tok_attrs(self):
            return {"trainable_variables": [sp.Symbol("theta")], "decay_group": "DG", "vm": None}

    def is_sample(v, tok):
        return isinstance(v, list) and len(v) == 1 and v[0] == tok[0]

    def integrator(n_ret):
        def hook(tr, a, k, n):
            vals = list(a) + list(k.values())
            fns = [v for v in vals if type(v).__name__ in ("Closure", "BoundMethod", "PyFunc", "_Amp", "Fn")]
            if not fns:
                raise Unmodelled("integrator called without a function")
            F = fns[0]
            nargs = len(getattr(getattr(F, "node", None), "args", None).args) if hasattr(F, "node") else 1
            val = tr.apply(F, [X, Cd][:max(1, nargs)], {}, n, 1)
            if any(is_sample(v, MC) for v in vals):
                name = sp.Symbol("INT%d" % (len(integrals) + 1), positive=True)
                integrals[name] = sp.sympify(val)
                return tuple([name] + [[sp.Symbol("g%d_%d" % (len(integrals), j))] for j in range(n_ret - 1)])
            if any(is_sample(v, DATA) for v in vals):
                probes.append(sp.sympify(val))
                raise _Stop()
            raise Unmodelled("integrator called on neither the data nor the phase-space sample")
        return hook

    hooks = {"allow_attr_store": True, "builtin.isinstance": lambda tr_, a_, k_, n_: False}
    for rel in ("tf_pwa/model/model.py", "tf_pwa/model/opt_int.py", "tf_pwa/model/cfit.py"):
        for g in repo.mod(rel).funcs.values():
            if g.parent is None and g.cls is None and g.name.startswith("sum_"):
                hooks[g.key] = integrator(3 if "hess" in g.name and "hessp" not in g.name else 2)
    for nm_ in ("split_generator", "data_split"):
        sg = repo.fn_opt("tf_pwa/data.py::" + nm_)
        if sg is not None:
            hooks[sg.key] = lambda tr_, a_, k_, n_: a_[0]
    ds = repo.fn_opt("tf_pwa/data.py::data_shape")
    if ds is not None:
        hooks[ds.key] = lambda tr_, a_, k_, n_: sp.Integer(7)

    def first(tr, d, args, kwargs, n):
        last = d.split(".")[-1]
        if last == "Variable":
            return args[0] if args else kwargs.get("initial_value")
        if last == "build_angle_amp_matrix":
            return (None, "cached")
        if last in ("reduce_sum", "convert_to_tensor") and args and isinstance(args[0], list):
            return sp.Symbol("S_" + last)
        return NotImplemented

    hooks["numeric_call_first"] = first
    for g in repo.func_by_name.get("build_angle_amp_matrix", []):
        hooks[g.key] = lambda tr_, a_, k_, n_: (None, "cached")
    vm = SelfObj(None, {"trainable_variables": [sp.Symbol("theta")]})
    so = SelfObj(f.cls, {
        "vm": vm, "w_bkg": w, "resolution_size": sp.Integer(1),
        "sig": PyFunc(lambda x: EFF(x) * AMP(x)), "bg": PyFunc(lambda x: BG(x)), "eff": PyFunc(lambda x: EFF(x)),
        "Amp": _Amp(lambda x: AMP(x)), "cached_amp": PyFunc(lambda x, c: CAMP(x, c)), "cached_data": {},
        "get_weight_data": PyFunc(lambda data, weight=None, **k_: (data, weight if weight is not None else ["<w>"])),
    })
    names = f.all_param_names()[1:]
    argmap = {"data": DATA, "mcdata": MC, "weight": ["<w>"], "mc_weight": ["<mcw>"], "batch": sp.Integer(3), "bg": None}
    args = [argmap.get(nm, None) for nm in names]
    tr = Translator(repo, hooks=hooks, max_depth=2)
    try:
        tr.call_fn(f, args, {}, self_obj=so)
    except _Stop:
        pass
    if not probes:
        return None
    P = probes[0]
    problems = []
    us = {I: sp.Symbol("u_%s" % I) for I in integrals}
    Pu = P.subs({I: 1 / u for I, u in us.items()})
    rest = sp.simplify(Pu.subs({u: 0 for u in us.values()}))
    if rest != 0:
        problems.append(("unnormalised", "the per-event density contains the term %s that is divided by no phase-space integral computed in this call (a normalisation taken from an attribute / an earlier call belongs to another sample or parameter point)" % rest))
    for I, u in us.items():
        coeff = sp.simplify(sp.diff(sp.expand(Pu), u))
        if coeff == 0:
            continue
        ratio = sp.simplify(coeff / integrals[I])
        if any(isinstance(a_, sp.core.function.AppliedUndef) for a_ in ratio.atoms(sp.core.function.AppliedUndef)) or ratio.has(X):
            problems.append(("component:%s" % I, "the component divided by the integral of `%s` over the phase-space sample evaluates `%s` for each event: the mixture is not normalised (e.g. the efficiency is applied on one side only)" % (integrals[I], sp.simplify(coeff))))
    used = [I for I, u in us.items() if sp.diff(sp.expand(Pu), u) != 0]
    return problems, P, integrals, used


def clause_e(repo, chk):
    """mixture likelihoods: each component is divided by the integral of the very function it evaluates"""
    chk.rule("E-norm", "in every cfit-family nll_grad_batch the per-event function of a mixture component in prob() (what multiplies 1/v_int_X) is the function that was integrated over the phase-space sample to obtain int_X")
    n = 0
    m = repo.mod("tf_pwa/model/cfit.py")
    from ..sym import Unmodelled as _Unm
    for f in sorted(m.funcs.values(), key=lambda x: x.key):
        if f.name not in ("nll_grad_batch", "nll_grad_hessian") or f.cls is None or f.parent is not None:
            continue
        try:
            res = enorm_by_interpretation(repo, chk, f)
        except _Unm as e:
            res = "unmodelled: %s" % e
        if res is None:
            continue
        if not isinstance(res, str):
            problems, P, integrals, used = res
            n += max(1, len(used))
            chk.instance("E-norm", "%s interpreted with the integrators as probes: per-event density %s ; integrals %s: %s" % (f.key, P, {str(k): str(v) for k, v in integrals.items()}, not problems))
            for construct, msg in problems:
                chk.violation("E-norm", f.key, construct, msg, file="tf_pwa/model/cfit.py", line=f.lineno)
            continue
        chk.info("E-norm: %s not interpretable (%s); falling back to the statement-level rule" % (f.key, res))
        if f.name != "nll_grad_batch":
            continue
        integ = {}
        for st in walk_local(f.node):
            if isinstance(st, ast.Assign) and isinstance(st.targets[0], ast.Tuple) and isinstance(st.value, ast.Call) and norm_text(st.value.func).startswith("sum_gradient") and st.value.args:
                first = st.targets[0].elts[0]
                over_mc = len(f.params) > 2 and any(isinstance(a_, ast.Name) and a_.id == f.params[2] for a_ in list(st.value.args[1:]) + [k_.value for k_ in st.value.keywords])
                if isinstance(first, ast.Name) and first.id.startswith("int_") and over_mc:
                    integ[first.id] = norm_text(st.value.args[0])
        vmap = {}
        for st in walk_local(f.node):
            pairs = []
            if isinstance(st, ast.Assign) and isinstance(st.targets[0], ast.Tuple) and isinstance(st.value, ast.Tuple):
                pairs = list(zip(st.targets[0].elts, st.value.elts))
            elif isinstance(st, ast.Assign) and len(st.targets) == 1 and isinstance(st.targets[0], ast.Name):
                pairs = [(st.targets[0], st.value)]
            for t, v in pairs:
                if isinstance(t, ast.Name) and isinstance(v, ast.Call):
                    # tf.Variable(int_X, ...) / tf.Variable(initial_value=int_X, ...) / tf.constant(int_X): the wrapped name
                    cand = [a_ for a_ in list(v.args[:1]) + [k_.value for k_ in v.keywords if k_.arg in ("initial_value", "value")] if isinstance(a_, ast.Name) and a_.id in integ]
                    if cand:
                        vmap[t.id] = cand[0].id
                elif isinstance(t, ast.Name) and isinstance(v, ast.Name) and v.id in integ:
                    vmap[t.id] = v.id
        prob = m.funcs.get(f.qual + ".prob")
        if prob is None or not integ or not vmap:
            continue
        ret = [r for r in walk_local(prob.node) if isinstance(r, ast.Return)][0].value
        terms = []

        def split(e):
            if isinstance(e, ast.BinOp) and isinstance(e.op, ast.Add):
                split(e.left)
                split(e.right)
            else:
                terms.append(e)

        # single-use temporaries of prob (sig_x = self.sig(x)) are looked through
        pdefs = {}
        for st_ in walk_local(prob.node):
            if isinstance(st_, ast.Assign) and len(st_.targets) == 1 and isinstance(st_.targets[0], ast.Name):
                pdefs.setdefault(st_.targets[0].id, []).append(st_.value)
        pdefs = {k: v[0] for k, v in pdefs.items() if len(v) == 1}

        class _Inl(ast.NodeTransformer):
            def visit_Name(self, node):
                if isinstance(node.ctx, ast.Load) and node.id in pdefs:
                    return self.visit(ast.parse(ast.unparse(pdefs[node.id]), mode="eval").body)
                return node

        for _ in range(3):
            ret = _Inl().visit(ast.parse(ast.unparse(ret), mode="eval").body)
        split(ret)
        xname = prob.params[0]
        mc_param = f.params[2] if len(f.params) > 2 else None  # (self, data, mcdata, ...)
        for t in terms:
            # every divisor of a component must be the integral, over THIS call's phase-space sample, of a function
            divisors = [d.right.id for d in ast.walk(t) if isinstance(d, ast.BinOp) and isinstance(d.op, ast.Div) and isinstance(d.right, ast.Name)]
            for dv in divisors:
                if dv not in vmap:
                    chk.violation("E-norm", f.key, "stale-norm:%s" % dv, "the component `%s` is divided by %s, which is not computed in this call as sum_gradient(<function>, %s, ...): a normalisation integral taken from elsewhere (an attribute, an earlier call) belongs to another phase-space sample / parameter point" % (norm_text(t)[:60], dv, mc_param), file="tf_pwa/model/cfit.py", line=prob.lineno)
            dens = [x.id for x in ast.walk(t) if isinstance(x, ast.Name) and x.id in vmap]
            if len(dens) != 1:
                continue
            want = integ[vmap[dens[0]]]
            per_event = sorted({norm_text(c.func) for c in ast.walk(t) if isinstance(c, ast.Call) and any(isinstance(a, ast.Name) and a.id == xname for a in c.args)})
            n += 1
            ok = per_event == [want]
            chk.instance("E-norm", "%s: component / %s evaluates %s per event; %s is the integral of `%s`: %s" % (f.key, dens[0], per_event, vmap[dens[0]], want, ok))
            if not ok:
                chk.violation("E-norm", f.key, "component:%s" % dens[0], "the component divided by %s evaluates %s for each event, but %s integrates `%s` over the phase-space sample: the mixture is not normalised (e.g. the efficiency is applied to data events only)" % (dens[0], per_event, vmap[dens[0]], want), file="tf_pwa/model/cfit.py", line=prob.lineno)
    if n < 4:
        raise AnalysisError("fewer than 4 mixture components found in the cfit nll_grad_batch functions")


def clause_f(repo, chk):
    """cfit likelihoods are built on the data sample only: the FCN factory must drop the side-band sample for
    exactly the models the model factory builds as cfit"""
    chk.rule("F-cfit", "ConfigLoader.get_fcn omits bg= for the same set of models that ConfigLoader._get_model builds in its cfit branch (same config predicate, or an isinstance test that covers every class constructed there)")
    LOADER = "tf_pwa/config_loader/config_loader.py"
    gm = repo.fn(LOADER + "::ConfigLoader._get_model")
    gf = repo.fn(LOADER + "::ConfigLoader.get_fcn")
    cfit_classes = set()
    for st in walk_local(gm.node):
        if isinstance(st, ast.If) and norm_text(st.test) in ("model_name == 'cfit'", "'cfit' == model_name"):
            for x in [y for b in st.body for y in ast.walk(b)]:
                if isinstance(x, ast.Call) and isinstance(x.func, ast.Name) and x.func.id[:1].isupper() and x.func.id.lower().startswith("model"):
                    cfit_classes.add(x.func.id)
    if len(cfit_classes) < 3:
        raise AnalysisError("_get_model: cfit branch / its model classes not found (%s)" % sorted(cfit_classes))
    sel = None
    for st in walk_local(gf.node):
        if isinstance(st, ast.If):
            def fcn_calls(stmts):
                return [x for b in stmts for x in ast.walk(b) if isinstance(x, ast.Call) and isinstance(x.func, ast.Name) and x.func.id == "FCN"]
            a, b = fcn_calls(st.body), fcn_calls(st.orelse)
            if a and b:
                a_bg = any(k.arg == "bg" for c in a for k in c.keywords)
                b_bg = any(k.arg == "bg" for c in b for k in c.keywords)
                if a_bg != b_bg:
                    sel = (st, a_bg)
    if sel is None:
        raise AnalysisError("get_fcn: branch that builds the FCN with / without bg not found")
    st, body_has_bg = sel
    t = st.test
    # a boolean local that holds the predicate (hoisted out of the loop) is looked through; `not X` flips the branch
    from .c07 import single_defs as _sd

    defs_ = _sd(gf.node)
    for _ in range(3):
        if isinstance(t, ast.UnaryOp) and isinstance(t.op, ast.Not):
            t, body_has_bg = t.operand, not body_has_bg
        elif isinstance(t, ast.Name) and t.id in defs_:
            t = defs_[t.id]
        else:
            break
    txt = norm_text(t)
    ok = False
    why = txt
    recognised = True
    if "'cfit'" in txt and ".get('model'" in txt and isinstance(t, ast.Compare) and isinstance(t.ops[0], (ast.Eq, ast.NotEq)):
        ok = (isinstance(t.ops[0], ast.Eq)) != body_has_bg
    elif isinstance(t, ast.Call) and isinstance(t.func, ast.Name) and t.func.id == "isinstance" and len(t.args) == 2:
        names = [e.id for e in (t.args[1].elts if isinstance(t.args[1], ast.Tuple) else [t.args[1]]) if isinstance(e, ast.Name)]
        covered = set()
        for cname in cfit_classes:
            c = repo.resolve_name(gm.mod, cname)
            mro = {k.name for k in c.mro} if c is not None and hasattr(c, "mro") else {cname}
            if mro & set(names):
                covered.add(cname)
        ok = covered == cfit_classes and not body_has_bg
        why = "isinstance(..., %s) covers %s of %s" % (names, sorted(covered), sorted(cfit_classes))
    else:
        recognised = False
    if not recognised:
        raise AnalysisError("get_fcn: the predicate `%s` that decides whether bg= is passed is neither the configured model name test nor an isinstance test" % txt)
    chk.instance("F-cfit", "get_fcn drops bg under `%s`; _get_model builds %s in its cfit branch: %s" % (txt, sorted(cfit_classes), ok))
    if not ok:
        chk.violation("F-cfit", gf.key, "predicate", "the FCN factory decides with `%s` whether the side-band sample is merged into the data, but the model factory builds %s for `model: cfit` (%s): for a class the predicate misses, side-band events with negative weights enter the cfit likelihood" % (txt, sorted(cfit_classes), why), file=LOADER, line=st.lineno)


def clause_ragged(repo, chk):
    """the batched likelihood entry points receive LISTS of per-batch tensors whose lengths differ when the batch size
    does not divide the sample: a list must never be packed into one tensor"""
    import ast

    from ..model import norm_text
    PACKERS = {"reduce_sum", "reduce_mean", "reduce_max", "reduce_min", "stack", "convert_to_tensor", "constant", "sum", "array", "asarray"}
    chk.rule("B-ragged", "in every nll_grad_batch under tf_pwa/model/ (called by FCN with lists of per-batch tensors for data, mcdata, weight, mc_weight) no batched parameter - nor a local made from it by list(...) - is handed whole to a call that packs its argument into one tensor (tf.reduce_sum, tf.stack, tf.convert_to_tensor, np.sum, np.array ...): batches of unequal length cannot be packed, so the NLL could not be evaluated for a batch size that does not divide the sample; per-batch reduction (`[tf.reduce_sum(i) for i in weight]`) is the accepted idiom")
    n = 0
    for rel, m in sorted(repo.mods.items()):
        if "/tests/" in rel or not rel.startswith("tf_pwa/model/"):
            continue
        for cls in m.all_classes:
            f = cls.methods.get("nll_grad_batch")
            if f is None:
                continue
            n += 1
            batched = {a.arg for a in f.node.args.args[1:]}
            for st in ast.walk(f.node):
                if isinstance(st, ast.Assign) and len(st.targets) == 1 and isinstance(st.targets[0], ast.Name) and isinstance(st.value, ast.Call) and isinstance(st.value.func, ast.Name) and st.value.func.id in ("list", "tuple") and len(st.value.args) == 1 and isinstance(st.value.args[0], ast.Name) and st.value.args[0].id in batched:
                    batched.add(st.targets[0].id)
            # a name that is rebound to anything else (tf.concat(weight, 0), a flattened tensor ...) is no longer known
            # to be a list of batches
            for st in ast.walk(f.node):
                tgts = st.targets if isinstance(st, ast.Assign) else [st.target] if isinstance(st, (ast.AugAssign, ast.AnnAssign)) else []
                for t in tgts:
                    for nm in ast.walk(t):
                        if isinstance(nm, ast.Name) and nm.id in batched:
                            v = getattr(st, "value", None)
                            keeps = isinstance(st, ast.Assign) and isinstance(v, ast.Call) and isinstance(v.func, ast.Name) and v.func.id in ("list", "tuple") and len(v.args) == 1 and isinstance(v.args[0], ast.Name) and v.args[0].id in batched
                            if not keeps:
                                batched.discard(nm.id)
            hits = []
            # nested functions / lambdas have their own parameters: a name that shadows a batched parameter there is
            # another variable
            shadow = set()
            for c in ast.walk(f.node):
                if c is not f.node and isinstance(c, (ast.FunctionDef, ast.Lambda)):
                    inner = {a_.arg for a_ in c.args.posonlyargs + c.args.args + c.args.kwonlyargs}
                    if inner & batched:
                        for x in ast.walk(c):
                            shadow.add(id(x))
            for c in ast.walk(f.node):
                if id(c) in shadow:
                    continue
                if isinstance(c, ast.Call) and isinstance(c.func, ast.Attribute) and c.func.attr in PACKERS and c.args and isinstance(c.args[0], ast.Name) and c.args[0].id in batched:
                    root = norm_text(c.func).split(".")[0]
                    if root in ("tf", "np", "numpy", "tensorflow"):
                        hits.append(c)
            chk.instance("B-ragged", "%s: batched parameters %s, packed whole %d times" % (f.key, sorted(batched), len(hits)), nontrivial=True)
            for c in hits[:2]:
                chk.violation("B-ragged", f.key, "packs:%s" % c.args[0].id, "`%s` packs the list of per-batch tensors `%s` into one tensor: with a batch size that does not divide the sample the batches have different lengths and the call fails (InvalidArgumentError), so the likelihood has no value for that batch size" % (norm_text(c)[:60], c.args[0].id), file=rel, line=c.lineno)
    if n < 5:
        raise AnalysisError("B-ragged: only %d nll_grad_batch methods found under tf_pwa/model/" % n)


def run(repo, chk, tier):
    from ..cacheown import check_persistent_state

    clause_ragged(repo, chk)
    from .c06_formula import check_batch_sum, check_cache_atomic, check_nll_formula

    check_nll_formula(repo, chk)
    check_batch_sum(repo, chk)
    check_cache_atomic(repo, chk, ["tf_pwa/model/"], min_sites=3)

    check_persistent_state(repo, chk, ["tf_pwa/model/"])
    from ..cacheown import check_mutable_defaults

    check_mutable_defaults(repo, chk, ["tf_pwa/model/"])
    from ..cacheown import check_iteration_order_agreement

    check_iteration_order_agreement(repo, chk, ["tf_pwa/model/"])
    from .c07 import check_gauss_constr

    check_gauss_constr(repo, chk, parts=("value",))
    clause_f(repo, chk)
    clause_e(repo, chk)
    clause_d(repo, chk)
    clause_a(repo, chk)
    clause_b(repo, chk)
    clause_c(repo, chk)
