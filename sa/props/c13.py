"""C13 - the offered (l, s) couplings are exactly the triangle- and parity-allowed ones (finite-domain interpretation).

GetA2BC_LS_list touches its arguments only through comparisons, parity arithmetic and integer steps; it is
interpreted AS A WHOLE (with _spin_range evaluated as the generator it is) on a grid of spins, parities (including
unknown ones), the parity-violation switch and the C-parity argument, and its result is compared - as an ordered
list, so each coupling appears once - with the textbook enumeration

    s = |jb-jc| .. jb+jc (unit steps),  l = |ja-s| .. ja+s (unit steps), l integer,
    kept iff  (p_break or a parity unknown or (-1)^l == pa pb pc)  and  (ca is None or ca == (-1)^(l+s)).

Robust to any rewriting of the function (loop bounds through temporaries, filter as if/else or conditional
expression, any(...) instead of `or`, renamed locals).
NOT decided: rank of the LS->helicity map, per-decay l_list / ls_list restrictions, removal of chains without
allowed couplings.
"""
import itertools

import sympy as sp

from ..model import AnalysisError
from ..sym import Raised, Translator, Unmodelled

PAR = "tf_pwa/particle.py"


def reference(ja, jb, jc, pa, pb, pc, p_break, ca):
    out = []
    unknown = pa is None or pb is None or pc is None
    s = abs(jb - jc)
    while s <= jb + jc:
        l = abs(ja - s)
        while l <= ja + s:
            if l == int(l):
                li = int(l)
                ok = True
                if ca is not None and sp.Integer(ca) != sp.Integer(-1) ** (li + s):
                    ok = False
                if ok and not (p_break or unknown) and (-1) ** li != pa * pb * pc:
                    ok = False
                if ok:
                    out.append((li, s))
            l += 1
        s += 1
    return out


def run(repo, chk, tier):
    chk.rule("S-enum", "GetA2BC_LS_list, interpreted as a whole on a grid of spins x parities (incl. unknown) x p_break x C-parity, returns the textbook list of (l, s): triangle rules in unit steps with both ends, l integer, parity and C-parity filters, each coupling once and in order")
    fn = repo.fn(PAR + "::GetA2BC_LS_list")
    if fn.params[:3] != ["ja", "jb", "jc"]:
        raise AnalysisError("GetA2BC_LS_list parameters changed: %s" % fn.params)
    half = sp.Rational(1, 2)
    spins = [k * half for k in range(0, 5 if tier != "thorough" else 9)]  # quick: 0..2, thorough: 0..4 (the range the property names)
    parities = list(itertools.product((1, -1), repeat=3)) + [(None, 1, 1), (1, None, -1), (-1, 1, None), (None, None, None)]
    hooks = {"builtin.isinstance": lambda tr, args, kwargs, n: isinstance(args[0], int) or bool(getattr(args[0], "is_Integer", False)), "allow_raise": True}
    tr = Translator(repo, hooks=hooks, max_depth=3)
    n, bad = 0, []
    for ja, jb, jc in itertools.product(spins, repeat=3):
        for pa, pb, pc in parities:
            for p_break in (False, True):
                cas = (None, 1, -1) if (jb + jc).is_Integer else (None,)
                for ca in cas:
                    conv = lambda v: None if v is None else sp.Integer(v)
                    try:
                        got = tr.call_fn(fn, [ja, jb, jc], {"pa": conv(pa), "pb": conv(pb), "pc": conv(pc), "p_break": p_break, "ca": conv(ca)})
                    except Raised as e:
                        got = "raises %s" % e
                    except Unmodelled as e:
                        raise AnalysisError("GetA2BC_LS_list not interpretable at (%s,%s,%s; %s,%s,%s; %s; %s): %s" % (ja, jb, jc, pa, pb, pc, p_break, ca, e))
                    want = reference(ja, jb, jc, pa, pb, pc, p_break, ca)
                    n += 1
                    g = [(int(a), sp.nsimplify(b)) for a, b in got] if isinstance(got, list) else got
                    if g != want and len(bad) < 5:
                        bad.append("ja=%s jb=%s jc=%s P=(%s,%s,%s) p_break=%s ca=%s: got %s, the selection rules give %s" % (ja, jb, jc, pa, pb, pc, p_break, ca, g, want))
                    elif g != want:
                        bad.append("")
    chk.oblige("S-enum", "GetA2BC_LS_list interpreted at %d grid points (spins <= %s): %d deviations from the textbook enumeration" % (n, spins[-1], len(bad)), not bad)
    if bad:
        chk.violation("S-enum", fn.key, "enumeration", "%d of %d grid points deviate; first: %s" % (len(bad), n, bad[0]), file=PAR, line=fn.lineno)
    if n < 1000:
        raise AnalysisError("S-enum: only %d grid points" % n)
    chk.info("not decided: rank of the LS->helicity map, l_list/ls_list restrictions, removal of chains without allowed couplings")
