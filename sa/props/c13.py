"""C13 - partial-wave (l, s) selection (one structural clause).

Decides that tf_pwa.particle.GetA2BC_LS_list *is* the textbook enumeration:
   s runs over |jb - jc| .. jb + jc in unit steps,
   l runs over |ja - s| .. ja + s in unit steps (half-integer l skipped),
   parity:   kept iff l = dl (mod 2) with dl = 0 when pa*pb*pc == 1 else 1, unless parity may be broken,
   C parity: when requested, kept iff ca == (-1)^(l+s),
   every accepted pair is appended exactly once, nothing else is appended.
With these bounds and filters "exactly those allowed by the triangle rules and by parity,
each listed once" holds for every spin-parity assignment by construction.  The rank of the
LS -> helicity map, the per-decay restrictions (l_list / ls_list) and the configuration-level
cut of chains without allowed couplings are NOT decided.
"""
import ast

import sympy as sp

from ..model import AnalysisError, norm_text, walk_local
from ..sym import Translator, Unmodelled, equal

PAR = "tf_pwa/particle.py"


def run(repo, chk, tier):
    chk.rule("S-range", "_spin_range(a, b) yields a, a+1, ... while <= b (unit steps, both ends included)")
    chk.rule("S-bounds", "E6: s from |jb-jc| to jb+jc, l from |ja-s| to ja+s")
    chk.rule("S-filter", "parity filter l % 2 == dl with dl = 0 if pa*pb*pc == 1 else 1 (skipped when parity may be broken or a parity is unknown); C-parity filter ca == (-1)**(l+s) when ca is given; each accepted (l, s) appended exactly once")
    sr = repo.fn(PAR + "::_spin_range")
    body = sr.node.body
    ok = (
        len(body) == 1 and isinstance(body[0], ast.While) and norm_text(body[0].test) == "a <= b"
        and len(body[0].body) == 2 and norm_text(body[0].body[0]) == "yield a"
        and norm_text(body[0].body[1]) in ("a = a + 1", "a += 1", "a = 1 + a") and not body[0].orelse
    )
    chk.instance("S-range", "_spin_range: while a <= b: yield a; a = a + 1 -> %s" % ok)
    if not ok:
        chk.violation("S-range", sr.key, "shape", "_spin_range no longer yields a, a+1, ..., <= b: `%s`" % norm_text(sr.node)[:160], file=PAR, line=sr.lineno)
    fn = repo.fn(PAR + "::GetA2BC_LS_list")
    ja, jb, jc = sp.symbols("ja jb jc", nonnegative=True)
    s_ = sp.Symbol("s", nonnegative=True)
    tr = Translator(repo)
    loops = [n for n in walk_local(fn.node) if isinstance(n, ast.For) and isinstance(n.iter, ast.Call) and norm_text(n.iter.func) == "_spin_range"]
    if len(loops) != 2:
        raise AnalysisError("GetA2BC_LS_list: expected two _spin_range loops, found %d" % len(loops))
    outer, inner = (loops[0], loops[1]) if any(x is loops[1] for x in ast.walk(loops[0])) else (loops[1], loops[0])
    # local definitions s_min / s_max
    env = {"ja": ja, "jb": jb, "jc": jc, "s": s_}
    for st in fn.node.body:
        if isinstance(st, ast.Assign) and isinstance(st.targets[0], ast.Name) and st.targets[0].id in ("s_min", "s_max"):
            env[st.targets[0].id] = tr.eval(st.value, env, fn.mod, 0)

    def bound(loop, want_lo, want_hi, what):
        try:
            lo = tr.eval(loop.iter.args[0], env, fn.mod, 0)
            hi = tr.eval(loop.iter.args[1], env, fn.mod, 0)
        except Unmodelled as e:
            raise AnalysisError("GetA2BC_LS_list: %s bounds not modelled: %s" % (what, e))
        a, da = equal(sp.sympify(lo), want_lo)
        b, db = equal(sp.sympify(hi), want_hi)
        chk.instance("S-bounds", "%s runs from %s to %s (required %s .. %s): %s" % (what, lo, hi, want_lo, want_hi, bool(a and b)))
        if not (a and b):
            chk.violation("S-bounds", fn.key, "bounds:%s" % what, "%s runs from %s to %s; the triangle rule requires %s .. %s" % (what, lo, hi, want_lo, want_hi), file=PAR, line=loop.lineno)

    if norm_text(outer.target) != "s" or norm_text(inner.target) != "l":
        raise AnalysisError("GetA2BC_LS_list: loop variables are not (s, l)")
    bound(outer, sp.Abs(jb - jc), jb + jc, "s")
    bound(inner, sp.Abs(ja - s_), ja + s_, "l")
    # filters: the body of the l loop is a branch-only fragment whose inputs are touched only through
    # parity / equality tests; it is interpreted by the checker's evaluator over the finite domain
    # l in 0..5 (+ one half-integer), s in 0..3, p_break, dl in {0,1}, ca in {None, +1, -1} and compared
    # with the selection rule itself (robust against any rewriting of the tests / nesting)
    dl_assign = [n for n in walk_local(fn.node) if isinstance(n, ast.Assign) and norm_text(n.targets[0]) == "dl"]
    if not dl_assign:
        raise AnalysisError("GetA2BC_LS_list: definition of dl not found")
    hooks = {"builtin.isinstance": lambda tr_, args, kwargs, n: bool(getattr(args[0], "is_Integer", False)) or isinstance(args[0], int)}
    n_cases = n_bad = 0
    first_bad = None
    for pa in (1, -1):
        for pb in (1, -1):
            for pc in (1, -1):
                t2 = Translator(repo, hooks=hooks)
                dlv = t2.eval(dl_assign[0].value, {"pa": sp.Integer(pa), "pb": sp.Integer(pb), "pc": sp.Integer(pc)}, fn.mod, 0)
                want = 0 if pa * pb * pc == 1 else 1
                n_cases += 1
                if int(dlv) != want:
                    n_bad += 1
                    first_bad = first_bad or "dl(pa=%d,pb=%d,pc=%d) = %s, parity conservation pa = pb*pc*(-1)^l requires %d" % (pa, pb, pc, dlv, want)
    for lv in [sp.Integer(k) for k in range(6)] + [sp.Rational(3, 2)]:
        for sv in range(4):
            for pbreak in (True, False):
                for dlv in (0, 1):
                    for ca in (None, 1, -1):
                        env2 = {"l": lv, "s": sp.Integer(sv), "p_break": pbreak, "dl": sp.Integer(dlv), "ca": None if ca is None else sp.Integer(ca), "ret": []}
                        t2 = Translator(repo, hooks=hooks)
                        try:
                            r = t2.exec_body(inner.body, env2, fn.mod, 0)
                        except Unmodelled as e:
                            raise AnalysisError("GetA2BC_LS_list: l-loop body not modelled: %s" % e)
                        got = [(int(a_), int(b_)) for a_, b_ in env2["ret"]]
                        if not lv.is_Integer:
                            want = []
                            ok_ = got == [] and r is not None and r[0] == "break"
                        else:
                            keep = (ca is None or ca == (-1) ** (int(lv) + sv)) and (pbreak or int(lv) % 2 == dlv)
                            want = [(int(lv), sv)] if keep else []
                            ok_ = got == want
                        n_cases += 1
                        if not ok_:
                            n_bad += 1
                            first_bad = first_bad or "l=%s s=%d p_break=%s dl=%d ca=%s: appended %s, selection rules require %s" % (lv, sv, pbreak, dlv, ca, got, want)
    chk.instance("S-filter", "l-loop body interpreted on %d (l, s, p_break, dl, ca) / (pa, pb, pc) cases against the parity and C-parity rules: %d deviations" % (n_cases, n_bad))
    if n_bad:
        chk.violation("S-filter", fn.key, "filter", "the (l, s) filter deviates from the selection rules in %d of %d cases; first: %s" % (n_bad, n_cases, first_bad), file=PAR, line=inner.lineno)
    unknown_ok = False
    for n in walk_local(fn.node):
        if isinstance(n, ast.If) and all(("%s is None" % v) in norm_text(n.test) for v in ("pa", "pb", "pc")) and any(norm_text(x) == "p_break = True" for x in n.body):
            unknown_ok = True
    chk.instance("S-filter", "a missing parity switches the parity filter off (p_break = True): %s" % unknown_ok)
    if not unknown_ok:
        chk.violation("S-filter", fn.key, "unknown-parity", "with an unknown parity the parity filter must be switched off", file=PAR, line=fn.lineno)
    # the list is returned as built
    r = [n for n in walk_local(fn.node) if isinstance(n, ast.Return)]
    ok = len(r) == 1 and norm_text(r[0].value) == "ret"
    chk.instance("S-filter", "returns the list as built: %s" % ok)
    if not ok:
        chk.violation("S-filter", fn.key, "return", "GetA2BC_LS_list no longer returns the enumerated list unchanged", file=PAR, line=fn.lineno)
    chk.info("not decided: rank of the LS->helicity map, l_list/ls_list restrictions, removal of chains without allowed couplings")
    chk.require_count("S-bounds", 2)
    chk.require_count("S-filter", 3)
