"""C13 - the offered (l, s) couplings are exactly the triangle- and parity-allowed ones (finite-domain interpretation).

GetA2BC_LS_list touches its arguments only through comparisons, parity arithmetic and integer steps; it is
interpreted AS A WHOLE (with _spin_range evaluated as the generator it is) on a grid of spins, parities (including
unknown ones), the parity-violation switch and the C-parity argument, and its result is compared - as an ordered
list, so each coupling appears once - with the textbook enumeration

    s = |jb-jc| .. jb+jc (unit steps),  l = |ja-s| .. ja+s (unit steps), l integer,
    kept iff  (p_break or a parity unknown or (-1)^l == pa pb pc)  and  (ca is None or ca == (-1)^(l+s)).

Robust to any rewriting of the function (loop bounds through temporaries, filter as if/else or conditional
expression, any(...) instead of `or`, renamed locals).
NOT decided: rank of the LS->helicity map, per-decay l_list / ls_list restrictions, removal of chains without
allowed couplings.
"""
import itertools

import sympy as sp

from ..model import AnalysisError
from ..sym import Raised, Translator, Unmodelled

PAR = "tf_pwa/particle.py"


def reference(ja, jb, jc, pa, pb, pc, p_break, ca):
    out = []
    unknown = pa is None or pb is None or pc is None
    s = abs(jb - jc)
    while s <= jb + jc:
        l = abs(ja - s)
        while l <= ja + s:
            if l == int(l):
                li = int(l)
                ok = True
                if ca is not None and sp.Integer(ca) != sp.Integer(-1) ** (li + s):
                    ok = False
                if ok and not (p_break or unknown) and (-1) ** li != pa * pb * pc:
                    ok = False
                if ok:
                    out.append((li, s))
            l += 1
        s += 1
    return out


CORE = "tf_pwa/amp/core.py"


def _reference_list(ja, jb, jc, pa, pb, pc, p_break):
    return reference(ja, jb, jc, pa, pb, pc, p_break, None)


def check_l_restriction(repo, chk):
    """HelicityDecay.get_ls_list: the l_list restriction is applied, and applied on every call"""
    from ..sym import SelfObj, SuperObj
    chk.rule("S-llist", "HelicityDecay.get_ls_list, interpreted with the unrestricted list replaced by a token list, for l_list in {None, [0], [1, 2], [5]}: the result is the couplings whose l is in l_list, in order, and a second call on the same object returns the same list (the per-decay cache holds the restricted list)")
    hd = repo.cls(CORE + "::HelicityDecay")
    fn = hd.methods.get("get_ls_list")
    if fn is None:
        raise AnalysisError("anchor vanished: HelicityDecay.get_ls_list")
    base = tuple((sp.Integer(l_), sp.Integer(s_)) for l_, s_ in ((0, 0), (0, 1), (1, 1), (2, 1), (2, 2), (3, 2)))
    parents = [c for c in hd.mro[1:] if "get_ls_list" in c.methods]
    if not parents:
        raise AnalysisError("HelicityDecay.get_ls_list has no base implementation any more")
    hooks = {parents[0].methods["get_ls_list"].key: lambda tr_, a_, k_, n_: base, "allow_attr_store": True}
    bad = None
    for l_list in (None, [sp.Integer(0)], [sp.Integer(1), sp.Integer(2)], [sp.Integer(5)]):
        so = SelfObj(hd, {"ls_list": None, "l_list": l_list, "ls_selector": None, "total_ls": None})
        tr = Translator(repo, hooks=hooks, max_depth=2)
        try:
            first = tr.call_fn(fn, [], {}, self_obj=so)
            second = tr.call_fn(fn, [], {}, self_obj=so)
        except Unmodelled as e:
            raise AnalysisError("HelicityDecay.get_ls_list cannot be interpreted: %s" % e)
        want = [x for x in base if l_list is None or x[0] in l_list]
        f1 = [tuple(x) for x in first] if isinstance(first, (list, tuple)) else first
        f2 = [tuple(x) for x in second] if isinstance(second, (list, tuple)) else second
        if f1 != want and bad is None:
            bad = ("first", "with l_list=%s the first call returns %s, expected %s" % (l_list, f1, want))
        elif f2 != want and bad is None:
            bad = ("second", "with l_list=%s the first call returns %s but a later call returns %s: every later user (l list, CG matrix, parameters) sees the unrestricted couplings" % (l_list, f1, f2))
    chk.oblige("S-llist", "get_ls_list on 4 l_list settings, two calls each", bad is None)
    if bad:
        chk.violation("S-llist", fn.key, bad[0] + "-call", bad[1], file=CORE, line=fn.lineno)


def check_qr_selector(repo, chk, tier):
    """ls_selector_qr keeps a maximal independent set of couplings: as many as independent helicity amplitudes"""
    from ..sym import SelfObj, PyFunc
    from .c12 import cg_sq
    chk.rule("S-qr", "ls_selector_qr, interpreted with CG(...) read as the exact coefficient (sympy Matrix / QRdecomposition on exact entries), for spin-parity assignments with spins <= 1 (quick) / 2 (thorough), parity conserving and p_break: the selected couplings are a repetition-free sublist of the offered ones, as many as there are independent helicity amplitudes (parity partners identified only when parity is conserved), and the helicity-coupling matrix restricted to them has full column rank")
    fn = repo.fn_opt(CORE + "::ls_selector_qr")
    if fn is None:
        raise AnalysisError("anchor vanished: ls_selector_qr")
    half = sp.Rational(1, 2)

    def cgv(j1, m1, j2, m2, J, M):
        sign, sq = cg_sq(*[_frac(x) for x in (j1, m1, j2, m2, J, M)])
        return sp.Integer(sign) * sp.sqrt(sp.Rational(sq.numerator, sq.denominator))

    class _CG:
        def __init__(self, *a):
            self.a = a

    def attribute(tr, obj, attr, n):
        if isinstance(obj, _CG) and attr == "doit":
            return PyFunc(lambda: cgv(*obj.a))
        raise Unmodelled("attribute %s of %r" % (attr, obj))

    def first(tr, d, args, kwargs, n):
        last = d.split(".")[-1]
        if last == "CG" and len(args) == 6:
            return cgv(*args)  # products of coefficients are formed before .doit(): hand out the value at once
        if last == "Matrix":
            return _Mat(sp.Matrix([[sp.sympify(x) for x in row] for row in args[0]]))
        return NotImplemented

    class _Mat:
        def __init__(self, m):
            self.m = m

    def attribute2(tr, obj, attr, n):
        if isinstance(obj, _Mat):
            if attr == "QRdecomposition":
                def qr():
                    # sympy's QR needs full column rank of the leading block; use the rank-revealing fallback on failure
                    q, r = obj.m.QRdecomposition()
                    return _Mat(q), _Mat(r)
                return PyFunc(qr)
            if attr in ("rows", "cols"):
                return sp.Integer(getattr(obj.m, attr))
            if attr == "shape":
                return (sp.Integer(obj.m.rows), sp.Integer(obj.m.cols))
            if attr == "T":
                return _Mat(obj.m.T)
            if attr == "rank":
                return PyFunc(lambda: sp.Integer(obj.m.rank()))
        if is_number_like(obj) and attr == "doit":
            return PyFunc(lambda: obj)
        return attribute(tr, obj, attr, n)

    def is_number_like(x):
        return isinstance(x, sp.Basic)

    def subscript(tr, obj, idx, n):
        if isinstance(obj, _Mat):
            i, j = idx
            return sp.simplify(obj.m[int(i), int(j)])
        raise Unmodelled("subscript of %r" % (obj,))

    def sym_method(tr, obj, name, args, kwargs):
        if name == "doit":
            return obj
        return NotImplemented

    spins = [k * half for k in range(0, 3 if tier != "thorough" else 5)]
    n_cases, bad = 0, None
    for ja, jb, jc in itertools.product(spins, repeat=3):
        if not (ja + jb + jc).is_Integer and not ((jb + jc - ja).is_Integer):
            continue
        if not (jb + jc - ja).is_Integer:
            continue
        for pa, pb, pc in ((1, 1, 1), (1, -1, 1), (-1, 1, -1)):
            for p_break in (False, True):
                offered = _reference_list(ja, jb, jc, pa, pb, pc, p_break)
                if not offered:
                    continue
                offered_t = tuple((sp.Integer(l), sp.nsimplify(s_)) for l, s_ in offered)
                mk = lambda J, P: SelfObj(None, {"J": J, "P": P, "spins": [J - k for k in range(int(2 * J), -1, -1)]})
                dec = SelfObj(None, {"core": mk(ja, pa), "outs": [mk(jb, pb), mk(jc, pc)], "p_break": p_break})
                tr = Translator(repo, hooks={"numeric_call_first": first, "attribute": attribute2, "subscript": subscript, "sym_method": sym_method}, max_depth=2)
                try:
                    got = tr.call_fn(fn, [dec, offered_t])
                except Unmodelled as e:
                    raise AnalysisError("ls_selector_qr cannot be interpreted at (%s,%s,%s; %s,%s,%s; p_break=%s): %s" % (ja, jb, jc, pa, pb, pc, p_break, e))
                n_cases += 1
                # reference: helicity-coupling matrix over all allowed helicity pairs
                hel = [(l1, l2) for l1 in [jb - k for k in range(int(2 * jb), -1, -1)] for l2 in [jc - k for k in range(int(2 * jc), -1, -1)] if abs(l1 - l2) <= ja]
                M = sp.Matrix([[cgv(l, 0, s_, l1 - l2, ja, l1 - l2) * cgv(jb, l1, jc, -l2, s_, l1 - l2) for l, s_ in offered_t] for l1, l2 in hel])
                n_indep = M.rank()
                g = [tuple(x) for x in got] if isinstance(got, (list, tuple)) else None
                why = None
                if g is None or any(x not in offered_t for x in g) or len(set(g)) != len(g):
                    why = "returns %s, not a repetition-free sublist of the offered couplings %s" % (got, offered_t)
                elif len(g) != n_indep:
                    why = "offers %d couplings %s for %d independent helicity amplitudes" % (len(g), g, n_indep)
                else:
                    cols = [offered_t.index(x) for x in g]
                    if M[:, cols].rank() != len(cols):
                        why = "the selected couplings %s are linearly dependent" % (g,)
                if why and bad is None:
                    bad = "J^P = %s^%s -> %s^%s %s^%s, p_break=%s: %s" % (ja, pa, jb, pb, jc, pc, p_break, why)
    if n_cases < 30:
        raise AnalysisError("S-qr: only %d cases" % n_cases)
    chk.oblige("S-qr", "ls_selector_qr on %d spin-parity assignments: selected couplings independent and as many as independent helicity amplitudes" % n_cases, bad is None)
    if bad:
        chk.violation("S-qr", fn.key, "rank", bad, file=CORE, line=fn.lineno)


def _frac(x):
    from fractions import Fraction
    x = sp.nsimplify(x)
    return Fraction(int(x.p), int(x.q)) if hasattr(x, "p") else Fraction(int(x))


def check_call_sites(repo, chk):
    """the selection rules are correct for the arguments they are GIVEN: the call sites hand them the right ones"""
    from ..sym import PyFunc, SelfObj
    CORE = "tf_pwa/amp/core.py"
    # (S-bind) Decay.get_ls_list binds each quantum number of the decay to the parameter of the same meaning
    chk.rule("S-bind", "Decay.get_ls_list interpreted on a decay whose mother has J, P and C all different (J = 2, P = -1, C = +1; daughters with distinct spins and parities): GetA2BC_LS_list receives ja / jb / jc = the spins, pa / pb / pc = the parities, p_break = the decay's flag and ca = the mother's C-parity when c_break is off (None when it is on)")
    dcls = repo.cls(PAR + "::Decay")
    fn = dcls.methods.get("get_ls_list")
    target = repo.fn(PAR + "::GetA2BC_LS_list")
    if fn is None:
        raise AnalysisError("anchor vanished: Decay.get_ls_list")
    for c_break in (False, True):
        for p_break in (False, True):
            got = {}

            def rec(tr, args, kwargs, node):
                got.update(Translator.bound_args(target, args, kwargs))
                return [(sp.Integer(0), sp.Integer(1))]

            core = SelfObj(None, {"J": sp.Integer(2), "P": sp.Integer(-1), "C": sp.Integer(1)})
            b = SelfObj(None, {"J": sp.Integer(1), "P": sp.Integer(-1), "C": sp.Integer(-1)})
            c = SelfObj(None, {"J": sp.Rational(0), "P": sp.Integer(1), "C": None})
            so = SelfObj(dcls, {"core": core, "outs": [b, c], "p_break": p_break, "c_break": c_break})
            try:
                Translator(repo, hooks={target.key: rec, "allow_attr_store": True}, max_depth=2).call_fn(fn, [], self_obj=so)
            except Unmodelled as e:
                raise AnalysisError("Decay.get_ls_list cannot be interpreted: %s" % e)
            want = {"ja": sp.Integer(2), "jb": sp.Integer(1), "jc": sp.Integer(0), "pa": sp.Integer(-1), "pb": sp.Integer(-1), "pc": sp.Integer(1), "p_break": p_break, "ca": None if c_break else sp.Integer(1)}
            wrong = {k: (got.get(k), v) for k, v in want.items() if got.get(k) != v}
            chk.oblige("S-bind", "get_ls_list (p_break=%s, c_break=%s): selection rules receive the decay's own quantum numbers" % (p_break, c_break), not wrong)
            if wrong:
                k0 = sorted(wrong)[0]
                chk.violation("S-bind", fn.key, "binding:%s" % k0, "with p_break=%s, c_break=%s the selection rules receive %s = %s, the decay has %s: couplings are selected for another particle's quantum numbers (a mother with C != P gets the wrong list)" % (p_break, c_break, k0, wrong[k0][0], wrong[k0][1]), file=PAR, line=fn.lineno)
    # (S-opts) options of one decay mode do not leak into the mother's other modes
    chk.rule("S-opts", "get_decay interpreted twice for one mother particle that carries a decay_params table: the options of the first mode (l_list, p_break ...) and the production options of its daughters are handed to that decay only - the mother's decay_params table is unchanged afterwards and the second mode receives only its own options")
    gd = repo.fn(CORE + "::get_decay")
    seen = []
    hooks = {"allow_attr_store": True}
    for g in repo.func_by_name.get("get_decay_model", []):
        hooks[g.key] = lambda tr, args, kwargs, node: PyFunc(lambda core_, outs_, **kw: seen.append(dict(kw)) or ("decay", len(seen)))
    base = {"model": "default"}
    core = SelfObj(None, {"decay_params": dict(base)})
    d1 = SelfObj(None, {"production_params": {"has_ql": False}})
    d2 = SelfObj(None, {})
    try:
        tr = Translator(repo, hooks=dict(hooks, **{"builtin.getattr": None}), max_depth=2)
        tr.call_fn(gd, [core, [d1, d2]], {"l_list": [sp.Integer(0)], "p_break": True})
        tr.call_fn(gd, [core, [d2, d2]], {})
    except Unmodelled as e:
        raise AnalysisError("get_decay cannot be interpreted: %s" % e)
    ok = len(seen) == 2 and core.attrs["decay_params"] == base and seen[0].get("l_list") == [sp.Integer(0)] and seen[0].get("p_break") is True and seen[0].get("has_ql") is False and "l_list" not in seen[1] and "p_break" not in seen[1] and "has_ql" not in seen[1]
    chk.oblige("S-opts", "get_decay(A -> b c, l_list=[0], p_break=True) then get_decay(A -> c c): second mode options %s, mother's table %s" % (seen[1] if len(seen) > 1 else "?", core.attrs["decay_params"]), ok)
    if not ok:
        chk.violation("S-opts", gd.key, "leak", "after get_decay(A -> b c, l_list=[0], p_break=True) the mother's decay_params table is %s and the next mode of the same mother is built with the options %s: options of one decay mode (and production options of its daughters) leak into every later decay of the particle, so allowed couplings of those modes are dropped" % (core.attrs["decay_params"], seen[1] if len(seen) > 1 else seen), file=CORE, line=gd.lineno)


def run(repo, chk, tier):
    check_call_sites(repo, chk)
    chk.rule("S-enum", "GetA2BC_LS_list, interpreted as a whole on a grid of spins x parities (incl. unknown) x p_break x C-parity, returns the textbook list of (l, s): triangle rules in unit steps with both ends, l integer, parity and C-parity filters, each coupling once and in order")
    fn = repo.fn(PAR + "::GetA2BC_LS_list")
    if fn.params[:3] != ["ja", "jb", "jc"]:
        raise AnalysisError("GetA2BC_LS_list parameters changed: %s" % fn.params)
    half = sp.Rational(1, 2)
    spins = [k * half for k in range(0, 5 if tier != "thorough" else 9)]  # quick: 0..2, thorough: 0..4 (the range the property names)
    parities = list(itertools.product((1, -1), repeat=3)) + [(None, 1, 1), (1, None, -1), (-1, 1, None), (None, None, None)]
    hooks = {"builtin.isinstance": lambda tr, args, kwargs, n: isinstance(args[0], int) or bool(getattr(args[0], "is_Integer", False)), "allow_raise": True}
    tr = Translator(repo, hooks=hooks, max_depth=3)
    n, bad = 0, []
    for ja, jb, jc in itertools.product(spins, repeat=3):
        for pa, pb, pc in parities:
            for p_break in (False, True):
                cas = (None, 1, -1) if (jb + jc).is_Integer else (None,)
                for ca in cas:
                    conv = lambda v: None if v is None else sp.Integer(v)
                    try:
                        got = tr.call_fn(fn, [ja, jb, jc], {"pa": conv(pa), "pb": conv(pb), "pc": conv(pc), "p_break": p_break, "ca": conv(ca)})
                    except Raised as e:
                        got = "raises %s" % e
                    except Unmodelled as e:
                        raise AnalysisError("GetA2BC_LS_list not interpretable at (%s,%s,%s; %s,%s,%s; %s; %s): %s" % (ja, jb, jc, pa, pb, pc, p_break, ca, e))
                    want = reference(ja, jb, jc, pa, pb, pc, p_break, ca)
                    n += 1
                    g = [(int(a), sp.nsimplify(b)) for a, b in got] if isinstance(got, list) else got
                    if g != want and len(bad) < 5:
                        bad.append("ja=%s jb=%s jc=%s P=(%s,%s,%s) p_break=%s ca=%s: got %s, the selection rules give %s" % (ja, jb, jc, pa, pb, pc, p_break, ca, g, want))
                    elif g != want:
                        bad.append("")
    chk.oblige("S-enum", "GetA2BC_LS_list interpreted at %d grid points (spins <= %s): %d deviations from the textbook enumeration" % (n, spins[-1], len(bad)), not bad)
    if bad:
        chk.violation("S-enum", fn.key, "enumeration", "%d of %d grid points deviate; first: %s" % (len(bad), n, bad[0]), file=PAR, line=fn.lineno)
    if n < 1000:
        raise AnalysisError("S-enum: only %d grid points" % n)
    check_l_restriction(repo, chk)
    check_qr_selector(repo, chk, tier)
    # the coupling -> helicity map is built from cg_coef: exact values for integer and half-integer spins, negative
    # projections included (shared with C12); per-decay options must not leak from one decay to the next
    from .c12 import cg_sq
    from .c12_coef import check_cg_coef

    check_cg_coef(repo, chk, "quick", cg_sq)
    from ..cacheown import check_mutable_defaults

    check_mutable_defaults(repo, chk, ["tf_pwa/config_loader/decay_config.py", "tf_pwa/particle.py", "tf_pwa/amp/core.py"])
    chk.info("not decided: rank of the unselected LS->helicity map for spins above 2, ls_selector=weight, float-valued spins in the QR selector (run-time arithmetic), removal of chains without allowed couplings")
