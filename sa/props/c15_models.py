"""C15 clause (e): registered particle *models* (method-level kernels) equal their documented formulas.

The kernel-level clauses (c15_kernels) decide the module functions; this clause decides
that each registered model class wires its parameters, data keys and options into those
kernels as its docstring says: a swapped q/q0, mass/width, |q| vs |q0| key or a wrong
option branch is visible only here.  Each model's get_amp / get_ls_amp is translated with
a symbolic `self` (attributes bound from the table below) and compared, as an exact
identity, with the reference built from the documentation.
Domain: above threshold (all channel momenta real and positive), positive masses/widths.
"""
import sympy as sp

from ..model import AnalysisError
from ..sym import PyFunc, SelfObj, Translator, Unmodelled, equal
from .c15_kernels import ref_poly

BWF = "tf_pwa/breit_wigner.py::"


def check_models(repo, chk, tier):
    chk.rule("E6-model", "each registered particle model's amplitude method equals its documented formula (symbolic self; data keys |q|, |q0|, |q|2, |q0|2 bound to q, q0, q^2, q0^2)")
    m, m0, g0, q, q0, d = sp.symbols("m m0 g0 q q0 d", positive=True)
    Ls = (0, 1, 2) if tier == "quick" else (0, 1, 2, 3, 4)

    def coeff_hook(tr_, args, kwargs, n):
        L = int(args[0])
        zz = sp.Symbol("zz__")
        p = sp.Poly(ref_poly(L, zz), zz)
        return [p.coeff_monomial(zz ** (L - i)) for i in range(L + 1)]

    def gam_ref(L, dd=d):
        return g0 * (q / q0) ** (2 * L + 1) * (m0 / m) * ref_poly(L, (q0 * dd) ** 2) / ref_poly(L, (q * dd) ** 2)

    def bwr_ref(L, dd=d):
        return 1 / (m0 ** 2 - m ** 2 - sp.I * m0 * gam_ref(L, dd))

    bw_ref = 1 / (m0 ** 2 - m ** 2 - sp.I * m0 * g0)
    data = {"m": m}
    data_c = {"|q|": q, "|q0|": q0, "|q|2": q ** 2, "|q0|2": q0 ** 2}

    def oblige(text, got, want, where, construct, file):
        ok, detail = equal(sp.sympify(got), sp.sympify(want))
        if ok is None:
            raise AnalysisError("E6 normaliser too weak for %s: %s" % (text, detail))
        chk.oblige("E6-model", text, ok)
        if not ok:
            f = repo.fn_opt(where)
            chk.violation("E6-model", where, construct, "%s does not hold: %s" % (text, detail), file=file, line=f.lineno if f else None)

    def evaluate(ckey, method, attrs, args, hooks=None):
        cls = repo.cls(ckey)
        fn = cls.lookup(method)
        if fn is None:
            raise AnalysisError("anchor vanished: %s.%s" % (ckey, method))
        h = {BWF + "get_bprime_coeff": coeff_hook}
        h.update(hooks or {})
        h.setdefault("allow_attr_store", True)
        tr = Translator(repo, hooks=h, max_depth=8)
        so = SelfObj(cls, dict({"get_mass": PyFunc(lambda: m0), "get_width": PyFunc(lambda: g0), "decay": []}, **attrs))
        try:
            return fn, tr.call_fn(fn, args, self_obj=so)
        except Unmodelled as e:
            raise AnalysisError("%s.%s is not a single-path kernel under the stated bindings: %s" % (ckey, method, e))

    CORE, BASE, SLS, FL = "tf_pwa/amp/core.py", "tf_pwa/amp/base.py", "tf_pwa/amp/split_ls.py", "tf_pwa/amp/flatte.py"
    for L in Ls:
        Li = sp.Integer(L)
        common = {"bw_l": Li, "d": d, "width_norm": False}
        # the decay the resonance belongs to allows l = 1, 2 (an explicit bw_l, 0 included, must be used as given)
        dec_tok = SelfObj(None, {"get_l_list": PyFunc(lambda: [sp.Integer(1), sp.Integer(2)])})
        fn, v = evaluate(CORE + "::Particle", "get_amp", dict(common, running_width=True, decay=[dec_tok]), [data, data_c])
        oblige("model default/BWR (L=%d): get_amp == 1/(m0^2-m^2-i m0 Gamma(m))" % L, v, bwr_ref(L), fn.key, "BWR:L=%d" % L, CORE)
        fn, v = evaluate(BASE + "::ParticleBWR2", "get_amp", dict(common, running_width=True), [data, data_c])
        oblige("model BWR2 (L=%d): get_amp == 1/(m0^2-m^2-i m0 Gamma(m))" % L, v, bwr_ref(L), fn.key, "BWR2:L=%d" % L, BASE)
        fn, v = evaluate(BASE + "::ParticleBWR_normal", "get_amp", dict(common, running_width=True), [data, data_c])
        oblige("model BWR_normal (L=%d): get_amp == sqrt(m0 Gamma)/(...)" % L, v, sp.sqrt(m0 * gam_ref(L)) * bwr_ref(L), fn.key, "BWR_normal:L=%d" % L, BASE)
        fn, v = evaluate(SLS + "::ParticleBWRLS2", "get_ls_amp", {}, [m, [(Li, sp.Integer(0))], q ** 2, q0 ** 2])
        if not (isinstance(v, list) and len(v) == 1):
            raise AnalysisError("ParticleBWRLS2.get_ls_amp does not return one amplitude per (l, s)")
        oblige("model BWR_LS2 (l=%d): get_ls_amp[0] == 1/(m0^2-m^2-i m0 Gamma_l(m)) with d=3" % L, v[0], bwr_ref(L, sp.Integer(3)), fn.key, "BWR_LS2:L=%d" % L, SLS)
    # option branches of the default model
    common = {"bw_l": sp.Integer(1), "d": d}
    fn, v = evaluate(CORE + "::Particle", "get_amp", dict(common, running_width=False, width_norm=False), [data, data_c])
    oblige("model default with running_width=False == BW", v, bw_ref, fn.key, "fixed-width", CORE)
    fn, v = evaluate(CORE + "::Particle", "get_amp", dict(common, running_width=True, width_norm=True), [data, data_c])
    oblige("model default with width_norm=True == g0 * BWR", v, g0 * bwr_ref(1), fn.key, "width-norm", CORE)
    fn, v = evaluate(BASE + "::ParticleBW", "get_amp", {}, [data, data_c])
    oblige("model BW: get_amp == 1/(m0^2-m^2-i m0 g0)", v, bw_ref, fn.key, "BW", BASE)
    fn, v = evaluate(BASE + "::ParticleOne", "get_amp", {}, [data])
    oblige("model one: get_amp == 1", v, sp.Integer(1), fn.key, "one", BASE)
    a_, b_ = sp.symbols("a_ b_", real=True)
    fn, v = evaluate(BASE + "::ParticleExp", "get_amp", {"a": PyFunc(lambda: a_)}, [data])
    oblige("model exp: get_amp == exp(-|a| m)", v, sp.exp(-sp.Abs(a_) * m), fn.key, "exp", BASE)
    fn, v = evaluate(BASE + "::ParticleExpCom", "get_amp", {"a": PyFunc(lambda: a_), "b": PyFunc(lambda: b_)}, [data])
    oblige("model exp_com: get_amp == exp(-(a+ib) m^2)", v, sp.exp(-(a_ + sp.I * b_) * m ** 2), fn.key, "exp_com", BASE)

    # Flatte / FlatteC above all thresholds: channel momenta are positive atoms
    qa, qb, ga, gb = sp.symbols("qa qb ga gb", positive=True)
    ma, mb, mc, md = sp.symbols("ma mb mc md", positive=True)

    def mom_hook(tr_, args, kwargs, n):
        names_ = repo.fn(FL + "::cal_monentum").all_param_names()
        b_ = dict(zip(names_, args))
        b_.update(kwargs)
        first_daughter = b_.get(names_[1])
        if first_daughter == ma:
            return qa
        if first_daughter == mc:
            return qb
        raise Unmodelled("cal_monentum of unexpected channel")

    for ckey, sign, name in ((FL + "::ParticleFlatte", 1, "Flatte"), (FL + "::ParticleFlatteC", -1, "FlatteC")):
        cls = repo.cls(ckey)
        init = cls.lookup("__init__")
        # the class's own default im_sign
        dflt = None
        for c in cls.mro:
            f = c.methods.get("__init__")
            if f is not None and "im_sign" in f.defaults():
                import ast as _ast

                dv = f.defaults()["im_sign"]
                from ..model import const_value

                dflt = const_value(dv)
                break
        if dflt is None:
            raise AnalysisError("%s: default im_sign not found" % ckey)
        fn, v = evaluate(ckey, "get_amp", {"mass_list": [[ma, mb], [mc, md]], "g_value": [PyFunc(lambda: ga), PyFunc(lambda: gb)], "im_sign": sp.Integer(dflt)}, [data], hooks={FL + "::cal_monentum": mom_hook})
        want = 1 / (m0 ** 2 - m ** 2 + sign * sp.I * m0 * (ga * qa / m + gb * qb / m))
        oblige("model %s (default im_sign=%+d): get_amp == 1/(m0^2-m^2 %s i m0 sum g_i q_i/m)" % (name, dflt, "+" if sign > 0 else "-"), v, want, fn.key, name, FL)
        # below a channel threshold the channel momentum is imaginary (q = i k): the width term of that channel is real
        # and carries the same sign convention
        ka, kb = sp.symbols("ka kb", positive=True)
        for tag, q1, q2 in (("below the second threshold", qa, sp.I * kb), ("below both thresholds", sp.I * ka, sp.I * kb)):
            def mom_hook2(tr_, args, kwargs, n, _q1=q1, _q2=q2):
                names_ = repo.fn(FL + "::cal_monentum").all_param_names()
                b_ = dict(zip(names_, args))
                b_.update(kwargs)
                first_daughter = b_.get(names_[1])
                if first_daughter == ma:
                    return _q1
                if first_daughter == mc:
                    return _q2
                raise Unmodelled("cal_monentum of unexpected channel")

            fn, v = evaluate(ckey, "get_amp", {"mass_list": [[ma, mb], [mc, md]], "g_value": [PyFunc(lambda: ga), PyFunc(lambda: gb)], "im_sign": sp.Integer(dflt)}, [data], hooks={FL + "::cal_monentum": mom_hook2})
            want2 = 1 / (m0 ** 2 - m ** 2 + sign * sp.I * m0 * (ga * q1 / m + gb * q2 / m))
            oblige("model %s %s (q = i k): get_amp == 1/(m0^2-m^2 %s i m0 sum g_i q_i/m)" % (name, tag, "+" if sign > 0 else "-"), v, want2, fn.key, "%s:%s" % (name, tag.split()[1]), FL)

    # the channel momentum itself, on both sides of the threshold and of the pseudo-threshold: the documented case
    # split is on the sign of P = (m^2-(ma+mb)^2)(m^2-(ma-mb)^2) - real q for P > 0 (also below |ma-mb|), i|q| for P < 0
    cm = repo.fn(FL + "::cal_monentum")
    R_ = sp.Rational
    pts = [(R_(3, 2), "above the threshold"), (R_(1), "between pseudo-threshold and threshold"), (R_(4, 5), "below the pseudo-threshold"), (R_(1, 2), "below the pseudo-threshold")]
    tr_c = Translator(repo, where_policy=lambda cond, t: None, max_depth=2)
    for mv, where in pts:
        a_, b_ = R_(1), R_(1, 10)
        try:
            got = sp.sympify(tr_c.call_fn(cm, [mv, a_, b_]))
        except Unmodelled as e:
            raise AnalysisError("cal_monentum cannot be evaluated at m=%s: %s" % (mv, e))
        P = (mv ** 2 - (a_ + b_) ** 2) * (mv ** 2 - (a_ - b_) ** 2)
        want_q = sp.sqrt(sp.Abs(P)) / (2 * mv) * (1 if P > 0 else sp.I)
        oblige("cal_monentum(m=%s; 1, 1/10) %s: q = %s sqrt|P|/(2m)" % (mv, where, "" if P > 0 else "i"), got, want_q, cm.key, "flatte-q:%s" % mv, FL)
        cms = repo.fn_opt(FL + "::cal_monentum_sympy")
        if cms is not None:
            try:
                got_s = sp.sympify(tr_c.call_fn(cms, [mv, a_, b_]))
            except Unmodelled as e:
                raise AnalysisError("cal_monentum_sympy cannot be evaluated at m=%s: %s" % (mv, e))
            oblige("cal_monentum_sympy(m=%s; 1, 1/10) == cal_monentum (the pole search uses the same momentum as the fit)" % mv, got_s, want_q, cms.key, "flatte-q-sym:%s" % mv, FL)

    # BWR_LS: partial-width mixing.  R_i = g_i/(m0^2 - m^2 - i m0 g0 (rho/rho0) sum g_i^2), rho = 2q/m
    th = sp.Symbol("theta0", real=True)
    ls_list = [(sp.Integer(0), sp.Integer(1)), (sp.Integer(2), sp.Integer(1))]

    def bq2(L):
        return sp.sqrt(ref_poly(L, (q0 * sp.Integer(3)) ** 2) / ref_poly(L, (q * sp.Integer(3)) ** 2))

    gi = [sp.cos(th) * (q / q0) ** 0 * bq2(0), sp.sin(th) * (q / q0) ** 2 * bq2(2)]
    for fix in (True, False):
        fn, v = evaluate(SLS + "::ParticleBWRLS", "get_ls_amp", {"ls_list": ls_list, "theta": [PyFunc(lambda: th)], "fix_bug1": fix}, [m, ls_list, q ** 2, q0 ** 2, sp.Integer(3)])
        rho_ratio = (q / q0) * (m0 / m)
        den = m0 ** 2 - m ** 2 - sp.I * m0 * g0 * rho_ratio * (gi[0] ** 2 + gi[1] ** 2)
        if not (isinstance(v, list) and len(v) == 2):
            raise AnalysisError("ParticleBWRLS.get_ls_amp does not return one amplitude per partial wave")
        for k in range(2):
            text = "model BWR_LS (fix_bug1=%s) wave %d: R_i == g_i/(m0^2-m^2-i m0 g0 (rho/rho0) sum g^2), rho=2q/m" % (fix, k)
            if fix:
                oblige(text, v[k], gi[k] / den, fn.key, "BWR_LS:fixed:%d" % k, SLS)
            else:
                ok, detail = equal(sp.sympify(v[k]), gi[k] / den)
                # the default keeps the historical m/m0 factor; the documented rho/rho0 needs m0/m.
                den_old = m0 ** 2 - m ** 2 - sp.I * m0 * g0 * (q / q0) * (m / m0) * (gi[0] ** 2 + gi[1] ** 2)
                ok_old, _ = equal(sp.sympify(v[k]), gi[k] / den_old)
                # not counted as a proof obligation: the outcome is a (known) finding, not a discharged identity
                chk.instance("E6-model", text + " [default branch]: %s" % ("ok" if ok else "DEVIATES (m/m0 instead of m0/m)" if ok_old else "FAIL"))
                if not ok:
                    if ok_old:
                        chk.violation("E6-model", fn.key, "BWR_LS:default-mass-ratio",
                                      "with the default fix_bug1=False the running width uses m/m0 where the documented rho/rho0 = (q/q0)(m0/m) requires m0/m "
                                      "(the library keeps the old factor for backward compatibility and offers fix_bug1=True)", file=SLS, line=fn.lineno)
                    else:
                        chk.violation("E6-model", fn.key, "BWR_LS:default:%d" % k, "%s does not hold: %s" % (text, detail), file=SLS, line=fn.lineno)
    # BWR_LS with three partial waves (two mixing angles): numeric denominator == formula.BWR_LS_dom
    FORM = "tf_pwa/formula.py::"
    th0, th1 = sp.symbols("theta0 theta1", real=True)
    ls3 = [(sp.Integer(0), sp.Integer(1)), (sp.Integer(2), sp.Integer(1)), (sp.Integer(2), sp.Integer(2))]
    m1_, m2_ = sp.symbols("m1 m2", positive=True)

    def relp2_hook(tr_, args, kwargs, n):
        if args[0] == m:
            return q ** 2
        if args[0] == m0:
            return q0 ** 2
        raise Unmodelled("get_relative_p2 of unexpected argument")

    for fix in (True, False):
        fn, v = evaluate(SLS + "::ParticleBWRLS", "get_ls_amp_frac", {"ls_list": ls3, "theta": [PyFunc(lambda: th0), PyFunc(lambda: th1)], "fix_bug1": fix}, [m, ls3, q ** 2, q0 ** 2, sp.Integer(3)])
        if not (isinstance(v, tuple) and len(v) == 2):
            raise AnalysisError("ParticleBWRLS.get_ls_amp_frac does not return (denominator, partial widths)")
        dom_num, tg = v
        trf = Translator(repo, hooks={FORM + "get_relative_p2": relp2_hook, BWF + "get_bprime_coeff": coeff_hook}, max_depth=8)
        try:
            dom_sym = trf.call_fn(repo.fn(FORM + "BWR_LS_dom"), [m, m0, g0, [th0, th1], [sp.Integer(0), sp.Integer(2), sp.Integer(2)], m1_, m2_], {"d": sp.Integer(3), "fix_bug1": fix})
        except Unmodelled as e:
            raise AnalysisError("formula.BWR_LS_dom is not a single-path kernel: %s" % e)
        oblige("model BWR_LS, 3 waves (fix_bug1=%s): formula.BWR_LS_dom == numeric denominator" % fix, dom_sym, dom_num, FORM + "BWR_LS_dom", "BWR_LS_dom:3waves:%s" % fix, "tf_pwa/formula.py")
        # mixing weights are normalised: sum gamma_i^2 == 1
        if fix:
            so_cls = repo.cls(SLS + "::ParticleBWRLS")
            fnf, gam = evaluate(SLS + "::ParticleBWRLS", "factor_gamma", {"theta": [PyFunc(lambda: th0), PyFunc(lambda: th1)]}, [[0, 2, 2]])
            oblige("model BWR_LS: sum_i gamma_i^2 == 1 (3 waves)", sp.trigsimp(sum(x ** 2 for x in gam)), sp.Integer(1), fnf.key, "gamma-normalisation", SLS)
    chk.info("not decided at model level: BWR_below (effective-mass switch), MultiBWR (tensor stacking of coefficient variables), GS_rho, Kmatrix, interpolation models")
