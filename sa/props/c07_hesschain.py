"""C07 clause H-chain: value, gradient and Hessian assembled by BaseModel.nll_grad_hessian are one function's.

nll_grad_hessian builds  NLL = -L + sw F(I)  from the batched data term (L, dL, d2L) and normalisation integral
(I, dI, d2I) that sum_hessian returns, with F = ln (default) or the identity (extended likelihood), through the
model's own int_f / int_g / int_h.  The method is interpreted with sum_hessian as a probe (two parameters) for both
configurations; the returned gradient and Hessian must be the first and second derivative of the returned value:

    g_k  = -dL_k  + sw F'(I) dI_k
    h_kl = -d2L_kl + sw [ F''(I) dI_k dI_l + F'(I) d2I_kl ]"""
import numpy as np
import sympy as sp

from ..model import AnalysisError
from ..sym import Closure, PyFunc, SelfObj, Translator, Unmodelled, equal

MODEL = "tf_pwa/model/model.py"


def check_hessian_chain(repo, chk):
    chk.rule("H-chain", "BaseModel.nll_grad_hessian interpreted with sum_hessian as a probe (two parameters; data term L, dL, d2L and integral I, dI, d2I as free symbols) for the default (F = ln) and the extended (F = identity) likelihood, with the model's own int_f / int_g / int_h: value == -L + sw F(I), gradient == -dL + sw F'(I) dI, Hessian == -d2L + sw [F''(I) dI dI^T + F'(I) d2I]")
    bm = repo.cls(MODEL + "::BaseModel")
    fn = bm.methods.get("nll_grad_hessian")
    init = bm.methods.get("__init__")
    if fn is None or init is None:
        raise AnalysisError("anchor vanished: BaseModel.nll_grad_hessian / __init__")
    L, I = sp.symbols("L I", positive=True)
    dL = np.array(sp.symbols("dL1 dL2", real=True), dtype=object)
    dI = np.array(sp.symbols("dI1 dI2", real=True), dtype=object)
    d2L = np.array([[sp.Symbol("d2L%d%d" % (min(i, j), max(i, j)), real=True) for j in (1, 2)] for i in (1, 2)], dtype=object)
    d2I = np.array([[sp.Symbol("d2I%d%d" % (min(i, j), max(i, j)), real=True) for j in (1, 2)] for i in (1, 2)], dtype=object)
    w = np.array(sp.symbols("w1 w2", positive=True), dtype=object)
    v = np.array(sp.symbols("v1 v2 v3", positive=True), dtype=object)
    for extended in (False, True):
        # the model's own F, F', F'' as __init__ sets them up
        so = SelfObj(bm, {})
        h0 = {"allow_attr_store": True}
        for c_ in repo.classes_by_name.get("EvalLazy", []) if hasattr(repo, "classes_by_name") else []:
            h0[c_.key] = lambda tr, args, kwargs, node: [a for a in args if not (isinstance(a, SelfObj) and not a.attrs)][-1]
        if not any(k.endswith("::EvalLazy") for k in h0):
            h0["tf_pwa/data.py::EvalLazy"] = lambda tr, args, kwargs, node: [a for a in args if not (isinstance(a, SelfObj) and not a.attrs)][-1]
        tr0 = Translator(repo, hooks=h0, max_depth=1)
        sig = SelfObj(None, {"vm": "VM", "trainable_variables": ["a", "b"]})
        try:
            tr0.call_fn(init, [sig], {"resolution_size": sp.Integer(1), "extended": extended}, self_obj=so)
        except Unmodelled as e:
            raise AnalysisError("BaseModel.__init__ cannot be interpreted: %s" % e)
        for nm in ("int_f", "int_g", "int_h"):
            if nm not in so.attrs:
                raise AnalysisError("BaseModel.__init__ no longer sets self.%s" % nm)
        so.attrs["signal"] = sig
        so.attrs["resolution_size"] = sp.Integer(1)
        calls = []

        def sum_hess(tr, args, kwargs, node):
            calls.append(kwargs)
            names_ = [x.arg for x in node_args] if node_args else []
            bound_ = dict(zip(names_, args))
            bound_.update(kwargs)
            if bound_.get("trans") is not None and not (isinstance(bound_.get("trans"), Closure) and False):
                trans_given = "trans" in kwargs or (names_ and "trans" in names_ and names_.index("trans") < len(args))
            else:
                trans_given = False
            if trans_given:
                return (L, dL.copy(), d2L.copy())
            return (I, dI.copy(), d2I.copy())

        hooks = {"allow_attr_store": True, "allow_shape": True, "stack_as_array": True, "unary:log": lambda tr, a: sp.log(sp.sympify(a))}
        node_args = None
        for g in repo.func_by_name.get("sum_hessian", []):
            hooks[g.key] = sum_hess
            node_args = g.node.args.posonlyargs + g.node.args.args
        for g in repo.func_by_name.get("split_generator", []) + repo.func_by_name.get("data_split", []):
            hooks[g.key] = lambda tr, args, kwargs, node: args[0]
        for g in repo.func_by_name.get("data_shape", []):
            hooks[g.key] = lambda tr, args, kwargs, node: sp.Integer(len(args[0]["weight"]))
        tr = Translator(repo, hooks=hooks, max_depth=2)
        try:
            out = tr.call_fn(fn, [{"weight": w}, {"weight": v}], {"batch": sp.Integer(10)}, self_obj=so)
        except Unmodelled as e:
            raise AnalysisError("BaseModel.nll_grad_hessian cannot be interpreted (extended=%s): %s" % (extended, e))
        if not (isinstance(out, tuple) and len(out) == 3):
            raise AnalysisError("BaseModel.nll_grad_hessian no longer returns (nll, gradient, Hessian)")
        nll, g, h = out
        alpha = sum(w) / sum(x ** 2 for x in w)
        sw = alpha * sum(w)
        x = sp.Symbol("x", positive=True)
        F = x if extended else sp.log(x)
        F0, F1, F2 = F.subs(x, I), sp.diff(F, x).subs(x, I), sp.diff(F, x, 2).subs(x, I)
        want_v = -L + sw * F0
        want_g = [-dL[k] + sw * F1 * dI[k] for k in range(2)]
        want_h = [[-d2L[k, l] + sw * (F2 * dI[k] * dI[l] + F1 * d2I[k, l]) for l in range(2)] for k in range(2)]
        tag = "extended" if extended else "default"
        bad = []
        if equal(sp.sympify(nll), want_v)[0] is not True:
            bad.append("value %s, expected %s" % (nll, want_v))
        g = np.asarray(g, dtype=object).reshape(-1)
        if len(g) != 2 or any(equal(sp.sympify(g[k]), want_g[k])[0] is not True for k in range(2)):
            bad.append("gradient %s, expected %s" % (list(g), want_g))
        h = np.asarray(h, dtype=object)
        if h.shape != (2, 2) or any(equal(sp.sympify(h[k, l]), want_h[k][l])[0] is not True for k in range(2) for l in range(2)):
            bad.append("Hessian[0][1] %s, expected %s" % (h[0, 1] if h.shape == (2, 2) else h, want_h[0][1]))
        chk.oblige("H-chain", "%s likelihood: (value, gradient, Hessian) of nll_grad_hessian are -L + sw F(I) and its first and second derivatives" % tag, not bad)
        if bad:
            chk.violation("H-chain", fn.key, tag, "%s likelihood (F = %s): %s - the returned %s is not the derivative of the returned NLL, so Newton-type minimisers and the error matrix see another function" % (tag, F, bad[0], bad[0].split()[0]), file=MODEL, line=fn.lineno)
    chk.require_count("H-chain", 2)
