"""C11 clause F-own: HelicityAngle.find_variable returns the angles of each decay's OWN first daughter.

The data a decay group produces are keyed by the decay objects of the group's representative chain.  Decay equality
ignores the order of the daughters (BaseDecay.get_id sorts them), so a chain that spells a decay `A -> D + R` finds the
entry stored under `A -> R + D` - and must then read the angles of ITS first daughter (D), which is what build_data
will reconstruct, not those of the key's first daughter (R): the two differ by (theta, phi) -> (pi - theta, phi + pi).

find_variable is interpreted on a two-step chain whose data dictionary is keyed by equal decay tokens with the
daughters in the other order; both daughters carry angle entries with distinct symbols."""
import sympy as sp

from ..model import AnalysisError
from ..sym import PyFunc, SelfObj, Translator, Unmodelled
from .c14 import TokD, TokP

HA = "tf_pwa/data_trans/helicity_angle.py"


def check_find_variable(repo, chk):
    chk.rule("F-own", "HelicityAngle.find_variable interpreted on a two-step chain whose event dictionary is keyed by equal decay objects that list the daughters in the other order (decay equality ignores daughter order): the k-th polar / azimuthal variable is cos(beta) / alpha of the k-th decay's own first daughter - the one build_data reconstructs - and the masses are those of the chain's particles")
    cls = repo.cls(HA + "::HelicityAngle")
    fn = cls.methods.get("find_variable")
    if fn is None:
        raise AnalysisError("anchor vanished: HelicityAngle.find_variable")
    A, R, B, C, D = (TokP(x) for x in "ARBCD")
    own = [TokD(A, (D, R)), TokD(R, (C, B))]          # the chain handed to HelicityAngle
    keys = [TokD(A, (R, D)), TokD(R, (B, C))]         # the group's representative chain: same decays, other order
    if own[0] != keys[0] or hash(own[0]) != hash(keys[0]):
        raise AnalysisError("decay tokens with swapped daughters must compare equal")
    dcc = repo.cls("tf_pwa/particle.py::DecayChain")
    chain = SelfObj(dcc, {"chain": list(own), "top": A})
    chain.attrs["standard_topology"] = PyFunc(lambda: chain)
    chain.attrs["topology_map"] = PyFunc(lambda other=None: {p: p for p in (A, R, B, C, D)})
    ang = {}
    inner = {}
    for k_, o_ in zip(keys, own):
        inner[k_] = {}
        for p in k_._outs:
            ang[(o_, p)] = {"alpha": sp.Symbol("alpha_%s_%s" % (o_[0], p), real=True), "beta": sp.Symbol("beta_%s_%s" % (o_[0], p), real=True), "gamma": sp.Integer(0)}
            inner[k_][p] = {"ang": ang[(o_, p)]}
    dat = {"particle": {p: {"m": sp.Symbol("m_%s" % p, positive=True)} for p in (A, R, B, C, D)}, "decay": {chain: inner}}
    so = SelfObj(cls, {"decay_chain": chain})
    tr = Translator(repo, hooks={"allow_attr_store": True}, max_depth=3)
    try:
        out = tr.call_fn(fn, [dat], self_obj=so)
    except Unmodelled as e:
        raise AnalysisError("HelicityAngle.find_variable cannot be interpreted: %s" % e)
    if not (isinstance(out, tuple) and len(out) == 3):
        raise AnalysisError("find_variable no longer returns (masses, costheta, phi)")
    ms, ct, ph = out
    bad = []
    for k, o_ in enumerate(own):
        first = o_._outs[0]
        want_c, want_p = sp.cos(ang[(o_, first)]["beta"]), ang[(o_, first)]["alpha"]
        got_c = ct[k] if isinstance(ct, (list, tuple)) and len(ct) > k else None
        got_p = ph[k] if isinstance(ph, (list, tuple)) and len(ph) > k else None
        if got_c is None or sp.simplify(sp.sympify(got_c) - want_c) != 0:
            bad.append("cos(theta) of %r is %s, the angle of its own first daughter %s is %s" % (o_, got_c, first, want_c))
        if got_p is None or sp.simplify(sp.sympify(got_p) - want_p) != 0:
            bad.append("phi of %r is %s, the azimuth of its own first daughter %s is %s" % (o_, got_p, first, want_p))
    want_m = {p: dat["particle"][p]["m"] for p in (A, R, B, C, D)}
    if not (isinstance(ms, dict) and all(p in ms and sp.simplify(sp.sympify(ms[p]) - want_m[p]) == 0 for p in want_m)):
        bad.append("masses %s, expected %s" % (ms, want_m))
    chk.oblige("F-own", "find_variable on [A->D+R, R->C+B] with data keyed by [A->R+D, R->B+C]: own first daughters' angles, all five masses", not bad)
    for b_ in bad[:2]:
        chk.violation("F-own", fn.key, "own-daughter", b_ + ": build_data(*find_variable(data)) rebuilds a different event (theta -> pi - theta, phi -> phi + pi) whenever the group's representative chain lists the daughters in the other order", file=HA, line=fn.lineno)
