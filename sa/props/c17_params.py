"""C17 clause R-cover: AbsPDF.temp_params puts back every variable its body may have changed.

The context manager is entered for real (setup, body, cleanup) on a model whose manager holds one trainable and one
fixed variable; VarsManager.get / get_all_val / set / set_all are the library's own, interpreted, the variables are cells
that remember what was assigned to them.  The override handed to temp_params names the FIXED variable (a mass shift,
a fixed reference coupling - what fit_fractions(params=...) and the systematics helpers do): after the block, on normal
exit and on exception, every cell holds its old value."""
import ast

import sympy as sp

from ..model import AnalysisError
from ..sym import PyFunc, Raised, SelfObj, Translator, Unmodelled

AMP = "tf_pwa/amp/amp.py"
VARF = "tf_pwa/variable.py"


def check_temp_params_cover(repo, chk):
    chk.rule("R-cover", "AbsPDF.temp_params entered for real on a manager with a trainable variable a and a fixed variable b (the manager's own get / get_all_val / set / set_all interpreted, variables as cells): after `with amp.temp_params({a: .., b: ..})` - left normally or by an exception, entered plainly or inside a mask_params block that freezes a at its current value - both cells hold their old values (the snapshot covers every variable the override may name, not only the trainable ones, and the write-back does not consult the masked view)")
    cls = repo.cls(AMP + "::AbsPDF")
    vmc = repo.cls(VARF + "::VarsManager")
    if "temp_params" not in cls.methods:
        raise AnalysisError("anchor vanished: AbsPDF.temp_params")
    def generic(cond, tr_):
        # A0, A1, B0, B1 are generic, pairwise different values: a comparison between two of them is decided
        if isinstance(cond, sp.Ne) and cond.lhs.is_Symbol and cond.rhs.is_Symbol:
            return cond.lhs != cond.rhs
        if isinstance(cond, sp.Eq) and cond.lhs.is_Symbol and cond.rhs.is_Symbol:
            return cond.lhs == cond.rhs
        return None

    for leave, masked in (("normally", False), ("by an exception", False), ("normally", True)):
        cells = {}

        def cell(name, v0):
            box = {"v": v0}
            c = SelfObj(None, {"assign": PyFunc(lambda v, _b=box: _b.__setitem__("v", v)), "numpy": PyFunc(lambda _b=box: _b["v"]), "value": PyFunc(lambda _b=box: _b["v"])})
            cells[name] = box
            return c

        A0, B0, A1, B1 = sp.symbols("A0 B0 A1 B1", real=True)
        vm = SelfObj(vmc, {"variables": {"a": cell("a", A0), "b": cell("b", B0)}, "trainable_vars": ["a"], "bnd_dic": {}, "pre_trans": {}, "mask_vars": ({"a": A0} if masked else {}), "complex_vars": {}, "same_list": []})
        amp = SelfObj(cls, {"vm": vm})
        body = "raise RuntimeError('x')" if leave != "normally" else "marker = 1"
        stmt = ast.parse("with amp.temp_params(override):\n    %s" % body).body[0]
        tr = Translator(repo, hooks={"enter_contextmanagers": True, "allow_attr_store": True, "allow_raise": True, "builtin.type": None}, where_policy=generic, max_depth=6)
        env = {"amp": amp, "override": {"a": A1, "b": B1}}
        try:
            tr.exec_stmt(stmt, env, cls.mod, 0)
        except Raised:
            pass
        except Unmodelled as e:
            raise AnalysisError("AbsPDF.temp_params cannot be interpreted (%s%s): %s" % (leave, ", inside a mask" if masked else "", e))
        got = {k: b["v"] for k, b in cells.items()}
        ok = got == {"a": A0, "b": B0}
        if masked:
            leave = leave + ", entered inside mask_params({a: <its current value>})"
        chk.oblige("R-cover", "temp_params({a, b}) left %s: variables back at %s" % (leave, got), ok)
        if not ok:
            chk.violation("R-cover", cls.methods["temp_params"].key, "uncovered:%s%s" % (leave.split(",")[0].split()[-1], ":masked" if masked else ""), "after `with amp.temp_params({a: A1, b: B1})` left %s the variables hold %s, they held {a: A0, b: B0}: a variable the block changed is not put back (the snapshot / the write-back does not cover it), so every later density / fit fraction is computed with the temporary value" % (leave, got), file=AMP, line=cls.methods["temp_params"].lineno)
