"""C02 seed-driven clauses on the alignment-reference bookkeeping in tf_pwa/cal_angle.py.

  R-ref    aligned_angle_ref_rule1 records, for each final particle, the reference chain twice
           (set_x[i] = (chain, ...) and ref_matrix[i] = chain) and reads the reference data from
           decay_data[chain]: the three must name the same chain, otherwise the chain that is
           skipped as "the reference" and the chain whose rotation/boost matrices are the alignment
           target differ (density then depends on the order of the chains)
  R-carry  a loop-carried range offset (`bias -= pi` per daughter in cal_helicity_angle) is not
           re-initialised inside the loop that carries it (a dead update: the second daughter's
           azimuth is no longer tied to the first one's, which flips the sign of spin-1/2 rotations)
"""
import ast

from ..model import AnalysisError, norm_text, parent_map, walk_local

CAL = "tf_pwa/cal_angle.py"


def _ref_by_interpretation(repo, chk, fn):
    import sympy as sp

    from ..sym import SelfObj, Translator, Unmodelled

    class _T(str):
        tok_attrs = None

    def tok(name, **attrs):
        t = _T(name)
        t.tok_attrs = attrs
        return t

    def world(spec):
        """spec: list of chains, each a list of (core, [outs])"""
        parts = {}

        def P(n):
            return parts.setdefault(n, _T(n))
        chains = []
        for ds in spec:
            chains.append(tuple(tok("%s->%s" % (c, "+".join(o)), core=P(c), outs=[P(x) for x in o]) for c, o in ds))
        return parts, chains

    worlds = [
        ("every particle from a top decay", [[("A", ["R0", "D"]), ("R0", ["B", "C"])], [("A", ["R1", "C"]), ("R1", ["B", "D"])], [("A", ["R2", "B"]), ("R2", ["C", "D"])]], ["B", "C", "D"]),
        ("particles no top decay emits", [[("A", ["R1", "R2"]), ("R1", ["B", "C"]), ("R2", ["D", "E"])], [("A", ["R3", "B"]), ("R3", ["R4", "C"]), ("R4", ["D", "E"])]], ["B", "C", "D", "E"]),
    ]
    n = 0
    for label, spec, finals in worlds:
        parts, chains = world(spec)
        outs = [parts[x] for x in finals]
        grp = SelfObj(None, {"top": parts["A"], "outs": list(outs)})
        decay_data = {}
        for k, ch in enumerate(chains):
            entry = {"b_matrix": {p: ("b", k, str(p)) for p in outs}, "r_matrix": {p: ("r", k, str(p)) for p in outs}}
            for d in ch:
                entry[d] = {p: ("frame", k, str(p)) for p in d.tok_attrs["outs"]}
            decay_data[ch] = entry
        tr = Translator(repo, hooks={"allow_attr_store": True}, max_depth=2)
        try:
            out = tr.call_fn(fn, [grp, list(chains), decay_data, {}])
        except Unmodelled as e:
            raise AnalysisError("aligned_angle_ref_rule1 cannot be interpreted (%s): %s" % (label, e))
        if not (isinstance(out, tuple) and len(out) == 2 and isinstance(out[0], dict) and isinstance(out[1], dict)):
            raise AnalysisError("aligned_angle_ref_rule1 no longer returns (set_x, reference matrices)")
        set_x, refm = out
        bad = None
        for p in outs:
            want = next((k for k, ch in enumerate(chains) if any(d.tok_attrs["core"] == parts["A"] and p in d.tok_attrs["outs"] for d in ch)), 0)
            sx = set_x.get(p)
            rm = refm.get(p)
            got = (chains.index(sx[0]) if isinstance(sx, tuple) and sx and sx[0] in chains else None, sx[1] if isinstance(sx, tuple) and len(sx) > 1 else None, rm.get("b_matrix") if isinstance(rm, dict) else None, rm.get("r_matrix") if isinstance(rm, dict) else None)
            exp = (want, ("frame", want, str(p)), ("b", want, str(p)), ("r", want, str(p)))
            if got != exp and bad is None:
                bad = "particle %s: set_x names chain %s with the frame %s, the reference matrices are %s / %s; expected chain %d throughout" % (p, got[0], got[1], got[2], got[3], want)
        n += 1
        chk.oblige("R-ref", "aligned_angle_ref_rule1 (%s): frame and reference matrices of every final particle come from one chain, the expected one" % label, bad is None)
        if bad:
            chk.violation("R-ref", fn.key, "world%d" % n, "%s - %s: the alignment rotation is then built from the frame of one chain and the boost / rotation matrix of another, so the density depends on the order of the chains" % (label, bad), file=CAL, line=fn.lineno)


def check_ref(repo, chk):
    chk.rule("R-ref", "aligned_angle_ref_rule1 interpreted on two groups of chains (every final particle emitted by the top decay of some chain; particles that no top decay emits) with the per-chain data as probes: for every final particle the reference frame in set_x and the reference matrices come from ONE chain - the first chain whose top decay emits the particle, else the first chain")
    chk.rule("R-carry", "in tf_pwa/cal_angle.py no augmented update of a local inside a for loop is preceded, in the same loop body, by a plain re-initialisation of that local (the carried value would be dead)")
    fn = repo.fn(CAL + "::aligned_angle_ref_rule1")
    _ref_by_interpretation(repo, chk, fn)
    # loop-carried updates
    m = repo.mod(CAL)
    n_aug = 0
    for f in m.funcs.values():
        pmf = parent_map(f.node)
        for n in walk_local(f.node):
            if not (isinstance(n, ast.AugAssign) and isinstance(n.target, ast.Name)):
                continue
            # innermost enclosing for loop
            cur, loop = n, None
            while cur in pmf:
                cur = pmf[cur]
                if isinstance(cur, (ast.For, ast.While)):
                    loop = cur
                    break
                if isinstance(cur, (ast.FunctionDef, ast.Lambda)):
                    break
            if loop is None:
                continue
            n_aug += 1
            name = n.target.id
            killed = None
            for st in loop.body:
                if any(x is n for x in ast.walk(st)):
                    break
                if isinstance(st, ast.Assign) and any(isinstance(t, ast.Name) and t.id == name for t in st.targets):
                    killed = st
            # information only: whether an update is meant to be carried is decided below, by interpreting the daughter
            # loop (a per-iteration accumulator such as `r *= ...` is re-initialised on purpose)
            chk.instance("R-carry", "%s: `%s` updates `%s` inside a loop; re-initialised earlier in the same iteration: %s" % (f.key, norm_text(n), name, killed is not None), nontrivial=False)
    # the offset in cal_helicity_angle specifically: the k-th daughter's azimuth is wrapped into [-(k+1) pi, -(k+1) pi + 2 pi)
    # decided by interpreting the statements of the daughter loop that concern `bias` and ang["alpha"]
    import sympy as sp

    from ..sym import Translator, Unmodelled, equal

    h = repo.fn(CAL + "::cal_helicity_angle")
    def _stores_alpha(loop_):
        return any(isinstance(x, ast.Assign) and isinstance(x.targets[0], ast.Subscript) and isinstance(x.targets[0].slice, ast.Constant) and x.targets[0].slice.value == "alpha" for x in ast.walk(loop_))

    loops = [n for n in walk_local(h.node) if isinstance(n, ast.For) and norm_text(n.iter).endswith(".outs") and _stores_alpha(n)]
    if not loops:
        raise AnalysisError("cal_helicity_angle: daughter loop with a carried offset not found")
    loop = loops[0]
    pmh = parent_map(h.node)
    rz_args = []
    su2 = repo.cls("tf_pwa/angle.py::SU2M")
    hooks_ = {"binop:Mod": lambda tr_, a, b: sp.Mod(a, b)}
    if "Rotation_z" in su2.methods and "Rotation_y" in su2.methods:
        hooks_[su2.methods["Rotation_z"].key] = lambda tr_, a_, k_, n_: (rz_args.append(a_[-1] if a_ else k_.get("alpha")), sp.Symbol("Rz%d" % len(rz_args), commutative=False))[1]
        hooks_[su2.methods["Rotation_y"].key] = lambda tr_, a_, k_, n_: sp.Symbol("Ry", commutative=False)
    tr = Translator(repo, hooks=hooks_, max_depth=1)
    env = {}

    def try_exec(st):
        if isinstance(st, (ast.Assign, ast.AugAssign)) and isinstance(st.targets[0] if isinstance(st, ast.Assign) else st.target, ast.Name):
            name = (st.targets[0] if isinstance(st, ast.Assign) else st.target).id
            try:
                tr.exec_stmt(st, env, h.mod, 0)
            except Exception:
                env.pop(name, None)

    # straight-line statements of the enclosing blocks before the loop (bias = -np.pi, two_pi = 2 * np.pi, ...)
    chain, cur = [], loop
    while cur in pmh and not isinstance(pmh[cur], (ast.FunctionDef,)):
        chain.append(cur)
        cur = pmh[cur]
    chain.append(cur)
    for node in reversed(chain):
        par = pmh.get(node)
        for fld in ("body", "orelse"):
            blk = getattr(par, fld, None) if par is not None else None
            if isinstance(blk, list) and node in blk:
                for st in blk[: blk.index(node)]:
                    try_exec(st)
    got = []
    rz_seen = []
    for k in range(2):
        A = sp.Symbol("A%d" % k, real=True)
        env["ang"] = {"alpha": A, "beta": sp.Symbol("B%d" % k), "gamma": sp.Integer(0)}
        for st in loop.body:
            if isinstance(st, ast.Assign) and isinstance(st.targets[0], ast.Subscript) and norm_text(st.targets[0].value) == "ang" and norm_text(st.targets[0].slice) in ("'alpha'", '"alpha"'):
                try:
                    tr.exec_stmt(st, env, h.mod, 0)
                except Unmodelled as e:
                    raise AnalysisError("cal_helicity_angle: wrap statement `%s` not interpretable: %s" % (norm_text(st), e))
            else:
                try_exec(st)
        got.append((A, env["ang"]["alpha"]))
        rz_seen.append(list(rz_args))
        del rz_args[:]
    ok = True
    detail = []
    for k, (A, val) in enumerate(got):
        lo = -(k + 1) * sp.pi
        want = sp.Mod(A - lo, 2 * sp.pi) + lo
        same = sp.simplify(sp.sympify(val) - want) == 0 or all(abs(complex(sp.N((sp.sympify(val) - want).subs(A, x)))) < 1e-12 for x in (sp.Rational(-29, 10), sp.Rational(-1, 3), sp.Rational(1, 7), sp.Rational(31, 10), sp.Rational(-61, 10), sp.Rational(5)))
        detail.append("daughter %d: alpha -> %s" % (k, val))
        ok = ok and bool(same)
    # the SU(2) rotation of the daughter must be built from the same (wrapped) azimuth that is stored: alpha and
    # alpha - 2 pi differ by a sign in SU(2), which half-integer spins see
    pts = (sp.Rational(-29, 10), sp.Rational(-1, 3), sp.Rational(1, 7), sp.Rational(31, 10), sp.Rational(-61, 10), sp.Rational(5))
    for k, (A, val) in enumerate(got):
        seen_k = rz_seen[k] if k < len(rz_seen) else []
        if not seen_k:
            chk.info("cal_helicity_angle: no SU2M.Rotation_z call met in the daughter loop (daughter %d); the rotation / stored-angle agreement is not decided" % k)
            continue
        for a_rz in seen_k:
            same = all(abs(complex(sp.N((sp.sympify(a_rz) - sp.sympify(val)).subs(A, x)))) < 1e-12 for x in pts)
            chk.instance("R-carry", "cal_helicity_angle daughter %d: SU2M.Rotation_z is given the stored (wrapped) azimuth: %s" % (k, same))
            if not same:
                chk.violation("R-carry", h.key, "rotation-angle:%d" % k, "daughter %d: the rotation matrix is built with alpha = %s but the stored helicity angle is %s: the two differ by a multiple of 2 pi for some events, i.e. by a sign of the SU(2) element (half-integer spins: alignment sign no longer cancels)" % (k, a_rz, val), file=CAL, line=loop.lineno)
    chk.instance("R-carry", "cal_helicity_angle: alpha of daughter k is wrapped into [-(k+1) pi, -(k+1) pi + 2 pi) (%s): %s" % ("; ".join(detail), ok))
    if not ok:
        chk.violation("R-carry", h.key, "bias-wrap", "the azimuth range bookkeeping changed: %s; expected (alpha + (k+1) pi) mod 2 pi - (k+1) pi for daughter k = 0, 1" % "; ".join(detail), file=CAL, line=loop.lineno)
