"""C02 seed-driven clauses on the alignment-reference bookkeeping in tf_pwa/cal_angle.py.

  R-ref    aligned_angle_ref_rule1 records, for each final particle, the reference chain twice
           (set_x[i] = (chain, ...) and ref_matrix[i] = chain) and reads the reference data from
           decay_data[chain]: the three must name the same chain, otherwise the chain that is
           skipped as "the reference" and the chain whose rotation/boost matrices are the alignment
           target differ (density then depends on the order of the chains)
  R-carry  a loop-carried range offset (`bias -= pi` per daughter in cal_helicity_angle) is not
           re-initialised inside the loop that carries it (a dead update: the second daughter's
           azimuth is no longer tied to the first one's, which flips the sign of spin-1/2 rotations)
"""
import ast

from ..model import AnalysisError, norm_text, parent_map, walk_local

CAL = "tf_pwa/cal_angle.py"


def check_ref(repo, chk):
    chk.rule("R-ref", "in aligned_angle_ref_rule1 the chain stored in set_x[i], the chain stored in ref_matrix[i] and the chain indexing decay_data are the same expression in every block")
    chk.rule("R-carry", "in tf_pwa/cal_angle.py no augmented update of a local inside a for loop is preceded, in the same loop body, by a plain re-initialisation of that local (the carried value would be dead)")
    fn = repo.fn(CAL + "::aligned_angle_ref_rule1")
    pm = parent_map(fn.node)
    stores_x = [n for n in walk_local(fn.node) if isinstance(n, ast.Assign) and isinstance(n.targets[0], ast.Subscript) and norm_text(n.targets[0].value) == "set_x"]
    n_blocks = 0
    has_ref_matrix = any(isinstance(n, ast.Assign) and isinstance(n.targets[0], ast.Subscript) and norm_text(n.targets[0].value) == "ref_matrix" for n in walk_local(fn.node))
    for sx in stores_x:
        block = pm[sx].body if hasattr(pm[sx], "body") and sx in pm[sx].body else None
        if block is None:
            for fld in ("orelse", "finalbody"):
                if sx in getattr(pm[sx], fld, []):
                    block = getattr(pm[sx], fld)
        if block is None or not isinstance(sx.value, ast.Tuple):
            continue
        key = norm_text(sx.targets[0].slice)
        chain = norm_text(sx.value.elts[0])
        rm = [n for n in block if isinstance(n, ast.Assign) and isinstance(n.targets[0], ast.Subscript) and norm_text(n.targets[0].value) == "ref_matrix" and norm_text(n.targets[0].slice) == key]
        dd = [n for n in block if isinstance(n, ast.Assign) and isinstance(n.value, ast.Subscript) and isinstance(n.value.value, ast.Subscript) and norm_text(n.value.value.value) == "decay_data"]
        n_blocks += 1
        ref = norm_text(rm[0].value) if rm else None
        src = norm_text(dd[0].value.value.slice) if dd else None
        # the second bookkeeping dict is optional (the chain can be read back from set_x[i][0]); if the function keeps
        # one, every block that records a reference must fill it with the same chain
        ok = (ref == chain and bool(rm) if has_ref_matrix else True) and (src is None or src == chain)
        chk.instance("R-ref", "aligned_angle_ref_rule1: set_x[%s] chain=%s, ref_matrix[%s]=%s, decay_data[%s]: %s" % (key, chain, key, ref, src, ok))
        if not ok:
            chk.violation("R-ref", fn.key, "block%d" % n_blocks, "the reference recorded for particle `%s` is inconsistent: set_x uses chain `%s`, ref_matrix uses `%s`, reference data come from decay_data[%s]" % (key, chain, ref, src), file=CAL, line=sx.lineno)
    if n_blocks < 2:
        raise AnalysisError("aligned_angle_ref_rule1: fewer than 2 reference-recording blocks found")
    # loop-carried updates
    m = repo.mod(CAL)
    n_aug = 0
    for f in m.funcs.values():
        pmf = parent_map(f.node)
        for n in walk_local(f.node):
            if not (isinstance(n, ast.AugAssign) and isinstance(n.target, ast.Name)):
                continue
            # innermost enclosing for loop
            cur, loop = n, None
            while cur in pmf:
                cur = pmf[cur]
                if isinstance(cur, (ast.For, ast.While)):
                    loop = cur
                    break
                if isinstance(cur, (ast.FunctionDef, ast.Lambda)):
                    break
            if loop is None:
                continue
            n_aug += 1
            name = n.target.id
            killed = None
            for st in loop.body:
                if any(x is n for x in ast.walk(st)):
                    break
                if isinstance(st, ast.Assign) and any(isinstance(t, ast.Name) and t.id == name for t in st.targets):
                    killed = st
            # information only: whether an update is meant to be carried is decided below, by interpreting the daughter
            # loop (a per-iteration accumulator such as `r *= ...` is re-initialised on purpose)
            chk.instance("R-carry", "%s: `%s` updates `%s` inside a loop; re-initialised earlier in the same iteration: %s" % (f.key, norm_text(n), name, killed is not None), nontrivial=False)
    # the offset in cal_helicity_angle specifically: the k-th daughter's azimuth is wrapped into [-(k+1) pi, -(k+1) pi + 2 pi)
    # decided by interpreting the statements of the daughter loop that concern `bias` and ang["alpha"]
    import sympy as sp

    from ..sym import Translator, Unmodelled, equal

    h = repo.fn(CAL + "::cal_helicity_angle")
    def _stores_alpha(loop_):
        return any(isinstance(x, ast.Assign) and isinstance(x.targets[0], ast.Subscript) and isinstance(x.targets[0].slice, ast.Constant) and x.targets[0].slice.value == "alpha" for x in ast.walk(loop_))

    loops = [n for n in walk_local(h.node) if isinstance(n, ast.For) and norm_text(n.iter).endswith(".outs") and _stores_alpha(n)]
    if not loops:
        raise AnalysisError("cal_helicity_angle: daughter loop with a carried offset not found")
    loop = loops[0]
    pmh = parent_map(h.node)
    rz_args = []
    su2 = repo.cls("tf_pwa/angle.py::SU2M")
    hooks_ = {"binop:Mod": lambda tr_, a, b: sp.Mod(a, b)}
    if "Rotation_z" in su2.methods and "Rotation_y" in su2.methods:
        hooks_[su2.methods["Rotation_z"].key] = lambda tr_, a_, k_, n_: (rz_args.append(a_[-1] if a_ else k_.get("alpha")), sp.Symbol("Rz%d" % len(rz_args), commutative=False))[1]
        hooks_[su2.methods["Rotation_y"].key] = lambda tr_, a_, k_, n_: sp.Symbol("Ry", commutative=False)
    tr = Translator(repo, hooks=hooks_, max_depth=1)
    env = {}

    def try_exec(st):
        if isinstance(st, (ast.Assign, ast.AugAssign)) and isinstance(st.targets[0] if isinstance(st, ast.Assign) else st.target, ast.Name):
            name = (st.targets[0] if isinstance(st, ast.Assign) else st.target).id
            try:
                tr.exec_stmt(st, env, h.mod, 0)
            except Exception:
                env.pop(name, None)

    # straight-line statements of the enclosing blocks before the loop (bias = -np.pi, two_pi = 2 * np.pi, ...)
    chain, cur = [], loop
    while cur in pmh and not isinstance(pmh[cur], (ast.FunctionDef,)):
        chain.append(cur)
        cur = pmh[cur]
    chain.append(cur)
    for node in reversed(chain):
        par = pmh.get(node)
        for fld in ("body", "orelse"):
            blk = getattr(par, fld, None) if par is not None else None
            if isinstance(blk, list) and node in blk:
                for st in blk[: blk.index(node)]:
                    try_exec(st)
    got = []
    rz_seen = []
    for k in range(2):
        A = sp.Symbol("A%d" % k, real=True)
        env["ang"] = {"alpha": A, "beta": sp.Symbol("B%d" % k), "gamma": sp.Integer(0)}
        for st in loop.body:
            if isinstance(st, ast.Assign) and isinstance(st.targets[0], ast.Subscript) and norm_text(st.targets[0].value) == "ang" and norm_text(st.targets[0].slice) in ("'alpha'", '"alpha"'):
                try:
                    tr.exec_stmt(st, env, h.mod, 0)
                except Unmodelled as e:
                    raise AnalysisError("cal_helicity_angle: wrap statement `%s` not interpretable: %s" % (norm_text(st), e))
            else:
                try_exec(st)
        got.append((A, env["ang"]["alpha"]))
        rz_seen.append(list(rz_args))
        del rz_args[:]
    ok = True
    detail = []
    for k, (A, val) in enumerate(got):
        lo = -(k + 1) * sp.pi
        want = sp.Mod(A - lo, 2 * sp.pi) + lo
        same = sp.simplify(sp.sympify(val) - want) == 0 or all(abs(complex(sp.N((sp.sympify(val) - want).subs(A, x)))) < 1e-12 for x in (sp.Rational(-29, 10), sp.Rational(-1, 3), sp.Rational(1, 7), sp.Rational(31, 10), sp.Rational(-61, 10), sp.Rational(5)))
        detail.append("daughter %d: alpha -> %s" % (k, val))
        ok = ok and bool(same)
    # the SU(2) rotation of the daughter must be built from the same (wrapped) azimuth that is stored: alpha and
    # alpha - 2 pi differ by a sign in SU(2), which half-integer spins see
    pts = (sp.Rational(-29, 10), sp.Rational(-1, 3), sp.Rational(1, 7), sp.Rational(31, 10), sp.Rational(-61, 10), sp.Rational(5))
    for k, (A, val) in enumerate(got):
        seen_k = rz_seen[k] if k < len(rz_seen) else []
        if not seen_k:
            chk.info("cal_helicity_angle: no SU2M.Rotation_z call met in the daughter loop (daughter %d); the rotation / stored-angle agreement is not decided" % k)
            continue
        for a_rz in seen_k:
            same = all(abs(complex(sp.N((sp.sympify(a_rz) - sp.sympify(val)).subs(A, x)))) < 1e-12 for x in pts)
            chk.instance("R-carry", "cal_helicity_angle daughter %d: SU2M.Rotation_z is given the stored (wrapped) azimuth: %s" % (k, same))
            if not same:
                chk.violation("R-carry", h.key, "rotation-angle:%d" % k, "daughter %d: the rotation matrix is built with alpha = %s but the stored helicity angle is %s: the two differ by a multiple of 2 pi for some events, i.e. by a sign of the SU(2) element (half-integer spins: alignment sign no longer cancels)" % (k, a_rz, val), file=CAL, line=loop.lineno)
    chk.instance("R-carry", "cal_helicity_angle: alpha of daughter k is wrapped into [-(k+1) pi, -(k+1) pi + 2 pi) (%s): %s" % ("; ".join(detail), ok))
    if not ok:
        chk.violation("R-carry", h.key, "bias-wrap", "the azimuth range bookkeeping changed: %s; expected (alpha + (k+1) pi) mod 2 pi - (k+1) pi for daughter k = 0, 1" % "; ".join(detail), file=CAL, line=loop.lineno)
