"""C02 seed-driven clauses on the alignment-reference bookkeeping in tf_pwa/cal_angle.py.

  R-ref    aligned_angle_ref_rule1 records, for each final particle, the reference chain twice
           (set_x[i] = (chain, ...) and ref_matrix[i] = chain) and reads the reference data from
           decay_data[chain]: the three must name the same chain, otherwise the chain that is
           skipped as "the reference" and the chain whose rotation/boost matrices are the alignment
           target differ (density then depends on the order of the chains)
  R-carry  a loop-carried range offset (`bias -= pi` per daughter in cal_helicity_angle) is not
           re-initialised inside the loop that carries it (a dead update: the second daughter's
           azimuth is no longer tied to the first one's, which flips the sign of spin-1/2 rotations)
"""
import ast

from ..model import AnalysisError, norm_text, parent_map, walk_local

CAL = "tf_pwa/cal_angle.py"


def check_ref(repo, chk):
    chk.rule("R-ref", "in aligned_angle_ref_rule1 the chain stored in set_x[i], the chain stored in ref_matrix[i] and the chain indexing decay_data are the same expression in every block")
    chk.rule("R-carry", "in tf_pwa/cal_angle.py no augmented update of a local inside a for loop is preceded, in the same loop body, by a plain re-initialisation of that local (the carried value would be dead)")
    fn = repo.fn(CAL + "::aligned_angle_ref_rule1")
    pm = parent_map(fn.node)
    stores_x = [n for n in walk_local(fn.node) if isinstance(n, ast.Assign) and isinstance(n.targets[0], ast.Subscript) and norm_text(n.targets[0].value) == "set_x"]
    n_blocks = 0
    for sx in stores_x:
        block = pm[sx].body if hasattr(pm[sx], "body") and sx in pm[sx].body else None
        if block is None:
            for fld in ("orelse", "finalbody"):
                if sx in getattr(pm[sx], fld, []):
                    block = getattr(pm[sx], fld)
        if block is None or not isinstance(sx.value, ast.Tuple):
            continue
        key = norm_text(sx.targets[0].slice)
        chain = norm_text(sx.value.elts[0])
        rm = [n for n in block if isinstance(n, ast.Assign) and isinstance(n.targets[0], ast.Subscript) and norm_text(n.targets[0].value) == "ref_matrix" and norm_text(n.targets[0].slice) == key]
        dd = [n for n in block if isinstance(n, ast.Assign) and isinstance(n.value, ast.Subscript) and isinstance(n.value.value, ast.Subscript) and norm_text(n.value.value.value) == "decay_data"]
        n_blocks += 1
        ref = norm_text(rm[0].value) if rm else None
        src = norm_text(dd[0].value.value.slice) if dd else None
        ok = ref == chain and (src is None or src == chain) and bool(rm)
        chk.instance("R-ref", "aligned_angle_ref_rule1: set_x[%s] chain=%s, ref_matrix[%s]=%s, decay_data[%s]: %s" % (key, chain, key, ref, src, ok))
        if not ok:
            chk.violation("R-ref", fn.key, "block%d" % n_blocks, "the reference recorded for particle `%s` is inconsistent: set_x uses chain `%s`, ref_matrix uses `%s`, reference data come from decay_data[%s]" % (key, chain, ref, src), file=CAL, line=sx.lineno)
    if n_blocks < 2:
        raise AnalysisError("aligned_angle_ref_rule1: fewer than 2 reference-recording blocks found")
    # loop-carried updates
    m = repo.mod(CAL)
    n_aug = 0
    for f in m.funcs.values():
        pmf = parent_map(f.node)
        for n in walk_local(f.node):
            if not (isinstance(n, ast.AugAssign) and isinstance(n.target, ast.Name)):
                continue
            # innermost enclosing for loop
            cur, loop = n, None
            while cur in pmf:
                cur = pmf[cur]
                if isinstance(cur, (ast.For, ast.While)):
                    loop = cur
                    break
                if isinstance(cur, (ast.FunctionDef, ast.Lambda)):
                    break
            if loop is None:
                continue
            n_aug += 1
            name = n.target.id
            killed = None
            for st in loop.body:
                if any(x is n for x in ast.walk(st)):
                    break
                if isinstance(st, ast.Assign) and any(isinstance(t, ast.Name) and t.id == name for t in st.targets):
                    killed = st
            chk.instance("R-carry", "%s: `%s` carries `%s` across iterations of the loop at its level: %s" % (f.key, norm_text(n), name, killed is None))
            if killed is not None:
                chk.violation("R-carry", f.key, "carry:%s" % name, "`%s` is re-initialised by `%s` at the top of every iteration, so the update `%s` never reaches the next iteration" % (name, norm_text(killed), norm_text(n)), file=CAL, line=killed.lineno)
    if n_aug < 1:
        raise AnalysisError("no loop-carried update found in tf_pwa/cal_angle.py (the `bias -= pi` offset vanished)")
    # the offset in cal_helicity_angle specifically: initialised to -pi, reduced by pi per daughter, applied modulo 2 pi
    h = repo.fn(CAL + "::cal_helicity_angle")
    txt = [norm_text(x) for x in walk_local(h.node) if isinstance(x, (ast.Assign, ast.AugAssign))]
    ok = "bias = -np.pi" in txt and "bias -= np.pi" in txt and any("% (2 * np.pi) + bias" in t for t in txt)
    chk.instance("R-carry", "cal_helicity_angle: alpha is wrapped into [bias, bias + 2 pi) with bias = -pi for the first daughter and -2 pi for the second: %s" % ok)
    if not ok:
        chk.violation("R-carry", h.key, "bias-wrap", "the azimuth range bookkeeping (bias = -pi; alpha = (alpha - bias) %% 2pi + bias; bias -= pi) changed", file=CAL, line=h.lineno)
