"""C20 - samplers, histograms and adaptive bins reproduce their targets.

Only the two structural clauses are decided here; nothing is executed.

(a) BINS FORM A PARTITION (tf_pwa/adaptive_bins.py, class AdaptiveBound)
    P1  every bin-membership mask (a conjunction of a lower and an upper
        comparison of one and the same subject) is half-open: exactly one of
        the two sides is closed.  closed/closed counts an event on a shared
        edge twice, open/open loses it.
    P2  all mask sites of the class close the same side.
    P3  the bound used as lower bound is component 0 and the bound used as
        upper bound is component 1 of one and the same (lower, upper) pair.
    P4  a per-coordinate mask is reduced over the coordinate axis with `all`
        (box membership = membership in every coordinate), never `any`.
    E1  the 1-d splitter produces a chain of pairs in which the upper bound of
        pair k is the very same value as the lower bound of pair k+1 (decided
        by a small symbolic execution with the loop unrolled 0..3 times); the
        first lower bound and the last upper bound are components 0 and 1 of
        the base bound.
    E2  the n-d splitter cuts along ONE axis: the coordinate selected from the
        data, the two components of the parent box handed to the 1-d splitter
        and the two components overwritten in the child boxes use the same axis
        expression; child boxes are appended as (lower, upper) and child data
        are selected with the membership mask.
    B1  a base bound built from the data's extrema pads the OPEN side strictly
        outwards (otherwise the extremal event is in no bin) and does not pull
        the closed side inwards.

(b) WEIGHTED HISTOGRAM SIBLINGS (tf_pwa/histogram.py)
    S1  the count histogram and the squared-error histogram that end up in one
        Hist1D are np.histogram calls with identical arguments except `weights`.
    S2  their weights are  w  and  w**2  (w*w, np.square(w)) of the same w, or
        both absent (unit weights).
    S3  the stored error is sqrt(...) of the squared-weight histogram.
    S4  histogram addition/subtraction adds counts linearly and errors in
        quadrature (sum w and sum w^2 are additive).

Sampling correctness (generator/*.py, config_loader/sample.py, gen_data's
acceptance-rejection loop) is statistical and is not decided.
"""
import ast
import copy

from ..model import AnalysisError, const_value, dotted, norm_text, walk_local, walk_stmt

ADAPTIVE = "tf_pwa/adaptive_bins.py"
HIST = "tf_pwa/histogram.py"
BOUND_CLASS = "AdaptiveBound"

# confirmed by reading /repo (2026-10): instance counts below are the fail-closed minima
MIN_P1 = 2  # get_bool_mask, multi_split_bound (the fixture line is one more P1 instance)
MIN_P4 = 1  # get_bool_mask
MIN_E1 = 1  # single_split_bound
MIN_E2 = 1  # multi_split_bound
MIN_B1 = 2  # base_bound, single_split_bound default
MIN_S1 = 3  # Hist1D.histogram (2 paths) + WeightedData.__init__
MIN_S3 = 2
MIN_S4 = 3

HIST_BUILDERS = {
    "tf_pwa/histogram.py::Hist1D.histogram": "static constructor from data and weights (two paths: weights None / given)",
    "tf_pwa/histogram.py::WeightedData.__init__": "constructor from data and weights",
}
HIST_ALGEBRA = {
    "tf_pwa/histogram.py::Hist1D.__add__": "+",
    "tf_pwa/histogram.py::Hist1D.__sub__": "-",
    "tf_pwa/histogram.py::WeightedData.__add__": "+",
}

_FLIP = {"<": ">", "<=": ">=", ">": "<", ">=": "<="}
_NEG = {"<": ">=", "<=": ">", ">": "<=", ">=": "<"}
_OPS = {ast.Lt: "<", ast.LtE: "<=", ast.Gt: ">", ast.GtE: ">="}
_FUNC_OPS = {"less": "<", "less_equal": "<=", "greater": ">", "greater_equal": ">="}


def _last(d):
    return d.split(".")[-1] if d else None


# ------------------------------------------------------------------ (a) masks
def _as_cmp(n):
    """expression -> (left, op, right) for a single ordering comparison (negations folded)"""
    if isinstance(n, ast.Compare) and len(n.ops) == 1 and type(n.ops[0]) in _OPS:
        return n.left, _OPS[type(n.ops[0])], n.comparators[0]
    if isinstance(n, ast.UnaryOp) and isinstance(n.op, (ast.Invert, ast.Not)):
        c = _as_cmp(n.operand)
        if c:
            return c[0], _NEG[c[1]], c[2]
    if isinstance(n, ast.Call):
        f = _last(dotted(n.func))
        if f in _FUNC_OPS and len(n.args) == 2:
            return n.args[0], _FUNC_OPS[f], n.args[1]
        if f == "logical_not" and len(n.args) == 1:
            c = _as_cmp(n.args[0])
            if c:
                return c[0], _NEG[c[1]], c[2]
    return None


def _conjuncts(n):
    """expression -> list of conjunct expressions when it is a conjunction, else None"""
    if isinstance(n, ast.Call):
        f = _last(dotted(n.func))
        if f in ("logical_and", "bitwise_and") and len(n.args) == 2 and not n.keywords:
            return list(n.args)
    if isinstance(n, ast.BinOp) and isinstance(n.op, (ast.BitAnd, ast.Mult)):
        return [n.left, n.right]
    if isinstance(n, ast.BoolOp) and isinstance(n.op, ast.And) and len(n.values) == 2:
        return list(n.values)
    if isinstance(n, ast.Compare) and len(n.ops) == 2:
        a = ast.Compare(left=n.left, ops=[n.ops[0]], comparators=[n.comparators[0]])
        b = ast.Compare(left=n.comparators[0], ops=[n.ops[1]], comparators=[n.comparators[1]])
        return [a, b]
    return None


def _disjunction_of_cmps(n):
    if isinstance(n, ast.Call) and _last(dotted(n.func)) in ("logical_or", "bitwise_or", "logical_xor") and len(n.args) == 2:
        return all(_as_cmp(a) for a in n.args)
    if isinstance(n, ast.BinOp) and isinstance(n.op, (ast.BitOr, ast.BitXor, ast.Add)):
        return bool(_as_cmp(n.left) and _as_cmp(n.right))
    if isinstance(n, ast.BoolOp) and isinstance(n.op, ast.Or):
        return all(_as_cmp(a) for a in n.values)
    return False


class MaskSite:
    def __init__(self, fn, node, subject, lower, lower_closed, upper, upper_closed):
        self.fn = fn
        self.node = node
        self.subject = subject
        self.lower = lower
        self.lower_closed = lower_closed
        self.upper = upper
        self.upper_closed = upper_closed

    def pattern(self):
        return "%s%s , %s%s" % ("[" if self.lower_closed else "(", norm_text(self.lower), norm_text(self.upper), "]" if self.upper_closed else ")")


def mask_sites(fn):
    """all interval-membership masks in fn (nested defs excluded); also returns
    texts of two-comparison combinations that are not interval masks"""
    sites, other = [], []
    # element-wise formulation `[lo <= v < hi for v in x]`: the subject is x
    elem_of = {}
    for comp in walk_local(fn.node):
        if isinstance(comp, (ast.ListComp, ast.GeneratorExp)) and len(comp.generators) == 1:
            g = comp.generators[0]
            if isinstance(g.target, ast.Name) and not g.ifs:
                for sub in ast.walk(comp.elt):
                    elem_of[id(sub)] = (g.target.id, norm_text(g.iter))
    for n in walk_local(fn.node):
        if _disjunction_of_cmps(n):
            other.append("disjunction " + norm_text(n))
            continue
        cj = _conjuncts(n)
        if not cj or len(cj) != 2:
            continue
        # a conjunct given through a single-assignment local (`above = x >= lo`) is looked through
        sdefs = _single_defs(fn)
        cj = list(cj)
        for i_ in range(2):
            hops = 0
            while isinstance(cj[i_], ast.Name) and cj[i_].id in sdefs and hops < 4:
                cj[i_] = sdefs[cj[i_].id]
                hops += 1
        c1, c2 = _as_cmp(cj[0]), _as_cmp(cj[1])
        if not (c1 and c2):
            continue
        t1 = {norm_text(c1[0]): 0, norm_text(c1[2]): 2}
        t2 = {norm_text(c2[0]): 0, norm_text(c2[2]): 2}
        common = [t for t in t1 if t in t2]
        if len(common) != 1:
            other.append("no unique common operand: " + norm_text(n))
            continue
        subj = common[0]
        subj_shown = elem_of[id(n)][1] if id(n) in elem_of and elem_of[id(n)][0] == subj else subj
        oriented = []
        for c, t in ((c1, t1), (c2, t2)):
            if t[subj] == 0:
                oriented.append((c[1], c[2]))
            else:
                oriented.append((_FLIP[c[1]], c[0]))
        lowers = [o for o in oriented if o[0] in (">", ">=")]
        uppers = [o for o in oriented if o[0] in ("<", "<=")]
        if len(lowers) != 1 or len(uppers) != 1:
            other.append("two bounds on the same side: " + norm_text(n))
            continue
        sites.append(MaskSite(fn, n, subj_shown, lowers[0][1], lowers[0][0] == ">=", uppers[0][1], uppers[0][0] == "<="))
    return sites, other


def _root_name(e):
    while True:
        if isinstance(e, ast.Subscript):
            e = e.value
        elif isinstance(e, ast.Attribute):
            e = e.value
        elif isinstance(e, ast.Call) and e.args:
            e = e.args[0]
        else:
            break
    return e.id if isinstance(e, ast.Name) else None


def _pair_unpacks(fn):
    """[(name0, name1, source expr)] for every 2-name tuple unpacking in fn"""
    out = []
    for n in walk_local(fn.node):
        tgt = src = None
        if isinstance(n, ast.For):
            tgt, src = n.target, n.iter
        elif isinstance(n, ast.Assign) and len(n.targets) == 1:
            tgt, src = n.targets[0], n.value
        elif isinstance(n, ast.comprehension):
            tgt, src = n.target, n.iter
        if isinstance(tgt, (ast.Tuple, ast.List)) and len(tgt.elts) == 2 and all(isinstance(e, ast.Name) for e in tgt.elts):
            if isinstance(src, (ast.Tuple, ast.List)) and len(src.elts) == 2:
                continue  # parallel assignment, not an unpacking of a pair
            out.append((tgt.elts[0].id, tgt.elts[1].id, src))
    return out


def bound_roles(site):
    """-> (ok, text).  lower must be component 0, upper component 1 of one pair"""
    lo, up = site.lower, site.upper

    def comp_index(e):
        # b[0] / b[1] (possibly further subscripted): -> (base text, index)
        chain = []
        while isinstance(e, ast.Subscript):
            chain.append(e)
            e = e.value
        for s in reversed(chain):
            v = const_value(s.slice)
            if isinstance(v, int) and not isinstance(v, bool):
                return norm_text(s.value), v
            break
        return None

    ln, un = _root_name(lo), _root_name(up)
    for a, b, src in _pair_unpacks(site.fn):
        if ln == a and un == b:
            return True, "(%s, %s) unpacked from %s" % (a, b, norm_text(src))
        if ln == b and un == a:
            return False, "lower bound `%s` is component 1 and upper bound `%s` component 0 of the pair unpacked from %s" % (ln, un, norm_text(src))
    ci, cu = comp_index(lo), comp_index(up)
    if ci and cu and ci[0] == cu[0]:
        if (ci[1], cu[1]) == (0, 1):
            return True, "%s[0], %s[1]" % (ci[0], ci[0])
        return False, "lower bound uses component %d and upper bound component %d of %s" % (ci[1], cu[1], ci[0])
    raise AnalysisError(
        "%s: cannot relate the bounds `%s` / `%s` of a membership mask to one (lower, upper) pair"
        % (site.fn.key, norm_text(lo), norm_text(up))
    )


def _assigned_name(fn, node):
    """name a mask expression is assigned to (single Name target), else None"""
    for n in walk_local(fn.node):
        if isinstance(n, ast.Assign) and len(n.targets) == 1 and isinstance(n.targets[0], ast.Name):
            if n.value is node or any(sub is node for sub in ast.walk(n.value)):
                return n.targets[0].id
    return None


def reductions_of(fn, name):
    """calls that reduce `name`: [(kind, text)] kind in all/any/other"""
    out = []
    for n in walk_local(fn.node):
        if not isinstance(n, ast.Call):
            continue
        f = _last(dotted(n.func)) if dotted(n.func) else (n.func.attr if isinstance(n.func, ast.Attribute) else None)
        if f not in ("all", "any", "reduce_all", "reduce_any", "alltrue", "sometrue", "prod", "sum", "max", "min"):
            continue
        operand = None
        if n.args and isinstance(n.args[0], ast.Name) and n.args[0].id == name:
            operand = n.args[0]
        elif isinstance(n.func, ast.Attribute) and isinstance(n.func.value, ast.Name) and n.func.value.id == name:
            operand = n.func.value
        if operand is None:
            continue
        kind = "all" if f in ("all", "reduce_all", "alltrue", "prod", "min") else "any"
        out.append((kind, norm_text(n), n))
    return out


# ------------------------------------------------------- (a) E1 symbolic chain
class _SymExec:
    """straight-line symbolic execution of a small function with one loop level.
    Values are ASTs in which every local name has been replaced by its value."""

    def __init__(self, fn, n_iter):
        self.fn = fn
        self.n_iter = n_iter
        self.env = {}
        self.appends = {}
        self.returned = None
        self.fresh = 0

    def sym(self, tag):
        self.fresh += 1
        return ast.Name(id="<%s#%d>" % (tag, self.fresh), ctx=ast.Load())

    def subst(self, expr):
        env = self.env

        class T(ast.NodeTransformer):
            def visit_Name(self, n):
                if isinstance(n.ctx, ast.Load) and n.id in env:
                    return copy.deepcopy(env[n.id])
                return n

        return T().visit(copy.deepcopy(expr))

    @staticmethod
    def _has_append(st):
        for n in ast.walk(st):
            if isinstance(n, ast.Call) and isinstance(n.func, ast.Attribute) and n.func.attr in ("append", "extend", "insert"):
                return True
        return False

    def _havoc(self, st):
        for n in ast.walk(st):
            if isinstance(n, ast.Name) and isinstance(n.ctx, ast.Store):
                self.env[n.id] = self.sym("phi:" + n.id)

    def assign(self, tgt, val):
        if isinstance(tgt, ast.Name):
            self.env[tgt.id] = val
        elif isinstance(tgt, (ast.Tuple, ast.List)):
            if isinstance(val, (ast.Tuple, ast.List)) and len(val.elts) == len(tgt.elts):
                for t, v in zip(tgt.elts, val.elts):
                    self.assign(t, v)
            else:
                for i, t in enumerate(tgt.elts):
                    self.assign(t, ast.Subscript(value=val, slice=ast.Constant(value=i), ctx=ast.Load()))
        else:
            # store into a subscript/attribute: the container changes
            r = _root_name(tgt)
            if r:
                self.env[r] = self.sym("phi:" + r)

    def block(self, stmts, depth=0):
        for st in stmts:
            if self.returned is not None:
                return
            if isinstance(st, ast.Expr) and isinstance(st.value, ast.Constant):
                continue
            if isinstance(st, ast.Assign):
                val = self.subst(st.value)
                for t in st.targets:
                    self.assign(t, val)
            elif isinstance(st, ast.AugAssign) and isinstance(st.target, ast.Name):
                cur = self.subst(ast.Name(id=st.target.id, ctx=ast.Load()))
                self.env[st.target.id] = ast.BinOp(left=cur, op=st.op, right=self.subst(st.value))
            elif (
                isinstance(st, ast.Expr)
                and isinstance(st.value, ast.Call)
                and isinstance(st.value.func, ast.Attribute)
                and st.value.func.attr == "append"
                and isinstance(st.value.func.value, ast.Name)
                and len(st.value.args) == 1
            ):
                self.appends.setdefault(st.value.func.value.id, []).append(self.subst(st.value.args[0]))
            elif isinstance(st, ast.Return):
                self.returned = st.value
            elif isinstance(st, (ast.For, ast.While)) and self._has_append(st):
                if depth > 0 or isinstance(st, ast.While) or st.orelse:
                    raise AnalysisError("%s: bin edges are appended in a nested/while loop; the chain rule E1 does not model this" % self.fn.key)
                for brk in ast.walk(st):
                    if isinstance(brk, (ast.Break, ast.Continue)):
                        raise AnalysisError("%s: break/continue in the edge loop is not modelled" % self.fn.key)
                for it in range(1, self.n_iter + 1):
                    for t in ast.walk(st.target):
                        if isinstance(t, ast.Name):
                            self.env[t.id] = ast.Name(id="%s@%d" % (t.id, it), ctx=ast.Load())
                    self.block(st.body, depth + 1)
            elif self._has_append(st):
                raise AnalysisError(
                    "%s: bin edges are appended under `%s`; the chain rule E1 does not model this" % (self.fn.key, type(st).__name__)
                )
            else:
                self._havoc(st)

    def run(self):
        self.block(self.fn.node.body)
        return self


def edge_chain(fn, n_iter):
    """-> list of (lower text, upper text) of the pairs in the returned list"""
    ex = _SymExec(fn, n_iter).run()
    if not isinstance(ex.returned, ast.Name) or ex.returned.id not in ex.appends:
        raise AnalysisError("%s: the splitter does not return a list built by appending (lower, upper) pairs" % fn.key)
    pairs = []
    for p in ex.appends[ex.returned.id]:
        if not isinstance(p, ast.Tuple) or len(p.elts) != 2:
            raise AnalysisError("%s: appended bin `%s` is not a (lower, upper) pair" % (fn.key, norm_text(p)))
        pairs.append((norm_text(p.elts[0]), norm_text(p.elts[1]), p))
    return pairs


def _component(e):
    """X[i] -> (text of X, i)"""
    if isinstance(e, ast.Subscript):
        v = const_value(e.slice)
        if isinstance(v, int) and not isinstance(v, bool):
            return norm_text(e.value), v
    return None


# ------------------------------------------------------------ (a) B1 padding
def _single_defs(fn):
    """name -> value for names assigned exactly once in fn (simple Name targets)"""
    seen, multi = {}, set()
    for n in walk_local(fn.node):
        if isinstance(n, ast.Assign):
            for t in n.targets:
                for nm in ast.walk(t):
                    if isinstance(nm, ast.Name) and isinstance(nm.ctx, ast.Store):
                        if nm.id in seen or not isinstance(t, ast.Name):
                            multi.add(nm.id)
                        seen[nm.id] = n.value
        elif isinstance(n, (ast.AugAssign, ast.For, ast.comprehension, ast.With, ast.NamedExpr)):
            for nm in ast.walk(n.target if hasattr(n, "target") else n):
                if isinstance(nm, ast.Name) and isinstance(nm.ctx, ast.Store):
                    multi.add(nm.id)
    return {k: v for k, v in seen.items() if k not in multi}


def _extremum_pad(e, defs, depth=0):
    """-> ('min'|'max', pad) when e is extremum(data) +/- const, else None"""
    if isinstance(e, ast.Name) and e.id in defs and depth < 4:
        return _extremum_pad(defs[e.id], defs, depth + 1)
    if isinstance(e, ast.Call):
        f = _last(dotted(e.func)) or (e.func.attr if isinstance(e.func, ast.Attribute) else None)
        if f in ("min", "amin", "reduce_min", "nanmin"):
            return "min", 0.0
        if f in ("max", "amax", "reduce_max", "nanmax"):
            return "max", 0.0
        return None
    if isinstance(e, ast.BinOp) and isinstance(e.op, (ast.Add, ast.Sub)):
        sign = 1.0 if isinstance(e.op, ast.Add) else -1.0
        lc, rc = const_value(e.left), const_value(e.right)
        if isinstance(rc, (int, float)) and not isinstance(rc, bool):
            inner = _extremum_pad(e.left, defs, depth + 1)
            if inner:
                return inner[0], inner[1] + sign * rc
        if isinstance(lc, (int, float)) and not isinstance(lc, bool) and isinstance(e.op, ast.Add):
            inner = _extremum_pad(e.right, defs, depth + 1)
            if inner:
                return inner[0], inner[1] + lc
    return None


def base_pairs(fn):
    """2-tuples (lo, hi) in fn whose components are extremum(+/-pad) expressions"""
    defs = _single_defs(fn)
    out = []
    for n in walk_local(fn.node):
        val = None
        if isinstance(n, ast.Return):
            val = n.value
        elif isinstance(n, ast.Assign):
            val = n.value
        if isinstance(val, ast.Tuple) and len(val.elts) == 2:
            a, b = _extremum_pad(val.elts[0], defs), _extremum_pad(val.elts[1], defs)
            if a and b:
                out.append((val, a, b))
    return out


# ---------------------------------------------------------------- (a) driver
def check_partition(repo, chk):
    mod = repo.mod(ADAPTIVE)
    if BOUND_CLASS not in mod.classes:
        raise AnalysisError("anchor vanished: class %s::%s" % (ADAPTIVE, BOUND_CLASS))
    cls = mod.classes[BOUND_CLASS]
    for must in ("get_bool_mask", "single_split_bound", "multi_split_bound", "base_bound"):
        repo.fn("%s::%s.%s" % (ADAPTIVE, BOUND_CLASS, must))
    class_fns = sorted((f for f in mod.funcs.values() if f.cls is cls), key=lambda f: f.key)

    sites = []
    for f in class_fns:
        ss, other = mask_sites(f)
        for o in other:
            chk.info("%s: two comparisons combined, not an interval-membership mask: %s" % (f.key, o))
        sites.extend(ss)
    for s in sites:
        chk.instance("P1", "%s mask on `%s`: %s" % (s.fn.key, s.subject, s.pattern()))
        if s.lower_closed and s.upper_closed:
            chk.violation(
                "P1", s.fn.key, "closed/closed",
                "membership mask `%s` is closed on both sides: an event on the edge shared by two consecutive bins is counted in both"
                % norm_text(s.node), file=ADAPTIVE, line=s.node.lineno,
            )
        elif not s.lower_closed and not s.upper_closed:
            chk.violation(
                "P1", s.fn.key, "open/open",
                "membership mask `%s` is open on both sides: an event exactly on a bin edge is in no bin" % norm_text(s.node),
                file=ADAPTIVE, line=s.node.lineno,
            )
        ok, text = bound_roles(s)
        chk.instance("P3", "%s bounds %s" % (s.fn.key, text))
        if not ok:
            chk.violation("P3", s.fn.key, "swapped-bounds", text, file=ADAPTIVE, line=s.node.lineno)
        nm = _assigned_name(s.fn, s.node)
        if nm:
            for kind, text, node in reductions_of(s.fn, nm):
                chk.instance("P4", "%s per-coordinate mask reduced by `%s`" % (s.fn.key, text))
                if kind != "all":
                    chk.violation(
                        "P4", s.fn.key, "reduction",
                        "per-coordinate membership is combined with `%s`; a box contains an event only if every coordinate is inside (all)" % text,
                        file=ADAPTIVE, line=node.lineno,
                    )
                else:
                    ax = [k for k in node.keywords if k.arg == "axis"]
                    axv = const_value(ax[0].value) if ax else (const_value(node.args[1]) if len(node.args) > 1 else None)
                    if axv != 0:
                        chk.violation(
                            "P4", s.fn.key, "reduction-axis",
                            "`%s` must reduce the coordinate axis 0 (the axis the bounds are broadcast on)" % text,
                            file=ADAPTIVE, line=node.lineno,
                        )
    half_open = [s for s in sites if s.lower_closed != s.upper_closed]
    sides = {("lower" if s.lower_closed else "upper") for s in half_open}
    closed_side = None
    if len(sides) > 1:
        for s in half_open:
            chk.violation(
                "P2", s.fn.key, "closed-side",
                "mask sites disagree on the closed side (%s here closes the %s side); a bin assigned by one site and counted by another "
                "differs on edge events" % (s.pattern(), "lower" if s.lower_closed else "upper"),
                file=ADAPTIVE, line=s.node.lineno,
            )
    elif sides:
        closed_side = sides.pop()
    chk.instance("P2", "%d mask sites, closed side: %s" % (len(sites), closed_side or "inconsistent"))

    # module-level comparisons of the same shape (range cuts on edges): INFO only
    for f in sorted(mod.funcs.values(), key=lambda f: f.key):
        if f.cls is cls:
            continue
        ss, _ = mask_sites(f)
        for s in ss:
            chk.info("%s: interval cut `%s` (%s) outside %s - a range selection, not bin membership" % (f.key, norm_text(s.node), s.pattern(), BOUND_CLASS))

    # ---- E1
    ssb = repo.fn("%s::%s.single_split_bound" % (ADAPTIVE, BOUND_CLASS))
    for n_iter in (0, 1, 2, 3):
        pairs = edge_chain(ssb, n_iter)
        if len(pairs) != n_iter + 1 and n_iter > 0 and len(pairs) < 2:
            raise AnalysisError("%s: unrolling %d iterations yields %d bins" % (ssb.key, n_iter, len(pairs)))
        for k in range(len(pairs) - 1):
            if pairs[k][1] != pairs[k + 1][0]:
                chk.violation(
                    "E1", ssb.key, "edge-chain",
                    "upper bound of bin %d (`%s`) is not the lower bound of bin %d (`%s`) [%d loop iterations]: consecutive bins leave a gap or overlap"
                    % (k, pairs[k][1], k + 1, pairs[k + 1][0], n_iter),
                    file=ADAPTIVE, line=ssb.lineno,
                )
        first, last = _component(pairs[0][2].elts[0]), _component(pairs[-1][2].elts[1])
        if not (first and last and first[0] == last[0] and (first[1], last[1]) == (0, 1)):
            chk.violation(
                "E1", ssb.key, "outer-edges",
                "first lower bound `%s` and last upper bound `%s` are not components 0 and 1 of the same base bound [%d loop iterations]"
                % (pairs[0][0], pairs[-1][1], n_iter),
                file=ADAPTIVE, line=ssb.lineno,
            )
        if n_iter == 2:
            chk.instance("E1", "%s chain (2 iterations): %s" % (ssb.key, " | ".join("(%s, %s)" % (a, b) for a, b, _ in pairs)))

    check_axis_split(repo, chk, sites)

    # ---- B1
    for f in class_fns:
        for val, lo, hi in base_pairs(f):
            chk.instance("B1", "%s base bound `%s`: lower=%s%+g upper=%s%+g" % (f.key, norm_text(val), lo[0], lo[1], hi[0], hi[1]))
            if lo[0] != "min" or hi[0] != "max":
                chk.violation("B1", f.key, "extrema-order", "base bound `%s` is not (minimum, maximum)" % norm_text(val), file=ADAPTIVE, line=val.lineno)
                continue
            if closed_side is None:
                continue
            if closed_side == "lower":
                if not hi[1] > 0:
                    chk.violation(
                        "B1", f.key, "open-upper-not-padded",
                        "bins are open at the upper edge but the base upper bound `%s` is not strictly above the maximum: the maximal event is in no bin"
                        % norm_text(val.elts[1]), file=ADAPTIVE, line=val.lineno,
                    )
                if lo[1] > 0:
                    chk.violation("B1", f.key, "lower-pulled-in", "base lower bound `%s` lies above the minimum" % norm_text(val.elts[0]), file=ADAPTIVE, line=val.lineno)
            else:
                if not lo[1] < 0:
                    chk.violation(
                        "B1", f.key, "open-lower-not-padded",
                        "bins are open at the lower edge but the base lower bound `%s` is not strictly below the minimum: the minimal event is in no bin"
                        % norm_text(val.elts[0]), file=ADAPTIVE, line=val.lineno,
                    )
                if hi[1] < 0:
                    chk.violation("B1", f.key, "upper-pulled-in", "base upper bound `%s` lies below the maximum" % norm_text(val.elts[1]), file=ADAPTIVE, line=val.lineno)
    chk.require_count("P1", MIN_P1 + 1)
    chk.require_count("P3", MIN_P1)
    chk.require_count("P4", MIN_P4)
    chk.require_count("E1", MIN_E1)
    chk.require_count("E2", MIN_E2)
    chk.require_count("B1", MIN_B1)


def check_axis_split(repo, chk, sites):
    """E2 on AdaptiveBound.multi_split_bound"""
    f = repo.fn("%s::%s.multi_split_bound" % (ADAPTIVE, BOUND_CLASS))
    key = f.key

    def fail(msg):
        raise AnalysisError("%s: %s (rule E2 cannot be decided)" % (key, msg))

    calls = [n for n in walk_local(f.node) if isinstance(n, ast.Call) and _last(dotted(n.func)) == "single_split_bound"]
    if len(calls) != 1:
        fail("expected one call of single_split_bound, found %d" % len(calls))
    call = calls[0]
    callee = repo.fn("%s::%s.single_split_bound" % (ADAPTIVE, BOUND_CLASS))
    params = callee.params
    bound = {}
    for i, a in enumerate(call.args):
        if isinstance(a, ast.Starred) or i >= len(params):
            fail("call `%s` uses star arguments" % norm_text(call))
        bound[params[i]] = a
    for kw in call.keywords:
        if kw.arg is None:
            fail("call `%s` uses ** arguments" % norm_text(call))
        bound[kw.arg] = kw.value
    if len(params) < 3:
        fail("single_split_bound signature changed")
    p_data, p_base = params[0], params[2]
    if p_data not in bound or p_base not in bound:
        fail("call `%s` does not pass the data and the parent bound" % norm_text(call))
    bb = bound[p_base]
    if not (isinstance(bb, ast.Tuple) and len(bb.elts) == 2):
        fail("parent bound `%s` is not a (lower, upper) pair" % norm_text(bb))
    comps = []
    for e in bb.elts:
        if not (isinstance(e, ast.Subscript) and isinstance(e.value, ast.Subscript)):
            fail("parent bound component `%s` is not of the form box[side][axis]" % norm_text(e))
        side = const_value(e.value.slice)
        comps.append((norm_text(e.value.value), side, norm_text(e.slice)))
    parent = comps[0][0]
    axis = comps[0][2]
    where = dict(file=ADAPTIVE, line=call.lineno)
    if comps[1][0] != parent:
        chk.violation("E2", key, "parent-box", "lower and upper parent bound come from different boxes: `%s`" % norm_text(bb), **where)
    if (comps[0][1], comps[1][1]) != (0, 1):
        chk.violation("E2", key, "parent-sides", "parent bound `%s` is not (box[0][axis], box[1][axis])" % norm_text(bb), **where)
    if comps[1][2] != axis:
        chk.violation("E2", key, "parent-axis", "parent bound `%s` mixes axes `%s` and `%s`" % (norm_text(bb), axis, comps[1][2]), **where)

    defs = _single_defs(f)
    d = bound[p_data]
    d_text = norm_text(d)
    dd = defs.get(d.id) if isinstance(d, ast.Name) else d
    if not isinstance(dd, ast.Subscript):
        fail("the coordinate handed to single_split_bound (`%s`) is not a subscript of the data" % d_text)
    data_name = norm_text(dd.value)
    if norm_text(dd.slice) != axis:
        chk.violation(
            "E2", key, "data-axis",
            "coordinate `%s` = `%s` is taken along `%s` but the parent bound along `%s`" % (d_text, norm_text(dd), norm_text(dd.slice), axis), **where
        )

    # the mask of this function must test that same coordinate
    my_sites = [s for s in sites if s.fn is f]
    if len(my_sites) != 1:
        fail("expected one membership mask, found %d" % len(my_sites))
    site = my_sites[0]
    if site.subject != d_text:
        chk.violation(
            "E2", key, "mask-subject",
            "membership mask tests `%s` but the edges were computed from `%s`" % (site.subject, d_text), file=ADAPTIVE, line=site.node.lineno
        )
    lo_name, up_name = _root_name(site.lower), _root_name(site.upper)

    # stores box_lower[axis] = lower ; box_upper[axis] = upper
    stores = {}
    for n in walk_local(f.node):
        if isinstance(n, ast.Assign) and len(n.targets) == 1 and isinstance(n.targets[0], ast.Subscript) and isinstance(n.value, ast.Name):
            t = n.targets[0]
            if isinstance(t.value, ast.Name) and n.value.id in (lo_name, up_name):
                stores[n.value.id] = (t.value.id, norm_text(t.slice), n)
    if lo_name not in stores or up_name not in stores:
        fail("child boxes are not built by box_lower[axis] = lower; box_upper[axis] = upper")
    (lbox, lax, ln), (ubox, uax, un) = stores[lo_name], stores[up_name]
    for ax, n, what in ((lax, ln, "lower"), (uax, un, "upper")):
        if ax != axis:
            chk.violation(
                "E2", key, "child-axis-%s" % what,
                "child box %s edge is written to axis `%s` but the split is along `%s`" % (what, ax, axis), file=ADAPTIVE, line=n.lineno
            )
    # lbox / ubox are components 0 / 1 of the parent box
    ok_unpack = False
    for a, b, src in _pair_unpacks(f):
        if norm_text(src) == parent:
            if (a, b) == (lbox, ubox):
                ok_unpack = True
            elif (a, b) == (ubox, lbox):
                chk.violation("E2", key, "child-sides", "lower edge is written into the parent's upper corner and vice versa", file=ADAPTIVE, line=ln.lineno)
                ok_unpack = True
    if not ok_unpack:
        fail("child corners `%s`/`%s` are not unpacked from the parent box `%s`" % (lbox, ubox, parent))
    # copies: a corner array shared between siblings would be overwritten
    for nm in (lbox, ubox):
        copied = any(
            isinstance(n, ast.Assign) and len(n.targets) == 1 and isinstance(n.targets[0], ast.Name) and n.targets[0].id == nm
            and isinstance(n.value, ast.Call) and (_last(dotted(n.value.func)) in ("copy", "array", "deepcopy") or
                                                   (isinstance(n.value.func, ast.Attribute) and n.value.func.attr == "copy"))
            for n in walk_local(f.node)
        )
        if not copied:
            chk.violation(
                "E2", key, "corner-not-copied:%s" % ("lower" if nm == lbox else "upper"),
                "corner `%s` of the parent box is written in place without a copy: all sibling bins alias one array and share the last edge" % nm,
                file=ADAPTIVE, line=ln.lineno,
            )
    # appended (lower corner, upper corner) and data[:, mask]
    appended_pair = False
    mask_name = _assigned_name(f, site.node)
    child_data = False
    for n in walk_local(f.node):
        if isinstance(n, ast.Call) and isinstance(n.func, ast.Attribute) and n.func.attr == "append" and len(n.args) == 1:
            a = n.args[0]
            if isinstance(a, ast.Tuple) and len(a.elts) == 2 and all(isinstance(e, ast.Name) for e in a.elts):
                ids = (a.elts[0].id, a.elts[1].id)
                if ids == (lbox, ubox):
                    appended_pair = True
                elif ids == (ubox, lbox):
                    appended_pair = True
                    chk.violation("E2", key, "child-pair-order", "child box appended as (upper, lower): `%s`" % norm_text(a), file=ADAPTIVE, line=n.lineno)
            if isinstance(a, ast.Subscript) and norm_text(a.value) == data_name and mask_name:
                idx_names = {x.id for x in ast.walk(a.slice) if isinstance(x, ast.Name)}
                negated = any(isinstance(x, ast.UnaryOp) and isinstance(x.op, (ast.Invert, ast.Not)) for x in ast.walk(a.slice))
                if mask_name in idx_names and not negated:
                    child_data = True
    if not appended_pair:
        fail("no child box (lower corner, upper corner) is appended")
    if not child_data:
        chk.violation(
            "E2", key, "child-data",
            "child data are not selected from `%s` with the membership mask `%s`" % (data_name, mask_name), file=ADAPTIVE, line=site.node.lineno
        )
    chk.instance(
        "E2",
        "%s splits `%s` along axis `%s`: coordinate %s, parent (%s[0][%s], %s[1][%s]), child corners %s[%s]/%s[%s], data %s[:, %s]"
        % (key, data_name, axis, norm_text(dd), parent, axis, parent, comps[1][2], lbox, lax, ubox, uax, data_name, mask_name),
    )


# -------------------------------------------------------- (b) histogram pairs
NP_HIST_PARAMS = ["a", "bins", "range", "density", "weights"]


def _is_np_histogram(n):
    return isinstance(n, ast.Call) and dotted(n.func) in ("np.histogram", "numpy.histogram")


def hist_signature(call):
    """-> (binning signature: tuple, weights expr or None)"""
    named, rest = {}, []
    starred = False
    for i, a in enumerate(call.args):
        if isinstance(a, ast.Starred):
            starred = True
            rest.append("*" + norm_text(a.value))
        elif not starred and i < len(NP_HIST_PARAMS):
            named[NP_HIST_PARAMS[i]] = a
        else:
            rest.append(norm_text(a))
    kwstar = []
    for kw in call.keywords:
        if kw.arg is None:
            kwstar.append("**" + norm_text(kw.value))
        else:
            named[kw.arg] = kw.value
    w = named.pop("weights", None)
    sig = (tuple(sorted((k, norm_text(v)) for k, v in named.items())), tuple(rest), tuple(sorted(kwstar)))
    return sig, w


def _sig_text(sig):
    parts = ["%s=%s" % kv for kv in sig[0]] + list(sig[1]) + list(sig[2])
    return ", ".join(parts)


def square_base(e):
    """X**2 | X*X | np.square(X) | np.power(X, 2) -> text of X, else None"""
    if isinstance(e, ast.BinOp):
        if isinstance(e.op, ast.Pow) and const_value(e.right) in (2, 2.0) and not isinstance(const_value(e.right), bool):
            return norm_text(e.left)
        if isinstance(e.op, ast.Mult) and norm_text(e.left) == norm_text(e.right):
            return norm_text(e.left)
    if isinstance(e, ast.Call):
        f = _last(dotted(e.func))
        if f == "square" and len(e.args) == 1:
            return norm_text(e.args[0])
        if f in ("power", "pow") and len(e.args) == 2 and const_value(e.args[1]) in (2, 2.0):
            return norm_text(e.args[0])
    return None


def sqrt_arg(e):
    if isinstance(e, ast.Call):
        f = _last(dotted(e.func))
        if f == "sqrt" and len(e.args) == 1:
            return e.args[0]
        if f in ("power", "pow") and len(e.args) == 2 and const_value(e.args[1]) == 0.5:
            return e.args[0]
    if isinstance(e, ast.BinOp) and isinstance(e.op, ast.Pow) and const_value(e.right) == 0.5:
        return e.left
    return None


class _Reach:
    """reaching definitions over the structured statements of one function.
    A definition is (name, value expr, tuple index or None, stmt, block id)."""

    def __init__(self, fn):
        self.fn = fn
        self.before = {}  # id(stmt) -> env {name: frozenset(defs)}
        self.defs = []
        self._block(fn.node.body, {})

    def _define(self, env, tgt, value, st, blk):
        if isinstance(tgt, ast.Name):
            d = (tgt.id, value, None, st, blk)
            self.defs.append(d)
            env[tgt.id] = frozenset([d])
        elif isinstance(tgt, (ast.Tuple, ast.List)):
            for i, t in enumerate(tgt.elts):
                if isinstance(t, ast.Name):
                    d = (t.id, value, i, st, blk)
                    self.defs.append(d)
                    env[t.id] = frozenset([d])

    @staticmethod
    def _merge(envs):
        envs = [e for e in envs if e is not None]
        if not envs:
            return None
        out = {}
        for e in envs:
            for k, v in e.items():
                out[k] = out.get(k, frozenset()) | v
        return out

    def _block(self, stmts, env):
        blk = id(stmts)
        for st in stmts:
            if env is None:
                return None
            for sub in walk_stmt(st):
                self.before.setdefault(id(sub), env)
                if isinstance(sub, (ast.If, ast.For, ast.While, ast.With, ast.Try)) and sub is not st:
                    break
            self.before[id(st)] = dict(env)
            if isinstance(st, ast.Assign):
                for t in st.targets:
                    self._define(env, t, st.value, st, blk)
            elif isinstance(st, ast.AugAssign) and isinstance(st.target, ast.Name):
                self._define(env, st.target, st, st, blk)
            elif isinstance(st, ast.If):
                a = self._block(st.body, dict(env))
                b = self._block(st.orelse, dict(env)) if st.orelse else dict(env)
                env = self._merge([a, b])
            elif isinstance(st, (ast.For, ast.While)):
                a = self._block(st.body, dict(env))
                env = self._merge([a, env])
            elif isinstance(st, ast.With):
                env = self._block(st.body, env)
            elif isinstance(st, ast.Try):
                a = self._block(st.body, dict(env))
                hs = [self._block(h.body, dict(env)) for h in st.handlers]
                env = self._merge([a] + hs)
                if st.finalbody and env is not None:
                    env = self._block(st.finalbody, env)
            elif isinstance(st, (ast.Return, ast.Raise)):
                return None
        return env

    def at(self, stmt, name):
        return self.before.get(id(stmt), {}).get(name, frozenset())


def _stmt_of(fn, node):
    """the statement of fn's body (any depth, not nested defs) that contains node"""
    best = None
    for st in walk_local(fn.node):
        if isinstance(st, ast.stmt):
            for n in walk_stmt(st):
                if n is node:
                    if best is None or (st.lineno, st.col_offset) >= (best.lineno, best.col_offset):
                        best = st
                    break
    return best


def resolve_hist(reach, expr, stmt, depth=0):
    """-> (set of defs that are the count output of np.histogram, notes)"""
    notes = []
    out = set()
    if depth > 6:
        return out, ["resolution too deep"]
    if isinstance(expr, ast.Name):
        ds = reach.at(stmt, expr.id)
        if not ds:
            return out, ["`%s` is a parameter/global" % expr.id]
        for d in ds:
            name, value, idx, st, blk = d
            if _is_np_histogram(value):
                if idx == 0:
                    out.add(d)
                elif idx is None:
                    notes.append("`%s` holds the whole result tuple of np.histogram" % name)
                else:
                    notes.append("`%s` is output %d (the edges) of np.histogram" % (name, idx))
            elif isinstance(value, ast.expr) and idx is None:
                o, nn = resolve_hist(reach, value, st, depth + 1)
                out |= o
                notes += nn
            else:
                notes.append("`%s` defined by `%s`" % (name, norm_text(st)))
        return out, notes
    if isinstance(expr, ast.Call):
        f = _last(dotted(expr.func))
        if f == "where" and len(expr.args) == 3:
            hit = []
            for a in expr.args[1:]:
                o, nn = resolve_hist(reach, a, stmt, depth + 1)
                hit.append((o, a))
                out |= o
            for o, a in hit:
                if not o:
                    notes.append("masked override `%s` where %s" % (norm_text(a), norm_text(expr.args[0])))
            return out, notes
        if f in ("asarray", "array", "abs", "astype", "copy") and (expr.args or isinstance(expr.func, ast.Attribute)):
            inner = expr.args[0] if expr.args and f not in ("astype", "copy") else getattr(expr.func, "value", None)
            if inner is not None:
                return resolve_hist(reach, inner, stmt, depth + 1)
    return out, ["`%s` is not a histogram output" % norm_text(expr)]


def find_sinks(repo, fn):
    """constructor calls Hist1D(binning, count, error) / cls(...) / super().__init__(...)
    -> [(call, {param: expr})]"""
    init = repo.fn("%s::Hist1D.__init__" % HIST)
    params = init.params[1:]
    hist_cls = repo.cls("%s::Hist1D" % HIST)
    names = {c.name for c in [hist_cls] + hist_cls.all_subclasses()}
    out = []
    for n in walk_local(fn.node):
        if not isinstance(n, ast.Call):
            continue
        is_ctor = isinstance(n.func, ast.Name) and (n.func.id in names or n.func.id == "cls")
        is_super = (
            isinstance(n.func, ast.Attribute) and n.func.attr == "__init__"
            and ((isinstance(n.func.value, ast.Call) and dotted(n.func.value.func) == "super") or dotted(n.func.value) in names)
        )
        if not (is_ctor or is_super):
            continue
        args = list(n.args)
        if is_super and not isinstance(n.func.value, ast.Call) and args:
            args = args[1:]  # Hist1D.__init__(self, ...)
        if any(isinstance(a, ast.Starred) for a in args):
            continue
        b = dict(zip(params, args))
        for kw in n.keywords:
            if kw.arg:
                b[kw.arg] = kw.value
        out.append((n, b))
    return out


def check_hist_builders(repo, chk):
    for key, reason in sorted(HIST_BUILDERS.items()):
        fn = repo.fn(key)
        reach = _Reach(fn)
        ncalls = sum(1 for n in walk_local(fn.node) if _is_np_histogram(n))
        sinks = [(c, b) for c, b in find_sinks(repo, fn) if "count" in b and "error" in b]
        if ncalls < 2 or not sinks:
            raise AnalysisError("%s no longer builds a count and an error histogram and hands them to Hist1D (%d np.histogram calls, %d constructor calls)" % (key, ncalls, len(sinks)))
        for call, b in sinks:
            st = _stmt_of(fn, call)
            where = dict(file=HIST, line=call.lineno)
            # S3
            inner = sqrt_arg(b["error"])
            chk.instance("S3", "%s error argument `%s`" % (key, norm_text(b["error"])))
            if inner is None:
                chk.violation(
                    "S3", key, "error-not-sqrt",
                    "the error handed to the histogram is `%s`, not the square root of the sum of squared weights" % norm_text(b["error"]), **where
                )
                inner = b["error"]
            cdefs, cnotes = resolve_hist(reach, b["count"], st)
            edefs, enotes = resolve_hist(reach, inner, st)
            for nt in enotes:
                if nt.startswith("masked override"):
                    chk.info("%s: squared-weight sum %s (empty-bin convention, applied after the histograms)" % (key, nt))
            if not cdefs:
                raise AnalysisError("%s: count argument `%s` is not the output of np.histogram (%s)" % (key, norm_text(b["count"]), "; ".join(cnotes)))
            if not edefs:
                chk.violation(
                    "S2", key, "error-source",
                    "the error `%s` is not derived from a squared-weight np.histogram (%s)" % (norm_text(b["error"]), "; ".join(enotes)), **where
                )
                continue
            by_block = {}
            for d in cdefs:
                by_block.setdefault(d[4], [[], []])[0].append(d)
            for d in edefs:
                by_block.setdefault(d[4], [[], []])[1].append(d)
            for blk, (cs, es) in sorted(by_block.items(), key=lambda kv: min(d[3].lineno for d in kv[1][0] + kv[1][1])):
                if len(cs) != 1 or len(es) != 1:
                    raise AnalysisError(
                        "%s: count and error histograms are not built side by side on the same path (%d count / %d error definitions in one block)"
                        % (key, len(cs), len(es))
                    )
                cd, ed = cs[0], es[0]
                csig, cw = hist_signature(cd[1])
                esig, ew = hist_signature(ed[1])
                path = "weights given" if cw is not None else "unit weights"
                chk.instance("S1", "%s [%s] count(%s) / error(%s)" % (key, path, _sig_text(csig), _sig_text(esig)))
                w2 = dict(file=HIST, line=ed[3].lineno)
                if csig != esig:
                    chk.violation(
                        "S1", key, "binning-args[%s]" % path,
                        "count histogram `%s` and squared-error histogram `%s` use different binning arguments: bin i of the error does not "
                        "belong to bin i of the count" % (norm_text(cd[1]), norm_text(ed[1])), **w2
                    )
                if cd is ed or cd[3] is ed[3]:
                    chk.violation("S1", key, "same-call[%s]" % path, "count and squared-error come from the very same np.histogram call", **w2)
                chk.instance(
                    "S2", "%s [%s] weights count=%s error=%s" % (key, path, norm_text(cw) if cw is not None else "-", norm_text(ew) if ew is not None else "-")
                )
                if cw is None and ew is None:
                    pass  # unit weights: w = w**2 = 1
                elif cw is None:
                    chk.violation("S2", key, "weights[%s]" % path, "count histogram is unweighted but the error histogram is weighted by `%s`" % norm_text(ew), **w2)
                elif ew is None:
                    chk.violation("S2", key, "weights[%s]" % path, "count histogram is weighted by `%s` but the error histogram is unweighted" % norm_text(cw), **w2)
                else:
                    base = square_base(ew)
                    if base is None or base != norm_text(cw):
                        chk.violation(
                            "S2", key, "weights[%s]" % path,
                            "error histogram is weighted by `%s`; it must be the square of the count weights `%s` (sum of w**2)" % (norm_text(ew), norm_text(cw)), **w2
                        )
                # binning handed on must be the edges of one of the two sibling calls
                if "binning" in b and isinstance(b["binning"], ast.Name):
                    bd = reach.at(st, b["binning"].id)
                    ok = any(_is_np_histogram(d[1]) and d[2] == 1 for d in bd)
                    if not ok:
                        chk.violation("S1", key, "binning-source", "`%s` handed to the histogram is not the edge output of np.histogram" % b["binning"].id, **where)
    chk.require_count("S1", MIN_S1)
    chk.require_count("S2", MIN_S1)
    chk.require_count("S3", MIN_S3)


def _attr_pair(e, attr, a, b):
    """e is a.attr OP b.attr  -> op symbol"""
    if isinstance(e, ast.BinOp) and isinstance(e.op, (ast.Add, ast.Sub)):
        l, r = norm_text(e.left), norm_text(e.right)
        if isinstance(e.op, ast.Add) and {l, r} == {"%s.%s" % (a, attr), "%s.%s" % (b, attr)}:
            return "+"
        if isinstance(e.op, ast.Sub) and (l, r) == ("%s.%s" % (a, attr), "%s.%s" % (b, attr)):
            return "-"
    return None


def check_hist_algebra(repo, chk):
    for key, op in sorted(HIST_ALGEBRA.items()):
        fn = repo.fn(key)
        if len(fn.params) != 2:
            raise AnalysisError("%s: signature changed" % key)
        a, b = fn.params
        count = error = None
        node = fn.node
        for call, bnd in find_sinks(repo, fn):
            if "count" in bnd and "error" in bnd:
                count, error, node = bnd["count"], bnd["error"], call
        for n in walk_local(fn.node):
            if isinstance(n, ast.Assign) and len(n.targets) == 1 and isinstance(n.targets[0], ast.Attribute):
                if n.targets[0].attr == "count":
                    count, node = n.value, n
                elif n.targets[0].attr == "error":
                    error = n.value
        if count is None or error is None:
            raise AnalysisError("%s: count/error of the combined histogram not found" % key)
        chk.instance("S4", "%s count=`%s` error=`%s`" % (key, norm_text(count), norm_text(error)))
        # decided on the canonical algebraic form (helper functions of the module are inlined),
        # with a syntactic fallback when the expression is not a single-path kernel
        import sympy as _sp

        from ..sym import Translator as _Tr
        from ..sym import Unmodelled as _Un
        from ..sym import equal as _eq

        ca, cb, ea, eb = _sp.symbols("count_a count_b", real=True) + _sp.symbols("err_a err_b", positive=True)
        env = {a: {"count": ca, "error": ea, "binning": _sp.Symbol("bins")}, b: {"count": cb, "error": eb, "binning": _sp.Symbol("bins")}}
        try:
            tr = _Tr(repo)
            try:
                # the straight-line statements before the combined histogram is built may bind temporaries
                env_run = dict(env)
                for st_ in fn.node.body:
                    if isinstance(st_, ast.Assign) and len(st_.targets) == 1 and isinstance(st_.targets[0], ast.Name):
                        try:
                            tr.exec_stmt(st_, env_run, fn.mod, 0)
                        except _Un:
                            env_run.pop(st_.targets[0].id, None)
                cv = _sp.sympify(tr.eval(count, dict(env_run), fn.mod, 0))
                evv = _sp.sympify(tr.eval(error, dict(env_run), fn.mod, 0))
            except _sp.SympifyError as e_:
                raise _Un("count / error of the combined histogram are not expressions of the operands: %s" % e_)
            want_c = ca + cb if op == "+" else ca - cb
            ok_c = bool(_eq(cv, want_c)[0])
            ok_e = bool(_eq(evv ** 2, ea ** 2 + eb ** 2)[0]) and evv.is_nonnegative is not False
        except _Un:
            ok_c = _attr_pair(count, "count", a, b) == op
            inner = sqrt_arg(error)
            ok_e = False
            if inner is not None and isinstance(inner, ast.BinOp) and isinstance(inner.op, ast.Add):
                bases = {square_base(inner.left), square_base(inner.right)}
                ok_e = bases == {"%s.error" % a, "%s.error" % b}
        if not ok_c:
            chk.violation("S4", key, "count", "combined count `%s` is not %s.count %s %s.count" % (norm_text(count), a, op, b), file=HIST, line=node.lineno)
        if not ok_e:
            chk.violation(
                "S4", key, "error",
                "combined error `%s` is not sqrt(%s.error**2 + %s.error**2): the sum of squared weights is additive for sums and differences"
                % (norm_text(error), a, b), file=HIST, line=node.lineno,
            )
    chk.require_count("S4", MIN_S4)


def other_histogram_sites(repo, chk):
    listed = set(HIST_BUILDERS)
    for f in sorted(repo.all_fns(), key=lambda f: f.key):
        calls = [n for n in walk_local(f.node) if _is_np_histogram(n)]
        if not calls or f.key in listed:
            continue
        weighted = [c for c in calls if hist_signature(c)[1] is not None]
        if len(calls) >= 2 and weighted:
            raise AnalysisError(
                "%s builds several weighted np.histogram results but is not in the frozen builder table of C20(b); read it and extend HIST_BUILDERS"
                % f.key
            )
        sq = [n for n in walk_local(f.node) if sqrt_arg(n) is not None]
        chk.info(
            "%s: %d np.histogram call(s)%s outside the sibling rule%s"
            % (f.key, len(calls), " (weighted)" if weighted else "",
               "; it takes a sqrt of the weighted count (Poisson-style error, not sqrt(sum w**2)) - not claimed" if weighted and sq else "")
        )


FIXTURE_EXPECT_MASKS = {
    # function -> (lower closed, upper closed, bound roles ok)
    "Masks.good_call": (True, False, True),
    "Masks.good_mirror": (True, False, True),
    "Masks.good_tf": (True, False, True),
    "Masks.good_negated": (True, False, True),
    "Masks.good_chained": (True, False, True),
    "Masks.good_upper_closed": (False, True, True),
    "Masks.bad_closed_closed": (True, True, True),
    "Masks.bad_open_open": (False, False, True),
    "Masks.bad_negated": (True, True, True),
    "Masks.bad_swapped": (True, False, False),
}
FIXTURE_EXPECT_CHAINS = {
    # function -> (chain closed, outer edges are base[0]/base[1])
    "Splitters.good_chain": (True, True),
    "Splitters.bad_gap": (False, True),
    "Splitters.bad_no_chain": (False, True),
    "Splitters.bad_outer": (True, False),
}
FIXTURE_EXPECT_BASES = {"Bases.good": ("min", 0.0, "max", 1e-6), "Bases.bad_unpadded": ("min", -1e-6, "max", 0.0)}


def _fixture(chk):
    """the analyser primitives must classify the hand-written examples as expected"""
    import os

    from ..model import Repo

    here = os.path.join(os.path.dirname(os.path.dirname(os.path.abspath(__file__))), "fixtures", "c20")
    frepo = Repo(here, package="tf_pwa")
    mod = frepo.mod("tf_pwa/bins.py")
    n = 0
    for q, exp in FIXTURE_EXPECT_MASKS.items():
        f = mod.funcs[q]
        ss, _ = mask_sites(f)
        got = None
        if len(ss) == 1:
            got = (ss[0].lower_closed, ss[0].upper_closed, bound_roles(ss[0])[0])
        if got != exp:
            raise AnalysisError("C20 fixture %s: expected %s, analysis says %s" % (q, exp, got))
        n += 1
    for q, exp in FIXTURE_EXPECT_CHAINS.items():
        f = mod.funcs[q]
        closed, outer = True, True
        for it in (0, 1, 2, 3):
            pairs = edge_chain(f, it)
            closed &= all(pairs[k][1] == pairs[k + 1][0] for k in range(len(pairs) - 1))
            a, b = _component(pairs[0][2].elts[0]), _component(pairs[-1][2].elts[1])
            outer &= bool(a and b and a[0] == b[0] and (a[1], b[1]) == (0, 1))
        if (closed, outer) != exp:
            raise AnalysisError("C20 fixture %s: expected %s, analysis says %s" % (q, exp, (closed, outer)))
        n += 1
    for q, exp in FIXTURE_EXPECT_BASES.items():
        bp = base_pairs(mod.funcs[q])
        got = (bp[0][1][0], bp[0][1][1], bp[0][2][0], bp[0][2][1]) if len(bp) == 1 else None
        if got != exp:
            raise AnalysisError("C20 fixture %s: expected %s, analysis says %s" % (q, exp, got))
        n += 1
    sq = {"w ** 2": "w", "w * w": "w", "np.square(w)": "w", "np.power(w, 2)": "w", "w": None, "w * v": None, "w ** 3": None}
    for src, exp in sq.items():
        if square_base(ast.parse(src, mode="eval").body) != exp:
            raise AnalysisError("C20 fixture square_base(%s) != %s" % (src, exp))
        n += 1
    a = hist_signature(ast.parse("np.histogram(m, b, range=r, weights=w)", mode="eval").body)
    b = hist_signature(ast.parse("np.histogram(m, range=r, bins=b, weights=w ** 2)", mode="eval").body)
    c = hist_signature(ast.parse("np.histogram(m, b, range=q, weights=w ** 2)", mode="eval").body)
    if a[0] != b[0] or a[0] == c[0]:
        raise AnalysisError("C20 fixture hist_signature normalisation")
    n += 2
    chk.instance("P1", "fixture: %d positive/negative examples classified as expected" % n, nontrivial=False)


def run(repo, chk, tier):
    from ..cacheown import check_persistent_state

    check_persistent_state(repo, chk, ["tf_pwa/generator/", "tf_pwa/adaptive_bins.py", "tf_pwa/histogram.py"])
    chk.rule("P1", "every bin-membership mask of AdaptiveBound is half-open (exactly one closed side)")
    chk.rule("P2", "all mask sites close the same side")
    chk.rule("P3", "lower/upper bound of a mask are components 0/1 of one (lower, upper) pair")
    chk.rule("P4", "per-coordinate masks are reduced with all() over the coordinate axis")
    chk.rule("E1", "1-d splitter: upper bound of bin k is the same value as the lower bound of bin k+1; outer edges are the base bound")
    chk.rule("E2", "n-d splitter: one axis expression for coordinate, parent bound and child corners; children appended as (lower, upper); child data selected by the mask")
    chk.rule("B1", "a base bound from data extrema pads the open side strictly outwards")
    chk.rule("S1", "count and squared-error np.histogram calls have identical arguments except weights")
    chk.rule("S2", "weights are w and w**2 of the same w (or both absent)")
    chk.rule("S3", "stored error is sqrt of the squared-weight histogram")
    chk.rule("S4", "histogram +/-: counts combine linearly, errors in quadrature")
    chk.assume("comparisons, np.percentile/np.min/np.max and np.histogram have their numpy meaning; events lie inside the base bound the bins were built from")
    chk.assume("the padding constant is representable relative to the data scale (max + 1e-6 > max); value-level, not decided")
    chk.assume("an expression evaluated twice on unchanged operands yields the same value (edge chain compares substituted expressions)")
    _fixture(chk)
    from .c20_bins import check_bins_semantics

    bins_decided = check_bins_semantics(repo, chk)
    from .c20_thin import check_grid_unravel

    check_grid_unravel(repo, chk)
    real_violation, real_require = chk.violation, chk.require_count
    notes = []

    def _viol(rule, where, construct, msg, **kw):
        if rule in ("P1", "P2", "P3", "P4", "E1", "E2", "B1") and where in bins_decided:
            notes.append((rule, where, construct))
            return
        real_violation(rule, where, construct, msg, **kw)

    chk.violation = _viol
    chk.require_count = lambda rule, n: None if (rule in ("P1", "P2", "P3", "P4", "E1", "E2", "B1") and len(bins_decided) >= 3) else real_require(rule, n)
    try:
        check_partition(repo, chk)
    except AnalysisError as e:
        if any(k.split("::")[1] in str(e) or k.split(".")[-1] in str(e) for k in bins_decided) or ("adaptive_bins.py::" in str(e) and len(bins_decided) >= 3):
            # (also a helper of the binning class that the interpreted functions call: its callers are decided)
            chk.info("syntactic partition rules not completed (%s); the functions involved are decided by B-sem" % e)
        else:
            raise
    finally:
        chk.violation, chk.require_count = real_violation, real_require
    for rule, where, construct in notes:
        chk.info("%s pattern not recognised in %s (%s); decided by B-sem" % (rule, where, construct))
    from .c20_hist import check_hist_semantics

    decided = check_hist_semantics(repo, chk)
    if set(HIST_BUILDERS) <= decided:
        # both builders are decided by interpretation; the syntactic sibling rules S1-S3 only add information
        real_violation, real_require = chk.violation, chk.require_count
        notes = []
        chk.violation = lambda rule, where, construct, msg, **kw: notes.append((rule, where, construct)) if rule in ("S1", "S2", "S3") else real_violation(rule, where, construct, msg, **kw)
        chk.require_count = lambda rule, n: None if rule in ("S1", "S2", "S3") else real_require(rule, n)
        try:
            check_hist_builders(repo, chk)
        except AnalysisError as e:
            chk.info("S1-S3: builder shape not recognised (%s); decided by S-sem" % e)
        finally:
            chk.violation, chk.require_count = real_violation, real_require
        for rule, where, construct in notes:
            chk.info("%s pattern not recognised in %s (%s); the builder is decided by S-sem" % (rule, where, construct))
    else:
        check_hist_builders(repo, chk)
    check_hist_algebra(repo, chk)
    other_histogram_sites(repo, chk)
    chk.info("not decided (statistical): acceptance-rejection counts and weight bound (generator/generator.py, config_loader/sample.py, applications.gen_data), "
             "CDF inversion (generator/linear_interpolation.py, interp_nd.py, breit_wigner.py), near-equal bin populations (np.percentile)")
    from .c20_thin import check_interp_sampling, check_multi_sampling, check_thinning

    check_multi_sampling(repo, chk)
    check_interp_sampling(repo, chk)
    # the phase-space generator handed to the toy machinery finds every particle under its own mass (shared with C10)
    from .c10 import node_order

    node_order(repo, chk)
    # the older statement-level rule T-thin only adds information now: M-sem decides the thinning block by what
    # multi_sampling returns (mask formula with the old bound, applied to the merged earlier events, bound raised)
    real_v = chk.violation
    notes_t = []
    chk.violation = lambda rule, where, construct, msg, **kw: notes_t.append((rule, construct)) if rule == "T-thin" else real_v(rule, where, construct, msg, **kw)
    try:
        check_thinning(repo, chk)
    except AnalysisError as e:
        chk.info("T-thin: statement-level rule not completed (%s); multi_sampling is decided by M-sem" % e)
    finally:
        chk.violation = real_v
    for rule, construct in notes_t:
        chk.info("T-thin pattern not recognised (%s); multi_sampling is decided by M-sem" % construct)
    from .c20_thin import check_accept_bound

    check_accept_bound(repo, chk)
