"""C12 clause E5-coef: cg_coef, interpreted on a finite grid of spins with sympy's CG(j1, m1, j2, m2, j3, m3)
replaced by the exact coefficient of the arguments it receives, returns the exact <jb mb jc mc | ja ma> -
including outside the selection rules (triangle rule, M = m1 + m2, parity of j1 + j2 - J), where it is 0.
The code only compares and forwards its arguments, so each grid point exercises one path exactly; shortcuts that
return a constant without consulting CG are decided like every other path."""
import ast
from fractions import Fraction

import sympy as sp

from ..model import AnalysisError
from ..sym import Raised, Translator, Unmodelled

CG_REL = "tf_pwa/cg.py"


def check_cg_coef(repo, chk, tier, cg_sq):
    chk.rule("E5-coef", "cg_coef (sympy branch, CG(...) read as the exact coefficient of its six arguments) equals the exact <jb mb jc mc|ja ma> at every grid point, selection-rule violating points included")
    fn = repo.fn(CG_REL + "::cg_coef")
    if fn.params != ["jb", "jc", "mb", "mc", "ja", "ma"]:
        raise AnalysisError("cg_coef parameters changed: %s" % fn.params)

    def exact(j1, m1, j2, m2, J, M):
        sign, sq = cg_sq(*[Fraction(str(sp.nsimplify(x))) for x in (j1, m1, j2, m2, J, M)])
        return sp.Integer(0) if sign == 0 else sign * sp.sqrt(sp.Rational(sq.numerator, sq.denominator))

    def numeric(tr, d, args, kwargs, n):
        if d.split(".")[-1] in ("Rational", "Fraction") and 1 <= len(args) <= 2:
            return sp.Rational(*[sp.nsimplify(a_) for a_ in args])
        if d.split(".")[-1] in ("S", "sympify", "nsimplify", "Integer", "Float") and len(args) == 1:
            return sp.nsimplify(args[0])
        if d.split(".")[-1] == "CG":
            if len(args) != 6 or kwargs:
                kw = ("j1", "m1", "j2", "m2", "j3", "m3")
                args = list(args) + [kwargs[k] for k in kw[len(args):]]
            return exact(*args)
        return NotImplemented

    jmax = Fraction(3, 2) if tier == "quick" else Fraction(5, 2)
    half = Fraction(1, 2)
    spins = [half * k for k in range(int(jmax / half) + 1)]
    n, bad = 0, []
    def isinst(tr_, a_, k_, n_):
        # callers hand spins over as python ints (integer spin) or floats (half-integer spin): in the abstract run an
        # integer-valued number plays the int, anything else the float
        names = [ast.unparse(e) for e in (n_.args[1].elts if isinstance(n_.args[1], ast.Tuple) else [n_.args[1]])]
        v = a_[0]
        is_int = isinstance(v, int) and not isinstance(v, bool) or bool(getattr(v, "is_Integer", False))
        return ("int" in names and is_int) or ("float" in names and not is_int and (isinstance(v, float) or bool(getattr(v, "is_number", False))))

    tr = Translator(repo, hooks={"numeric_call": numeric, "allow_raise": True, "builtin.isinstance": isinst}, max_depth=3)
    for jb in spins:
        for jc in spins:
            mbs = [-jb + k for k in range(int(2 * jb) + 1)]
            mcs = [-jc + k for k in range(int(2 * jc) + 1)]
            J = Fraction(0)
            while J <= jb + jc + 1:
                for mb in mbs:
                    for mc in mcs:
                        for ma in (mb + mc, mb + mc + 1):
                            if abs(ma) > J or (J - ma).denominator != 1:
                                continue
                            vals = [sp.Rational(x.numerator, x.denominator) for x in (jb, jc, mb, mc, J, ma)]
                            env = dict(zip(fn.params, vals))
                            env["has_sympy"] = True
                            try:
                                r = tr.exec_body(fn.node.body, env, fn.mod, 0)
                            except Raised as e:
                                bad.append("cg_coef%s raises %s" % (tuple(str(v) for v in vals), e))
                                n += 1
                                continue
                            except Unmodelled as e:
                                raise AnalysisError("cg_coef is not interpretable at %s: %s" % (vals, e))
                            got = sp.sympify(r[1]) if r else None
                            want = exact(vals[0], vals[2], vals[1], vals[3], vals[4], vals[5])
                            n += 1
                            if got is None or abs(float(got) - float(want)) > 1e-12:
                                bad.append("cg_coef(jb=%s, jc=%s, mb=%s, mc=%s, ja=%s, ma=%s) = %s, exact value %s" % (*[str(v) for v in vals], got, want))
                J += half
    chk.oblige("E5-coef", "cg_coef interpreted at %d grid points (spins <= %s, J up to j1+j2+1, M in {m1+m2, m1+m2+1}): %d deviations" % (n, jmax, len(bad)), not bad)
    if bad:
        chk.violation("E5-coef", fn.key, "value", "%d of %d grid points deviate from the exact coefficient; first: %s" % (len(bad), n, bad[0]), file=CG_REL, line=fn.lineno)
    if n < 500:
        raise AnalysisError("E5-coef: only %d grid points" % n)
