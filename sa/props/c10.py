"""C10 - phase-space events are physical, exactly counted (structural / algebraic clauses only).

Decided (exact identities of canonical algebraic forms, plus interpretation of the generator's bookkeeping on
symbolic masses for n = 2..6 bodies):

  E6-step    one two-body step generate_momentum_i(m0, m1, m2): the new particle is on the m2 shell, the recoil on
             the m1 shell, three-momenta balance and the energies add up to m0 (q = get_p(m0, m1, m2), above
             threshold; cos(theta) free, phi rationally parametrised)
  E6-recoil  later steps: a system at rest with total four-momentum (m1, 0, 0, 0) is boosted by rest_vector(p_boost, .)
             into the recoil four-vector of that step; rest_vector is linear in the boosted vector and keeps its
             invariant mass.  By induction over the steps every event has all particles on shell and the momenta add
             up to (m0, 0, 0, 0).
  S-roles    generate_momentum unrolled for n = 2..6 with the step abstracted: step i decays the system mass of
             level i+1 into the system of level i and particle -(i+2); the first system is the last particle, the last
             system mass is m0; the output list carries the particles in declaration order
  S-count    generate(): the refill loop runs while fewer than n_iter events are accepted, the accepted masses of
             every round are concatenated component-wise, and with force=True every component is cut to [:n_iter]
             before momenta are built
  E6-mono    get_p(M, ma, mb)^2 is non-decreasing in M and non-increasing in ma on the physical region
             (sign certificates: polynomials with non-negative coefficients in slack variables)
  S-bound    the default acceptance weight never exceeds one: for n = 3..6 the factors of get_weight are
             get_p(M_{i+1}, M_i, mu) with the same daughter masses as the factors of the bound computed by set_decay,
             every generated system mass lies between the bound's (emmin, emmax) of its level (certificates in the
             uniform variates r_k = u_k/(1+u_k)), and the importance factor (b - a)/(b - a_min) is at most one
  T-chain    ChainGenerator: every sub-tree is boosted with the momentum of its own head, and
             rest_vector(neg(p0), (m, 0, 0, 0)) = p0 for an on-shell p0 of mass m

NOT decided: the distribution of the accepted events (flatness), cal_max_weight (a numerical maximisation that
replaces the analytic bound), double-precision rounding, the statistical behaviour of the refill estimate.
"""
import ast

import numpy as np
import sympy as sp

from ..model import AnalysisError, norm_text, walk_local
from ..sym import PyFunc, SelfObj, Translator, Unmodelled, default_where_policy, equal

LEVEL = "proof"
PS = "tf_pwa/phasespace.py"
K = PS + "::"
LV = "tf_pwa/angle.py::LorentzVector."


def policy(cond, tr):
    d = default_where_policy(cond, tr)
    if d is not None:
        return d
    # get_p: tf.where(p2 <= 0, 0, p2) and set_decay: `if self.m_teCmTm <= 0: raise` - above threshold
    if isinstance(cond, (sp.LessThan, sp.StrictLessThan)) and cond.rhs == 0:
        return False
    # LorentzVector.boost: tf.where(beta2 > eps, ...) - the velocity is not exactly zero
    if isinstance(cond, (sp.StrictGreaterThan, sp.GreaterThan)) and cond.rhs.is_number and abs(float(cond.rhs)) < 1e-9:
        return True
    if isinstance(cond, (sp.StrictLessThan, sp.LessThan)) and cond.lhs.is_number and 0 < abs(float(cond.lhs)) < 1e-9:
        return True
    # the complementary spellings of the same guard (`beta2 <= eps`, `eps >= beta2`)
    if isinstance(cond, (sp.StrictLessThan, sp.LessThan)) and cond.rhs.is_number and 0 < abs(float(cond.rhs)) < 1e-9:
        return False
    if isinstance(cond, (sp.StrictGreaterThan, sp.GreaterThan)) and cond.lhs.is_number and 0 < abs(float(cond.lhs)) < 1e-9:
        return False
    return None


def nonneg_certificate(expr, positives):
    """True when expr = N/D with N, D polynomials in the positive symbols `positives` whose coefficients are all >= 0
    (D not identically 0): a syntactic certificate of expr >= 0"""
    e = sp.together(sp.sympify(expr))
    num, den = sp.fraction(e)
    for part in (num, den):
        part = sp.expand(part)
        if part == 0:
            if part is den:
                return False
            continue
        try:
            poly = sp.Poly(part, *positives)
        except sp.PolynomialError:
            return False
        if poly.free_symbols - set(positives) or any(not (c.is_number and c >= 0) for c in poly.coeffs()):
            # allow an overall sign flip of numerator and denominator together
            return None if part is num else False
    return True


def certificate(expr, positives):
    r = nonneg_certificate(expr, positives)
    if r is None:  # try -N / -D
        e = sp.together(sp.sympify(expr))
        num, den = sp.fraction(e)
        r = nonneg_certificate((-num) / (-den), positives) if False else None
        n2, d2 = sp.expand(-num), sp.expand(-den)
        try:
            ok = all(c.is_number and c >= 0 for c in sp.Poly(n2, *positives).coeffs()) and all(c.is_number and c >= 0 for c in sp.Poly(d2, *positives).coeffs())
        except sp.PolynomialError:
            ok = False
        return ok
    return bool(r)


def run(repo, chk, tier):
    from ..cacheown import check_persistent_state

    check_persistent_state(repo, chk, ["tf_pwa/phasespace.py", "tf_pwa/config_loader/sample.py"])
    chk.trusted_base[:] = ["AST->sympy translator sa/sym.py (tensor ops mapped to numpy object arrays)", "sympy ring normaliser / factor_list", "composition lemmas stated in the rule texts (induction over the steps; product of factor-wise bounds)"]
    chk.assume("domain: masses positive, positive Q value at every level (m0 = m1 + m2 + t, t > 0): tf.where(p2 <= 0, 0, p2) takes its second branch; boost velocity not exactly zero")
    chk.assume("uniform variates are modelled as free quantities in their range: cos(theta) in (-1, 1) with sin(theta) = sqrt(1 - cos^2) as in the code, phi = 2 atan(tt), mass variates r_k = u_k / (1 + u_k)")
    split_protocol = step_identities(repo, chk)
    cascade(repo, chk)
    roles(repo, chk, split_protocol)
    count(repo, chk)
    bound(repo, chk, tier)
    chain(repo, chk)
    node_order(repo, chk)
    massless_config(repo, chk)
    dtype_flow(repo, chk)
    chk.info("not decided: flatness of the accepted sample, cal_max_weight (numerical maximisation), rounding, refill estimate")


def oblige(repo, chk, rule, text, a, b, where, construct, dom=None):
    ok, detail = equal(sp.sympify(a), sp.sympify(b), symbols_domain=dom or {"c": (sp.Rational(-9, 10), sp.Rational(9, 10))})
    if ok is None:
        raise AnalysisError("E6 normaliser too weak for %s: %s" % (text, detail))
    chk.oblige(rule, text, ok)
    if not ok:
        f = repo.fn_opt(where)
        chk.violation(rule, where, construct, "%s does not hold: %s" % (text, detail), file=where.split("::")[0], line=f.lineno if f else None)


def M2(p):
    return p[0] ** 2 - p[1] ** 2 - p[2] ** 2 - p[3] ** 2


# --------------------------------------------------------------------------------------- E6-step / E6-recoil
def step_identities(repo, chk):
    chk.rule("E6-step", "generate_momentum_i(m0, m1, m2), first step: new particle on the m2 shell, recoil on the m1 shell, three-momenta balance, energies add up to m0")
    chk.rule("E6-flat", "necessary conditions of flatness: each two-body step draws cos(theta) = 2u - 1 and phi = 2 pi u' from its two uniform variates (isotropic in the parent rest frame); the proposal density of the system masses times the importance factor is constant, so that accepted masses are distributed like the product of get_p factors (the recursive phase-space mass spectrum)")
    chk.rule("E6-recoil", "generate_momentum_i, later steps: the earlier system (m1, 0, 0, 0) is boosted into the recoil four-vector; rest_vector is linear and mass preserving (so shells and four-momentum conservation propagate through the cascade)")
    fn = repo.fn(K + "PhaseSpaceGenerator.generate_momentum_i")
    m1, m2, t = sp.symbols("m1 m2 t", positive=True)
    m0 = m1 + m2 + t
    c = sp.Symbol("c", real=True)
    tt = sp.Symbol("tt", real=True)
    PHI = sp.Symbol("PHI", real=True)
    cphi, sphi = (1 - tt ** 2) / (1 + tt ** 2), 2 * tt / (1 + tt ** 2)
    counter = [0]

    def numeric(tr, d, args, kwargs, n):
        if d.split(".")[-1] == "uniform":
            counter[0] += 1
            u_ = (c + 1) / 2 if counter[0] % 2 == 1 else PHI / (2 * sp.pi)
            lo_, hi_ = sp.sympify(kwargs.get("minval", 0)), sp.sympify(kwargs.get("maxval", 1))
            return lo_ + (hi_ - lo_) * u_
        return NotImplemented

    odd_phase = []

    def trig(kind):
        def f(tr, a):
            if a == PHI:
                return cphi if kind == "cos" else sphi
            if sp.sympify(a).has(PHI):
                odd_phase.append(sp.sympify(a))
            return sp.cos(a) if kind == "cos" else sp.sin(a)
        return f

    hooks = {"numeric_call": numeric, "allow_shape": True, "stack_as_array": True, "unary:cos": trig("cos"), "unary:sin": trig("sin")}
    tr = Translator(repo, hooks=hooks, where_policy=policy, max_depth=6)
    W = fn.key

    def call(p_list):
        counter[0] = 0
        try:
            return tr.call_fn(fn, [m0, m1, m2, sp.Symbol("n", positive=True), p_list], self_obj=SelfObj(repo.cls(K + "PhaseSpaceGenerator"), {}))
        except Unmodelled as e:
            raise AnalysisError("generate_momentum_i is not a single-path kernel any more: %s" % e)

    out = call([])
    if not (isinstance(out, list) and len(out) in (1, 2) and all(isinstance(p, np.ndarray) and p.shape == (4,) for p in out)):
        raise AnalysisError("generate_momentum_i(first step) no longer returns [particle, recoil] four-vectors")
    split_protocol = len(out) == 1
    if split_protocol:
        # the step no longer adds the recoil itself when it is handed nothing to boost: the caller must seed the list.
        # The recoil identities are then taken from the step applied to the earlier system at rest, and E6-cascade
        # decides the cascade as a whole (massless daughters included)
        chk.info("E6-step: generate_momentum_i([]) returns the new particle only; recoil identities taken from the boosted earlier system")
        out = call([np.array([m1, 0, 0, 0], dtype=object)])
        if not (isinstance(out, list) and len(out) == 2):
            raise AnalysisError("generate_momentum_i(first step) no longer returns [particle, recoil] four-vectors")
    p, r = out
    if odd_phase:
        # the azimuth is not 2 pi u': report it and continue with the angle the code uses as the free azimuth
        chk.oblige("E6-flat", "azimuth phi == 2 pi u'", False)
        chk.violation("E6-flat", W, "azimuth", "the azimuth handed to cos/sin is %s with u' = PHI/(2 pi), not 2 pi u': phi does not cover the circle uniformly" % odd_phase[0], file=PS, line=fn.lineno)
        raise AnalysisError("step identities not evaluated with a non-standard azimuth")
    oblige(repo, chk, "E6-step", "new particle on shell: E^2 - |p|^2 == m2^2", M2(p), m2 ** 2, W, "shell-new")
    oblige(repo, chk, "E6-step", "recoil on shell: E^2 - |p|^2 == m1^2", M2(r), m1 ** 2, W, "shell-recoil")
    for k, nm in ((1, "x"), (2, "y"), (3, "z")):
        oblige(repo, chk, "E6-step", "three-momentum balance, component %s" % nm, p[k] + r[k], 0, W, "balance-%s" % nm)
    oblige(repo, chk, "E6-step", "energies add up to the parent mass: E_new + E_recoil == m0", p[0] + r[0], m0, W, "energy")
    oblige(repo, chk, "E6-step", "|p| is get_p(m0, m1, m2): |p|^2 == lambda(m0^2, m1^2, m2^2) / (4 m0^2)", p[1] ** 2 + p[2] ** 2 + p[3] ** 2,
           (m0 ** 2 - (m1 + m2) ** 2) * (m0 ** 2 - (m1 - m2) ** 2) / (4 * m0 ** 2), W, "momentum")
    # isotropy: with the two uniform variates written as (c + 1)/2 and PHI/(2 pi) the direction is (sin th cos ph, sin th sin ph, cos th)
    # with cos th = c, ph = PHI - i.e. cos(theta) = 2u - 1 is uniform on (-1, 1) and phi = 2 pi u' is uniform on (0, 2 pi)
    qq = sp.sqrt((m0 ** 2 - (m1 + m2) ** 2) * (m0 ** 2 - (m1 - m2) ** 2)) / (2 * m0)
    oblige(repo, chk, "E6-flat", "direction: p_z == |p| (2u - 1)", p[3], qq * c, W, "iso-z")
    oblige(repo, chk, "E6-flat", "direction: p_x == |p| sin(theta) cos(2 pi u')", p[1], qq * sp.sqrt(1 - c ** 2) * cphi, W, "iso-x")
    oblige(repo, chk, "E6-flat", "direction: p_y == |p| sin(theta) sin(2 pi u')", p[2], qq * sp.sqrt(1 - c ** 2) * sphi, W, "iso-y")
    # later step: earlier system at rest with mass m1
    out2 = call([np.array([m1, 0, 0, 0], dtype=object)])
    if not (isinstance(out2, list) and len(out2) == 2):
        raise AnalysisError("generate_momentum_i(later step) no longer returns [particle] + boosted earlier vectors")
    b = out2[1]
    for k, nm in enumerate("txyz"):
        oblige(repo, chk, "E6-recoil", "earlier system (m1,0,0,0) boosted == recoil four-vector, component %s" % nm, b[k], r[k], W, "recoil-%s" % nm)
    # linearity and mass invariance of rest_vector (generic on-shell-free vectors)
    rv = repo.fn(LV + "rest_vector")
    A = np.array(sp.symbols("a0 a1 a2 a3", positive=True), dtype=object)
    P = np.array(sp.symbols("p0 p1 p2 p3", real=True), dtype=object)
    Q = np.array(sp.symbols("q0 q1 q2 q3", real=True), dtype=object)
    tr2 = Translator(repo, hooks={"stack_as_array": True}, where_policy=policy, max_depth=6)
    try:
        rP, rQ, rPQ = tr2.call_fn(rv, [A, P]), tr2.call_fn(rv, [A, Q]), tr2.call_fn(rv, [A, P + Q])
    except Unmodelled as e:
        raise AnalysisError("LorentzVector.rest_vector is not a single-path kernel any more: %s" % e)
    for k, nm in enumerate("txyz"):
        oblige(repo, chk, "E6-recoil", "rest_vector(A, P + Q) == rest_vector(A, P) + rest_vector(A, Q), component %s" % nm, rPQ[k], rP[k] + rQ[k], rv.key, "linear-%s" % nm)
    oblige(repo, chk, "E6-recoil", "rest_vector keeps the invariant mass of the boosted vector", M2(rP), M2(P), rv.key, "mass")
    return split_protocol


# --------------------------------------------------------------------------------------- E6-cascade
_CASCADES = [
    # (m0, [daughter masses], [system masses drawn by generate_mass])  - all two-body momenta are rational
    (5, [sp.Rational(3, 2), sp.Rational(3, 2)], []),
    (5, [1, 0], []),
    (5, [0, 1], []),
    (5, [0, 0], []),
    (5, [0, 1, 0], [3]),
    (5, [1, 0, 0], [2]),
    (5, [0, 0, 1], [3]),
    (5, [0, 0, 1, 0], [2, 3]),
    (5, [1, 0, 0, 0], [1, 3]),
]


def cascade(repo, chk):
    """generate_momentum as a whole (however the work is split between it and its step function) at exact rational
    points, massless daughters in every position included"""
    chk.rule("E6-cascade", "generate_momentum interpreted as a whole with the real two-body step, at exact rational points (n = 2..4; massive and massless daughters in every position, the last one included; rational directions): every momentum is finite, lies on its own mass shell, and the momenta add up to (m0, 0, 0, 0)")
    cls = repo.cls(K + "PhaseSpaceGenerator")
    gm = cls.methods.get("generate_momentum")
    if gm is None:
        raise AnalysisError("PhaseSpaceGenerator.generate_momentum vanished")
    dirs = [(sp.Rational(3, 5), sp.Rational(1, 2)), (sp.Rational(-5, 13), sp.Integer(2)), (sp.Rational(8, 17), sp.Rational(-1, 3))]
    n_ok = 0
    for m0, masses, systems in _CASCADES:
        counter = [0]
        phis = {}

        def numeric(tr, d, args, kwargs, n):
            if d.split(".")[-1] == "uniform":
                k = counter[0] // 2
                odd = counter[0] % 2
                counter[0] += 1
                c_, t_ = dirs[k % len(dirs)]
                lo_, hi_ = sp.sympify(kwargs.get("minval", 0)), sp.sympify(kwargs.get("maxval", 1))
                if not odd:
                    return lo_ + (hi_ - lo_) * (c_ + 1) / 2
                ph = sp.Symbol("PHI%d" % k, real=True)
                phis[ph] = t_
                return lo_ + (hi_ - lo_) * ph / (2 * sp.pi)
            return NotImplemented

        def trig(kind):
            def f(tr, a):
                a = sp.sympify(a)
                if a in phis:
                    t_ = phis[a]
                    return (1 - t_ ** 2) / (1 + t_ ** 2) if kind == "cos" else 2 * t_ / (1 + t_ ** 2)
                raise AnalysisError("generate_momentum: the azimuth handed to cos / sin is %s, not 2 pi u'" % a)
            return f

        hooks = {"numeric_call": numeric, "allow_shape": True, "stack_as_array": True, "unary:cos": trig("cos"), "unary:sin": trig("sin"), "allow_attr_store": True}
        tr = Translator(repo, hooks=hooks, where_policy=policy, max_depth=8)
        so = SelfObj(cls, {"m_mass": [sp.sympify(x) for x in masses], "m_nt": sp.Integer(len(masses)), "m0": sp.Integer(m0)})
        label = "m0=%s -> %s%s" % (m0, masses, (" via systems %s" % systems) if systems else "")
        try:
            out = tr.call_fn(gm, [[sp.sympify(x) for x in systems], sp.Integer(1)], self_obj=so)
        except Unmodelled as e:
            raise AnalysisError("generate_momentum not interpretable at %s: %s" % (label, e))
        if not (isinstance(out, list) and len(out) == len(masses) and all(isinstance(q, np.ndarray) and q.shape == (4,) for q in out)):
            raise AnalysisError("generate_momentum at %s does not return one four-vector per daughter" % label)
        bad = None
        vals = []
        for q, m_ in zip(out, masses):
            comp = [sp.nsimplify(sp.simplify(sp.sympify(x))) for x in q]
            if any(x.has(sp.nan, sp.zoo, sp.oo, -sp.oo) or not x.is_number for x in comp):
                bad = "a momentum of the daughter of mass %s is not finite: %s" % (m_, [str(x) for x in comp])
                break
            if sp.simplify(M2(comp) - sp.sympify(m_) ** 2) != 0:
                bad = "the daughter of mass %s comes out with E^2 - |p|^2 = %s" % (m_, sp.simplify(M2(comp)))
                break
            vals.append(comp)
        if bad is None:
            tot = [sp.simplify(sum(v[k] for v in vals)) for k in range(4)]
            if tot != [sp.Integer(m0), 0, 0, 0]:
                bad = "the momenta add up to %s, not (%s, 0, 0, 0)" % (tot, m0)
        chk.oblige("E6-cascade", label + ": finite, on shell, balanced", bad is None)
        if bad is None:
            n_ok += 1
        else:
            chk.violation("E6-cascade", gm.key, "cascade:%s" % "-".join(str(x) for x in masses), "%s: %s" % (label, bad), file=PS, line=gm.lineno)
    chk.require_count("E6-cascade", len(_CASCADES))


# --------------------------------------------------------------------------------------- S-roles
def roles(repo, chk, split_protocol=False):
    chk.rule("S-roles", "generate_momentum (n = 2..6, step abstracted): step i is (parent system of level i+1) -> (system of level i) + particle -(i+2); the chain starts from the last particle and ends at m0; output in declaration order")
    cls = repo.cls(K + "PhaseSpaceGenerator")
    gm = cls.methods.get("generate_momentum")
    gi = cls.methods.get("generate_momentum_i")
    if gm is None or gi is None:
        raise AnalysisError("PhaseSpaceGenerator.generate_momentum / generate_momentum_i vanished")
    if not any(isinstance(c_, ast.Call) and isinstance(c_.func, ast.Attribute) and c_.func.attr == gi.name for c_ in ast.walk(gm.node)):
        # the driver no longer delegates to generate_momentum_i: the roles cannot be read off an abstracted step; the
        # cascade as a whole (E6-cascade: shells, balance, massless daughters) decides generate_momentum
        chk.info("S-roles: generate_momentum does not call generate_momentum_i any more - decided by E6-cascade")
        return
    for n in range(2, 7):
        mus = list(sp.symbols("mu0:%d" % n, positive=True))
        Mtop = sp.Symbol("M", positive=True)
        sys_m = list(sp.symbols("s1:%d" % (n - 1), positive=True)) if n > 2 else []
        calls = []

        def step(tr, args, kwargs, node):
            # abstract step: (self, m0, m1, m2, n_iter, p_list) -> [("new", m2)] + recoil or the earlier vectors
            a = list(args)
            if a and isinstance(a[0], SelfObj):
                a = a[1:]
            names = [x for x in gi.all_param_names() if x != "self"]
            bound_ = dict(zip(names, a))
            bound_.update(kwargs)
            if any(x not in bound_ for x in names[:3]):
                raise AnalysisError("generate_momentum_i called without its mass arguments")
            m0_, m1_, m2_ = (bound_[x] for x in names[:3])
            pl = bound_.get(names[4], []) if len(names) > 4 else []
            calls.append((m0_, m1_, m2_))
            ret = [("particle", m2_)]
            if len(pl) == 0 and not split_protocol:
                ret.append(("particle", m1_))
            for x in pl:
                if isinstance(x, np.ndarray) and x.shape == (4,) and all(sp.sympify(c_) == 0 for c_ in x[1:]):
                    x = ("particle", sp.sympify(x[0]))   # a particle put at rest by the caller: its mass is its energy
                ret.append(x)
            return ret

        tr = Translator(repo, hooks={gi.key: step, "allow_shape": True, "allow_attr_store": True}, where_policy=policy, max_depth=4)
        so = SelfObj(cls, {"m_mass": list(mus), "m_nt": sp.Integer(n), "m0": Mtop})
        try:
            out = tr.call_fn(gm, [list(sys_m), sp.Symbol("N", positive=True)], self_obj=so)
        except Unmodelled as e:
            raise AnalysisError("generate_momentum not interpretable for n=%d: %s" % (n, e))
        got = [x[1] if isinstance(x, tuple) else None for x in out]
        ok_order = got == mus
        levels = [mus[-1]] + sys_m + [Mtop]
        want_calls = [(levels[i + 1], levels[i], mus[-i - 2]) for i in range(n - 1)]
        ok_calls = calls == want_calls
        chk.oblige("S-roles", "n=%d: %d steps (m0, m1, m2) = %s; output masses %s" % (n, len(calls), calls if n <= 3 else "...", got if n <= 4 else "..."), ok_order and ok_calls)
        if not ok_calls:
            chk.violation("S-roles", gm.key, "steps:n=%d" % n, "n=%d: the two-body steps are %s, expected %s (each step decays the system of level i+1 into the system of level i and particle -(i+2))" % (n, calls, want_calls), file=PS, line=gm.lineno)
        if not ok_order:
            chk.violation("S-roles", gm.key, "order:n=%d" % n, "n=%d: the returned four-vectors carry the masses %s, the particles were declared as %s" % (n, got, mus), file=PS, line=gm.lineno)


# --------------------------------------------------------------------------------------- D-dtype
def dtype_flow(repo, chk):
    """get_p is called with python floats (fixed masses) as well as with float64 tensors: a python float that enters a
    TensorFlow op without a dtype becomes a float32 tensor (tf.cast / tf.where / tf.zeros_like convert first)"""
    chk.rule("D-dtype", "get_p: no TensorFlow operation receives a value that may still be a python float - the mass arguments are converted with an explicit float64 dtype / dtype_hint before they (or anything computed from them) reach tf.where / tf.cast / tf.sqrt ...: otherwise fixed (python-float) masses are rounded to float32 and a two-body decay closes only to 1e-7")
    gp = repo.fn(K + "get_p")
    tainted = set(gp.params)
    bad = []

    def is_f64_conversion(c, depth=0):
        if not isinstance(c, ast.Call):
            return False
        if isinstance(c.func, ast.Name) and c.func.id in gp.mod.funcs and depth < 2:
            # a helper of the module whose every return is a float64 conversion (of its argument)
            h = gp.mod.funcs[c.func.id]
            rets = [r.value for r in ast.walk(h.node) if isinstance(r, ast.Return) and r.value is not None]
            return bool(rets) and all(any(is_f64_conversion(x, depth + 1) for x in ast.walk(r)) for r in rets)
        if norm_text(c.func).split(".")[-1] not in ("convert_to_tensor", "constant", "float64", "asarray", "array"):
            return False
        txt = norm_text(c)
        return "float64" in txt

    def scan(expr, local_taint):
        """tf.* calls in expr that receive a tainted name"""
        for c in ast.walk(expr):
            if isinstance(c, ast.Call) and norm_text(c.func).split(".")[0] in ("tf", "tensorflow") and not is_f64_conversion(c):
                for a in list(c.args) + [k.value for k in c.keywords]:
                    inner_ok = set()
                    for cc in ast.walk(a):
                        if is_f64_conversion(cc):
                            inner_ok |= {x.id for x in ast.walk(cc) if isinstance(x, ast.Name)}
                    names = {x.id for x in ast.walk(a) if isinstance(x, ast.Name)} - inner_ok
                    if names & local_taint:
                        bad.append((c, sorted(names & local_taint)))

    def assign(targets, value, local_taint):
        names_t = [x.id for t in targets for x in ast.walk(t) if isinstance(x, ast.Name)]
        vnames = {x.id for x in ast.walk(value) if isinstance(x, ast.Name)}
        # a comprehension over the parameters whose element is a float64 conversion cleans every target
        conv_all = is_f64_conversion(value) or (isinstance(value, (ast.ListComp, ast.GeneratorExp, ast.Tuple, ast.List)) and all(
            is_f64_conversion(e) or any(is_f64_conversion(x) for x in ast.walk(e)) for e in ([value.elt] if isinstance(value, (ast.ListComp, ast.GeneratorExp)) else value.elts)))
        any_tf = any(isinstance(c, ast.Call) and norm_text(c.func).split(".")[0] in ("tf", "tensorflow") for c in ast.walk(value))
        for nm in names_t:
            if conv_all:
                local_taint.discard(nm)
            elif any_tf:
                local_taint.discard(nm)  # the result of a TensorFlow op is a tensor (its dtype was decided at that op)
            elif vnames & local_taint:
                local_taint.add(nm)
            else:
                local_taint.discard(nm)

    for st in gp.node.body:
        if isinstance(st, ast.Assign):
            scan(st.value, tainted)
            assign(st.targets, st.value, tainted)
        elif isinstance(st, ast.Return) and st.value is not None:
            scan(st.value, tainted)
        elif isinstance(st, ast.Expr):
            scan(st.value, tainted)
        elif isinstance(st, (ast.If, ast.For, ast.While, ast.With, ast.Try)):
            raise AnalysisError("get_p is no longer straight-line code: D-dtype cannot be decided")
    chk.oblige("D-dtype", "get_p: every TensorFlow op receives float64-converted values (python-float masses included)", not bad)
    for c, names in bad[:2]:
        chk.violation("D-dtype", gp.key, "float32:%s" % ",".join(names), "`%s` receives %s, which is still a python float when get_p is called with fixed masses: TensorFlow converts it to float32 first (tf.cast(x, tf.float64) too), so the break-up momentum carries a relative error of about 3e-8 and generated two-body events close only to 1e-7" % (norm_text(c)[:70], names), file=PS, line=c.lineno)


# --------------------------------------------------------------------------------------- S-perm
def node_order(repo, chk):
    """config_loader/sample.py::trans_node_order reorders the generator structure and the particle -> position table
    with the same permutation: every particle still finds its own mass"""
    import itertools
    SAMPLE = "tf_pwa/config_loader/sample.py"
    chk.rule("S-perm", "trans_node_order(struct, index, order_trans, 0), interpreted on mass tokens for every permutation of 3 and 4 top-level entries (one of them a nested sub-structure): following the new index in the new structure reaches the same mass as following the old index in the old structure, for every particle")
    fn = repo.fn_opt(SAMPLE + "::trans_node_order")
    if fn is None:
        raise AnalysisError("anchor vanished: %s::trans_node_order" % SAMPLE)

    def isinst(tr, args, kwargs, n):
        return isinstance(args[0], (list, tuple))

    def walk(struct, path):
        cur = struct
        for k in path:
            if not (isinstance(cur, (list, tuple)) and len(cur) == 2 and isinstance(cur[1], (list, tuple))):
                return None
            if not 0 <= int(k) < len(cur[1]):
                return None
            cur = cur[1][int(k)]
        return cur

    worlds = [
        (("M", ["ma", "mb", "mc"]), {"A": (0,), "B": (1,), "C": (2,)}),
        (("M", ["ma", ("mR", ["mb", "mc"]), "md"]), {"A": (0,), "R": (1,), "B": (1, 0), "C": (1, 1), "D": (2,)}),
        (("M", ["ma", "mb", ("mR", ["mc", "md"]), "me"]), {"A": (0,), "B": (1,), "R": (2,), "C": (2, 0), "D": (2, 1), "E": (3,)}),
    ]
    n_cases, bad = 0, None
    for struct, index in worlds:
        width = len(struct[1])
        for perm in itertools.permutations(range(width)):
            order = {sp.Integer(i): sp.Integer(perm[i]) for i in range(width)}
            tr = Translator(repo, hooks={"builtin.isinstance": isinst}, max_depth=6)
            idx_in = {k: tuple(sp.Integer(x) for x in v) for k, v in index.items()}
            try:
                out = tr.call_fn(fn, [(struct[0], list(struct[1])), idx_in, {int(k): v for k, v in order.items()}, sp.Integer(0)])
            except Unmodelled as e:
                raise AnalysisError("trans_node_order cannot be interpreted: %s" % e)
            n_cases += 1
            if not (isinstance(out, tuple) and len(out) == 2 and isinstance(out[1], dict)):
                raise AnalysisError("trans_node_order no longer returns (struct, index)")
            new_struct, new_index = out
            for name, path in index.items():
                want = walk(struct, path)
                got = walk(new_struct, new_index.get(name, ()))
                if got != want and bad is None:
                    bad = "order_trans %s on %s: particle %s had the mass entry %s at %s, the new index %s points at %s in %s" % (dict(enumerate(perm)), struct, name, want, path, tuple(int(x) for x in new_index.get(name, ())), got, new_struct)
    chk.oblige("S-perm", "%d permutations on 3 structures: index and structure stay consistent" % n_cases, bad is None)
    if bad:
        chk.violation("S-perm", fn.key, "consistency", bad + " - generated four-momenta are attached to the wrong particle (off-shell events)", file=SAMPLE, line=fn.lineno)


# --------------------------------------------------------------------------------------- S-count
def count(repo, chk):
    """generate() interpreted as a whole on token batches: generate_mass(n) hands out n fresh event tokens per mass
    component, flatten_mass keeps a deterministic subset (at least one per round), generate_momentum is a marker.
    Decided on the returned value: exactly n_iter events, all accepted ones, no event twice, components aligned."""
    from ..sym import TensorList
    chk.rule("S-count", "generate(n_iter) interpreted on batches of event tokens (n_iter = 1, 2, 5, 8, 13; acceptance patterns 1/2, 1/3, 2/3, and 1/150 counted over all rounds for n_iter = 1, 2, 3 - many rounds without a single accepted event): the momenta are built from exactly n_iter accepted events, none twice, the mass components aligned event by event")
    cls = repo.cls(K + "PhaseSpaceGenerator")
    fn = cls.methods.get("generate")
    need = {k: cls.methods.get(k) for k in ("generate_mass", "flatten_mass", "generate_momentum")}
    if fn is None or any(v is None for v in need.values()):
        raise AnalysisError("PhaseSpaceGenerator.generate / generate_mass / flatten_mass / generate_momentum vanished")
    ncomp = 2
    cases = 0
    for pat_name, keep in (("every 2nd", lambda k: k % 2 == 0), ("every 3rd", lambda k: k % 3 == 0), ("two of three", lambda k: k % 3 != 1), ("one candidate in 150 (counted over all rounds)", None)):
        for want in ((1, 2, 5, 8, 13) if keep is not None else (1, 2, 3)):
            state = {"round": 0, "accepted": set(), "requested": []}

            def gen_mass(tr_, a_, k_, n_):
                a = [x for x in a_ if not isinstance(x, SelfObj)]
                n_ev = int(a[0] if a else k_["n_iter"])
                state["round"] += 1
                state["requested"].append(n_ev)
                if state["round"] > (40 if keep is not None else 400):
                    raise AnalysisError("generate(): the refill loop does not terminate in the abstract run")
                return [TensorList((state["round"], k, c) for k in range(n_ev)) for c in range(ncomp)]

            def flat_mass(tr_, a_, k_, n_):
                a = [x for x in a_ if not isinstance(x, SelfObj)]
                ms = a[0] if a else k_["ms"]
                fm_names = [x for x in need["flatten_mass"].all_param_names() if x != "self"]
                bound_ = dict(zip(fm_names, a))
                bound_.update(k_)
                eff_flag = bound_.get("importances", "<default %s>" % norm_text(need["flatten_mass"].defaults().get("importances")) if "importances" in need["flatten_mass"].defaults() else None)
                state.setdefault("imp_flags", []).append(eff_flag)
                if keep is None:
                    # a decay with a small acceptance: one candidate in 150, whatever the batch sizes - small requests
                    # see many rounds without a single accepted event
                    base = state.get("seen", 0)
                    state["seen"] = base + len(ms[0])
                    out = [TensorList(x for k, x in enumerate(c) if (base + k) % 150 == 149) for c in ms]
                else:
                    out = [TensorList(x for k, x in enumerate(c) if keep(k)) for c in ms]
                for x in out[0]:
                    state["accepted"].add(x[:2])
                return out

            def gen_mom(tr_, a_, k_, n_):
                a = [x for x in a_ if not isinstance(x, SelfObj)]
                return ("momenta", a[0] if a else k_["mass"])

            def numeric(tr_, d, args, kwargs, n_):
                if d.split(".")[-1] == "concat" and isinstance(args[0], (list, tuple)) and all(isinstance(x, TensorList) for x in args[0]):
                    return TensorList(x for part in args[0] for x in part)
                return NotImplemented

            tr = Translator(repo, hooks={need["generate_mass"].key: gen_mass, need["flatten_mass"].key: flat_mass, need["generate_momentum"].key: gen_mom, "numeric_call_first": numeric}, max_depth=2)
            so = SelfObj(cls, {"m_nt": sp.Integer(ncomp + 2)})
            IMP = sp.Symbol("IMPORTANCES_FLAG")
            try:
                out = tr.call_fn(fn, [sp.Integer(want)], {"importances": IMP} if "importances" in fn.all_param_names() else {}, self_obj=so)
            except Unmodelled as e:
                raise AnalysisError("generate() cannot be interpreted (n_iter=%d, %s accepted): %s" % (want, pat_name, e))
            cases += 1
            why = None
            if not (isinstance(out, tuple) and len(out) == 2 and out[0] == "momenta" and isinstance(out[1], list) and len(out[1]) == ncomp and all(isinstance(c, list) for c in out[1])):
                why = "the result is not generate_momentum(<the %d mass components>): %r" % (ncomp, out if not isinstance(out, tuple) else out[:1])
            else:
                comps = out[1]
                ids = [[x[:2] if isinstance(x, tuple) else None for x in c] for c in comps]
                if any(len(c) != want for c in comps):
                    why = "the momenta are built from %s events, %d were requested" % ([len(c) for c in comps], want)
                elif any(i != ids[0] for i in ids) or any([x[2] for x in c] != [k] * len(c) for k, c in enumerate(comps)):
                    why = "the mass components are no longer aligned event by event"
                elif len(set(ids[0])) != len(ids[0]):
                    why = "an accepted event enters the sample twice"
                elif not set(ids[0]) <= state["accepted"]:
                    why = "a rejected event enters the sample"
            flags = state.get("imp_flags", [])
            if not why and "importances" in fn.all_param_names() and any(f is not IMP for f in flags):
                why = "the acceptance steps are given importances = %s: every batch (the refill batches too) must be flattened with the caller's flag, otherwise the sample mixes two distributions" % ([str(f) for f in flags],)
            if why:
                chk.violation("S-count", fn.key, "count:n=%d:%s" % (want, pat_name), "generate(%d) with %s event accepted: %s" % (want, pat_name, why), file=PS, line=fn.lineno)
                chk.oblige("S-count", "generate(%d), %s accepted" % (want, pat_name), False)
    chk.oblige("S-count", "generate(n_iter) returns momenta of exactly n_iter distinct accepted events, components aligned (%d abstract runs)" % cases, True)


# --------------------------------------------------------------------------------------- E6-mono / S-bound
def bound(repo, chk, tier):
    chk.rule("E6-mono", "get_p(M, ma, mb)^2 is non-decreasing in M and non-increasing in ma for M >= ma + mb (certificate: after M = ma + mb + t the derivative is a quotient of polynomials with non-negative coefficients)")
    chk.rule("S-range", "mass_range[i] (importance factor, search box of cal_max_weight) is the kinematic range of the i-th system mass: from the sum of its own particles' masses to m0 minus the other particles' masses (n = 3..%d)" % (5 if tier == "quick" else 6))
    chk.rule("S-bound", "default weight <= 1 (n = 3..%d): get_weight's factors are get_p(M_{i+1}, M_i, mu_i) with the daughter masses of set_decay's bound factors get_p(emmax_i, emmin_i, mu_i); emmin_i <= M_i and M_{i+1} <= emmax_i for every generated mass; the importance factor is <= 1; composition: each factor is bounded by monotonicity, all factors are non-negative" % (5 if tier == "quick" else 6))
    gp = repo.fn(K + "get_p")
    Mx, ma, mb, t = sp.symbols("M ma mb t", positive=True)
    tr = Translator(repo, where_policy=policy, max_depth=3)
    try:
        q = sp.sympify(tr.call_fn(gp, [Mx, ma, mb]))
    except Unmodelled as e:
        raise AnalysisError("get_p is not a single-path kernel any more: %s" % e)
    q2 = sp.simplify(q ** 2)
    dM = sp.diff(q2, Mx).subs(Mx, ma + mb + t)
    dA = (-sp.diff(q2, ma)).subs(Mx, ma + mb + t)
    okM, okA = certificate(dM, [ma, mb, t]), certificate(dA, [ma, mb, t])
    chk.oblige("E6-mono", "d(get_p^2)/dM >= 0 on M = ma + mb + t, t > 0", okM)
    chk.oblige("E6-mono", "d(get_p^2)/d(ma) <= 0 on M = ma + mb + t, t > 0", okA)
    sym_ok, _ = equal(q2, q2.subs({ma: mb, mb: ma}, simultaneous=True))
    chk.oblige("E6-mono", "get_p is symmetric in its two daughter masses", sym_ok is True)
    for ok, nm in ((okM, "dM"), (okA, "dma"), (sym_ok is True, "symmetry")):
        if not ok:
            chk.violation("E6-mono", gp.key, nm, "monotonicity/symmetry certificate of get_p failed (%s): the analytic weight bound of set_decay is no upper bound" % nm, file=PS, line=gp.lineno)

    cls = repo.cls(K + "PhaseSpaceGenerator")
    nmax = 5 if tier == "quick" else 6
    for n in range(3, nmax + 1):
        mus = list(sp.symbols("mu0:%d" % n, positive=True))
        T = sp.Symbol("T", positive=True)
        Mtop = sum(mus) + T
        us = list(sp.symbols("u1:%d" % (n - 1), positive=True))
        calls = []

        qsyms = []

        def gp_hook(tr_, args, kwargs, node):
            calls.append(tuple(sp.sympify(a) for a in args[:3]))
            qsyms.append(sp.Symbol("q%d" % (len(qsyms) + 1), positive=True))
            return qsyms[-1]

        k_uni = [0]

        def numeric(tr_, d, args, kwargs, node):
            if d.split(".")[-1] == "uniform":
                k_uni[0] += 1
                u = us[k_uni[0] - 1]
                return u / (1 + u)
            return NotImplemented

        tr = Translator(repo, hooks={gp.key: gp_hook, "numeric_call": numeric, "allow_attr_store": True, "allow_shape": True, "stack_as_array": True}, where_policy=policy, max_depth=6)
        so = SelfObj(cls, {})
        try:
            tr.call_fn(cls.methods["__init__"], [Mtop, list(mus)], self_obj=so)
            bound_calls = list(calls)
            del calls[:]
            # S-range: the box of system masses (used by mass_importances and as the search box of cal_max_weight)
            mr = so.attrs.get("mass_range")
            want_mr = [(sum(mus[-(i + 2):]), Mtop - sum(mus[:n - (i + 2)])) for i in range(n - 2)]
            ok_mr = isinstance(mr, list) and len(mr) == n - 2 and all(isinstance(x, (tuple, list)) and len(x) == 2 and sp.expand(sp.sympify(x[0]) - w[0]) == 0 and sp.expand(sp.sympify(x[1]) - w[1]) == 0 for x, w in zip(mr, want_mr))
            chk.oblige("S-range", "n=%d: mass_range[i] = (sum of the last i+2 masses, m0 - sum of the other masses), i = 0..%d" % (n, n - 3), ok_mr)
            if not ok_mr:
                chk.violation("S-range", K + "PhaseSpaceGenerator.get_mass_range", "n=%d" % n, "n=%d: mass_range is %s, the kinematic limits of the system masses are %s: the importance factor and the box in which cal_max_weight looks for the maximum weight are wrong (weights above one / non-flat sample)" % (n, mr, want_mr), file=PS, line=cls.methods["get_mass_range"].lineno)
            ms = tr.call_fn(cls.methods["generate_mass"], [sp.Symbol("N", positive=True)], self_obj=so)
            del calls[:]
            imp = sp.sympify(tr.call_fn(cls.methods["mass_importances"], [list(ms)], self_obj=so))
            del calls[:]
            q_bound = list(qsyms[:len(bound_calls)])
            k0 = len(qsyms)
            w_plain = tr.call_fn(cls.methods["get_weight"], [list(ms)], {"importances": False}, self_obj=so)
            weight_calls = list(calls)
            q_weight = list(qsyms[k0:])
            del calls[:]
            w_imp = tr.call_fn(cls.methods["get_weight"], [list(ms)], {"importances": True}, self_obj=so)
            w_default = tr.call_fn(cls.methods["get_weight"], [list(ms)], {}, self_obj=so)
            q_imp = list(qsyms[k0 + len(q_weight):k0 + 2 * len(q_weight)])
            q_def = list(qsyms[k0 + 2 * len(q_weight):])
        except Unmodelled as e:
            raise AnalysisError("PhaseSpaceGenerator bookkeeping not interpretable for n=%d: %s" % (n, e))
        pos = mus + [T] + us
        ok_n = len(bound_calls) == len(weight_calls) == n - 1
        bad = []
        if ok_n:
            for i, ((U, L, mu_b), (A, B, mu_w)) in enumerate(zip(bound_calls, weight_calls)):
                if sp.expand(mu_b - mu_w) != 0:
                    bad.append("factor %d: daughter mass %s in the bound, %s in the weight" % (i, mu_b, mu_w))
                if not certificate(U - A, pos):
                    bad.append("factor %d: parent mass %s is not bounded by emmax %s" % (i, A, U))
                if not certificate(B - L, pos):
                    bad.append("factor %d: system mass %s is not bounded below by emmin %s" % (i, B, L))
                if not certificate(A - B - mu_w, pos):
                    bad.append("factor %d: not above threshold (%s < %s + %s)" % (i, A, B, mu_w))
        else:
            bad.append("%d bound factors, %d weight factors, expected %d" % (len(bound_calls), len(weight_calls), n - 1))
        if not certificate(1 - imp, pos) or not certificate(imp, pos):
            bad.append("importance factor %s is not in [0, 1]" % imp)
        # proposal density of (M_1..M_{n-2}) is 1 / prod dM_k/dr_k (the map r -> M is triangular); times the
        # importance factor it must not depend on the generated masses
        jac = sp.Integer(1)
        for k_, (mk, uk) in enumerate(zip(ms, us)):
            jac *= sp.diff(sp.sympify(mk), uk) * (1 + uk) ** 2
        ratio = sp.simplify(imp / jac)
        flat = not (ratio.free_symbols & set(us))
        chk.oblige("E6-flat", "n=%d: importance factor / Jacobian of the mass proposal is independent of the uniform variates (= %s)" % (n, ratio if len(str(ratio)) < 120 else "..."), flat)
        if not flat:
            chk.violation("E6-flat", K + "PhaseSpaceGenerator.mass_importances", "n=%d" % n, "n=%d: importance factor x proposal density of the system masses still depends on the generated masses (%s): accepted events are not distributed like the phase-space mass spectrum" % (n, sorted(str(x) for x in ratio.free_symbols & set(us))), file=PS, line=cls.methods["mass_importances"].lineno)
        # the value: weight = prod(weight factors) / prod(bound factors), times the importance factor where asked for
        try:
            wt_max = sp.sympify(so.attrs["m_wtMax"])
            forms = [
                ("importances=False", sp.sympify(w_plain), sp.Mul(*q_weight) / sp.Mul(*q_bound)),
                ("importances=True", sp.sympify(w_imp), imp * sp.Mul(*q_imp) / sp.Mul(*q_bound)),
                ("default", sp.sympify(w_default), imp * sp.Mul(*q_def) / sp.Mul(*q_bound)),
            ]
        except (KeyError, sp.SympifyError, TypeError) as e:
            raise AnalysisError("get_weight / m_wtMax are not scalar expressions in the abstract run (n=%d): %s" % (n, e))
        for label, got_w, want_w in forms:
            okw, _ = equal(got_w, want_w)
            if okw is not True:
                bad.append("get_weight(%s) is %s, not prod(q_i) / prod(q_i^max)%s" % (label, got_w, "" if label == "importances=False" else " x importance factor"))
        chk.oblige("S-bound", "n=%d: %d factors get_p(M_{i+1}, M_i, mu) bounded factor-wise by get_p(emmax, emmin, mu); importance factor in [0,1]" % (n, n - 1), not bad)
        if bad:
            chk.violation("S-bound", K + "PhaseSpaceGenerator.get_weight", "n=%d" % n, "the acceptance weight is not bounded by one for n=%d: %s" % (n, "; ".join(bad[:3])), file=PS, line=cls.methods["get_weight"].lineno)


# --------------------------------------------------------------------------------------- T-chain
class _Vec:
    def __init__(self, part, frame):
        self.part, self.frame = part, frame

    def __repr__(self):
        return "p(%s) in rest(%s)" % (self.part, self.frame)


class _Neg:
    def __init__(self, v):
        self.v = v


def chain(repo, chk):
    chk.rule("T-chain", "ChainGenerator (frame-typed interpretation on nested decay structures up to three levels): every four-vector is boosted by rest_vector(neg(p0), x) only with the momentum p0 of the particle in whose rest frame x is expressed, innermost level first; all returned vectors are in the top rest frame, in the layout of the declared structure; rest_vector(neg(p0), (m,0,0,0)) == p0 for an on-shell p0")
    cls = repo.cls(K + "ChainGenerator")
    pcls = repo.cls(K + "PhaseSpaceGenerator")
    A, B, C, D, E, F, G, H, I, J = sp.symbols("A B C D E F G H I J", positive=True)
    worlds = [
        (A, [B, C, D]),
        (A, [B, (D, [E, F])]),
        (A, [(B, [G, H]), (D, [E, F]), C]),
        (A, [B, C, (D, [(E, [G, H]), F])]),
        (A, [(D, [F, (E, [G, (I, [H, J])])]), B]),
    ]

    def isinst(tr, args, kwargs, n):
        kinds_node = n.args[1]
        if isinstance(kinds_node, ast.Name):
            # a named tuple of types at module level (_NESTED_TYPES = (tuple, list))
            kinds_node = repo.mod(PS).toplevel_assign.get(kinds_node.id, kinds_node)
        names = [norm_text(e) for e in (kinds_node.elts if isinstance(kinds_node, ast.Tuple) else [kinds_node])]
        if not any(x in ("tuple", "list") for x in names):
            raise Unmodelled("isinstance against %s: not a test for tuple / list" % names)
        kinds = tuple({"tuple": tuple, "list": list}[x] for x in names if x in ("tuple", "list"))
        return isinstance(args[0], kinds) if kinds else False

    n_boosts = 0
    for struct in worlds:
        problems = []

        def rest_vector(tr, args, kwargs, n):
            a, x = args[:2]
            if not isinstance(a, _Neg) or not isinstance(x, _Vec):
                problems.append("rest_vector(%r, %r): not of the form rest_vector(neg(p0), x)" % (a, x))
                return x
            p0 = a.v
            if x.frame != p0.part:
                problems.append("%r is boosted with the momentum of %s" % (x, p0.part))
            return _Vec(x.part, p0.frame)

        hooks = {
            K + "PhaseSpaceGenerator": lambda tr, args, kwargs, n: SelfObj(pcls, {"_m0": args[0], "_mi": list(args[1])}),
            K + "PhaseSpaceGenerator.generate": lambda tr, args, kwargs, n: [_Vec(m, args[0].attrs["_m0"]) for m in args[0].attrs["_mi"]],
            LV + "rest_vector": rest_vector, LV + "neg": lambda tr, args, kwargs, n: _Neg(args[0]),
            "builtin.isinstance": isinst, "allow_attr_store": True,
        }
        tr = Translator(repo, hooks=hooks, max_depth=14)
        so = SelfObj(cls, {})
        try:
            tr.call_fn(cls.methods["__init__"], [struct[0], struct[1]], self_obj=so)
            out = tr.call_fn(cls.methods["generate"], [sp.Symbol("N", positive=True)], self_obj=so)
        except Unmodelled as e:
            raise AnalysisError("ChainGenerator not interpretable on %s: %s" % (struct, e))

        def layout(mi):
            return [layout(x[1]) if isinstance(x, (tuple, list)) else x for x in mi]

        def got_layout(o):
            return [got_layout(x) if isinstance(x, list) else (x.part if isinstance(x, _Vec) else x) for x in o]

        def leaves(o):
            for x in o:
                if isinstance(x, list):
                    yield from leaves(x)
                else:
                    yield x

        # the generator object is used batch after batch (multi_sampling, generate_toy): the second and third call on
        # the same object must do what the first did
        outs = [out]
        n_first = len(problems)
        for _ in range(2):
            try:
                outs.append(tr.call_fn(cls.methods["generate"], [sp.Symbol("N", positive=True)], self_obj=so))
            except Unmodelled as e:
                raise AnalysisError("ChainGenerator.generate not interpretable on its second / third call (%s): %s" % (struct, e))
        for k_call, out_k in enumerate(outs):
            tag = "" if k_call == 0 else "call %d on the same object: " % (k_call + 1)
            if got_layout(out_k) != layout(struct[1]):
                problems.append("%sreturned layout %s differs from the declared structure %s" % (tag, got_layout(out_k), layout(struct[1])))
            for v in leaves(out_k):
                if not isinstance(v, _Vec) or v.frame != struct[0]:
                    problems.append("%s%r is returned, not a momentum in the rest frame of %s" % (tag, v, struct[0]))
        if len(problems) > n_first and all(pr.startswith("call ") for pr in problems[n_first:]):
            problems = problems[:n_first] + [pr + " (the first call was right: state of the generator is changed by generating)" for pr in problems[n_first:]]
        n_boosts += 1
        chk.oblige("T-chain", "structure %s: every boost uses the momentum of the particle whose rest frame the vector is in; result in rest(%s)" % (struct, struct[0]), not problems)
        if problems:
            chk.violation("T-chain", K + "_restruct_pi", "frames:%s" % (struct,), "on the decay structure %s: %s" % (struct, "; ".join(problems[:3])), file=PS, line=repo.fn(K + "_restruct_pi").lineno)
    # tree_boost's leaf: rest_vector(neg(p0), x)
    tbf = repo.fn_opt(K + "_restruct_pi.tree_boost")
    if tbf is None:
        # the closure-free helper may live at module level (under any name that still says tree_boost)
        cands_ = [g for nm_, gs in repo.func_by_name.items() if "tree_boost" in nm_ for g in gs if g.mod.rel == PS]
        tbf = cands_[0] if len(cands_) == 1 else None
    if tbf is None:
        raise AnalysisError("_restruct_pi.tree_boost vanished")
    m, px, py, pz = sp.symbols("m px py pz", positive=True)
    E = sp.sqrt(m ** 2 + px ** 2 + py ** 2 + pz ** 2)
    p0 = np.array([E, px, py, pz], dtype=object)
    tr = Translator(repo, hooks={"stack_as_array": True, "builtin.isinstance": lambda tr_, args, kwargs, n: isinstance(args[0], list)}, where_policy=policy, max_depth=6)
    try:
        out = tr.call_fn(tbf, [p0, np.array([m, 0, 0, 0], dtype=object)])
    except Unmodelled as e:
        raise AnalysisError("tree_boost is not a single-path kernel: %s" % e)
    for k, nm in enumerate("txyz"):
        oblige(repo, chk, "T-chain", "tree_boost(p0, (m,0,0,0)) == p0, component %s" % nm, out[k], p0[k], tbf.key, "boost-%s" % nm)


# --------------------------------------------------------------------------------------- S-mass0
def massless_config(repo, chk):
    """build_phsp_chain: the masses handed to the generator are the configured ones - a mass of exactly 0 is a mass"""
    from ..sym import PyFunc, Raised

    SAMPLE = "tf_pwa/config_loader/sample.py"
    fn = repo.fn(SAMPLE + "::build_phsp_chain")
    chk.rule("S-mass0", "build_phsp_chain interpreted on a probe decay group (two topologies without a common fixed-mass node) with the final-state masses (1/2, 1, 2), (0.0, 1, 2), (0, 0, 2) and (None, 1, 2): configured masses - zero included (photon, neutrino) - reach the generator as they are, only a missing mass (None) is refused")

    class _P(str):
        tok_attrs = None

    def particle(name, mass):
        p = _P(name)
        p.tok_attrs = {"get_mass": PyFunc(lambda m_=mass: m_)}
        return p

    bad = None
    n = 0
    for masses, must_raise in (((sp.Rational(1, 2), sp.Integer(1), sp.Integer(2)), False), ((sp.Float(0.0), sp.Integer(1), sp.Integer(2)), False), ((sp.Integer(0), sp.Integer(0), sp.Integer(2)), False), ((None, sp.Integer(1), sp.Integer(2)), True)):
        outs = [particle("p%d" % k, m_) for k, m_ in enumerate(masses)]
        top = particle("top", sp.Integer(5))
        structs = [SelfObj(None, {"inner": [_P("R_%d" % k)]}) for k in range(2)]
        grp = SelfObj(None, {"topology_structure": PyFunc(lambda: list(structs)), "top": top, "outs": list(outs)})
        tr = Translator(repo, hooks={"allow_raise": True}, max_depth=2)
        raised = None
        out = None
        try:
            out = tr.call_fn(fn, [grp])
        except Raised as e:
            raised = str(e)
        except Unmodelled as e:
            raise AnalysisError("build_phsp_chain cannot be interpreted on the probe group (masses %s): %s" % (masses, e))
        n += 1
        why = None
        if must_raise and raised is None:
            why = "a missing mass (None) is accepted: %r" % (out,)
        elif not must_raise and raised is not None:
            why = "the configured masses %s are refused (%s)" % (list(masses), raised)
        elif not must_raise:
            ok = isinstance(out, tuple) and len(out) == 3 and sp.sympify(out[0]) == 5 and isinstance(out[1], list) and len(out[1]) == 3 and all(sp.sympify(a) == sp.sympify(b) for a, b in zip(out[1], masses))
            if not ok:
                why = "the masses handed on are %r, configured %s" % (out[:2] if isinstance(out, tuple) else out, list(masses))
        if why and bad is None:
            bad = why
    chk.oblige("S-mass0", "build_phsp_chain on %d mass tables (massless particles included, a missing mass refused)" % n, bad is None)
    if bad:
        chk.violation("S-mass0", fn.key, "zero-mass", "build_phsp_chain: %s - a decay with a massless final-state particle can no longer be generated (or is generated with other masses than configured: off the mass shell)" % bad, file=SAMPLE, line=fn.lineno)
