"""C15 clause (a): the Blatt-Weisskopf coefficient tables.

`check_bw_tables(repo, chk, tier)` decides, without importing or running tf_pwa:

  E5-bw        for every L of the literal coefficient table inside
               tf_pwa/breit_wigner.py::Bprime_polynomial and
               tf_pwa/formula.py::Bprime_polynomial, the polynomial in z that the
               function returns - obtained by an abstract interpretation of the
               function's AST in the domain "polynomials in z over the rationals",
               so the ordering convention is whatever the code's own evaluation
               (polyval / reversed-index sum / ...) makes of the list - equals
               |theta_L(i w)|^2 with z = w^2, theta_L the reverse Bessel polynomial
               theta_L(x) = sum_k (L+k)!/((L-k)! k! 2^k) x^(L-k), computed here in
               exact integer arithmetic.
  E5-bw-agree  the two files return the same polynomial for every common L.
  E5-bw-theta  breit_wigner.reverse_bessel_polynomials(n, x), interpreted the same
               way with x an indeterminate, equals theta_n(x) for n = 0..8.

The sympy pipeline of get_bprime_coeff (Symbol/subs/Poly/as_dict) is not
analysed; it is reported via chk.info.
"""
import ast
from fractions import Fraction

from ..model import AnalysisError, dotted, norm_text

BW_REL = "tf_pwa/breit_wigner.py"
FM_REL = "tf_pwa/formula.py"
FN = "Bprime_polynomial"
MIN_L = 6  # L = 0..5 are literal in both files today; fewer -> ANALYSIS-ERROR
THETA_N = 8

# conversions that leave the mathematical value alone (dtype / tensor wrapping)
TRANSPARENT = {"convert_to_tensor", "cast", "constant", "float", "to_complex", "identity", "asarray", "array", "list", "tuple", "sympify", "Integer", "Float"}


# ------------------------------------------------------------------ reference
def _fact(n):
    r = 1
    for i in range(2, n + 1):
        r *= i
    return r


def theta_coeffs(L):
    """{power of x: coefficient} of the reverse Bessel polynomial theta_L"""
    out = {}
    for k in range(L + 1):
        c = Fraction(_fact(L + k), _fact(L - k) * _fact(k) * 2**k)
        out[L - k] = c
    return out


def bw_reference(L):
    """{power of z: coefficient} of |theta_L(i w)|^2, z = w^2 (integers)"""
    th = theta_coeffs(L)
    re, im = {}, {}
    for n, c in th.items():
        # (i w)^n = i^n w^n
        if n % 2 == 0:
            re[n] = c * (-1) ** (n // 2)
        else:
            im[n] = c * (-1) ** ((n - 1) // 2)
    tot = {}
    for part in (re, im):
        for a, ca in part.items():
            for b, cb in part.items():
                tot[a + b] = tot.get(a + b, 0) + ca * cb
    out = {}
    for p, c in tot.items():
        if c == 0:
            continue
        if p % 2:
            raise AnalysisError("checker self-test: odd power of w in |theta(iw)|^2")
        out[p // 2] = Fraction(c)
    return out


def _selftest():
    want = {0: [1], 1: [1, 1], 2: [9, 3, 1]}
    for L, lo in want.items():
        got = bw_reference(L)
        if got != {i: Fraction(c) for i, c in enumerate(lo)}:
            raise AnalysisError("checker self-test: |theta_%d(iw)|^2 = %s, closed form %s" % (L, got, lo))
    # theta_n recurrence theta_n = (2n-1) theta_{n-1} + x^2 theta_{n-2}
    for n in range(2, 10):
        a, b, c = theta_coeffs(n), theta_coeffs(n - 1), theta_coeffs(n - 2)
        rec = {}
        for p, v in b.items():
            rec[p] = rec.get(p, 0) + (2 * n - 1) * v
        for p, v in c.items():
            rec[p + 2] = rec.get(p + 2, 0) + v
        if rec != a:
            raise AnalysisError("checker self-test: reverse Bessel recurrence fails at n=%d" % n)


# ---------------------------------------------------------- abstract values
class Poly:
    """polynomial in one indeterminate over the rationals"""

    __slots__ = ("c",)

    def __init__(self, c):
        self.c = {p: Fraction(v) for p, v in c.items() if v != 0}

    @staticmethod
    def of(v):
        if isinstance(v, Poly):
            return v
        if isinstance(v, Fraction):
            return Poly({0: v})
        raise AnalysisError("value %r is not a number or polynomial" % (v,))

    def __add__(self, o):
        o = Poly.of(o)
        r = dict(self.c)
        for p, v in o.c.items():
            r[p] = r.get(p, 0) + v
        return Poly(r)

    def __neg__(self):
        return Poly({p: -v for p, v in self.c.items()})

    def __mul__(self, o):
        o = Poly.of(o)
        r = {}
        for a, va in self.c.items():
            for b, vb in o.c.items():
                r[a + b] = r.get(a + b, 0) + va * vb
        return Poly(r)

    def __pow__(self, n):
        if not (isinstance(n, Fraction) and n.denominator == 1 and n >= 0):
            raise AnalysisError("power %s of a polynomial not modelled" % (n,))
        r = Poly({0: 1})
        for _ in range(int(n)):
            r = r * self
        return r

    def __eq__(self, o):
        return isinstance(o, Poly) and self.c == o.c

    def coeffs_high_first(self):
        if not self.c:
            return [Fraction(0)]
        d = max(self.c)
        return [self.c.get(p, Fraction(0)) for p in range(d, -1, -1)]

    def text(self, var="z"):
        return "[" + ", ".join(str(c) for c in self.coeffs_high_first()) + "] (highest power of %s first)" % var


class Table:
    def __init__(self, d):
        self.d = d  # int -> [Fraction]


class Seq:
    """a Python list/tuple/range of abstract values"""

    def __init__(self, items):
        self.items = list(items)


class BadIndex(Exception):
    pass


def _num(v, what):
    if isinstance(v, Fraction):
        return v
    raise AnalysisError("%s is not numeric in the abstract run" % what)


def _is_int(v):
    return isinstance(v, Fraction) and v.denominator == 1


class DTypeMark:
    """`x.dtype` / `x.shape`: only ever an argument of a value-transparent conversion"""


class Interp:
    """straight-line abstract interpreter: numbers are exact rationals, the
    polynomial variable is an indeterminate, dtype conversions are transparent"""

    def __init__(self, where, poly_params=()):
        self.where = where
        self.poly_params = poly_params

    def fail(self, node, why):
        raise AnalysisError("%s: %s (`%s`, line %s)" % (self.where, why, norm_text(node)[:80], getattr(node, "lineno", "?")))

    # -- expressions
    def ev(self, n, env):
        if isinstance(n, ast.Constant):
            if isinstance(n.value, bool) or not isinstance(n.value, (int, float)):
                self.fail(n, "constant not numeric")
            return Fraction(n.value)
        if isinstance(n, ast.Name):
            if n.id not in env:
                g = getattr(self, "globals", {}).get(n.id)
                if g is not None:
                    # a module-level constant the function consults (never written by it: names are rebound locally)
                    return self.ev(g, {})
                self.fail(n, "name not bound in the abstract run")
            return env[n.id]
        if isinstance(n, ast.Attribute) and n.attr in ("dtype", "shape"):
            return DTypeMark()
        if isinstance(n, ast.UnaryOp) and isinstance(n.op, (ast.USub, ast.UAdd)):
            v = self.ev(n.operand, env)
            if isinstance(n.op, ast.UAdd):
                return v
            return -v
        if isinstance(n, ast.BinOp):
            a, b = self.ev(n.left, env), self.ev(n.right, env)
            return self.binop(n, a, b)
        if isinstance(n, ast.Compare) and len(n.ops) == 1 and isinstance(n.ops[0], (ast.In, ast.NotIn)):
            a, b = self.ev(n.left, env), self.ev(n.comparators[0], env)
            if isinstance(b, Table) and _is_int(a):
                r = int(a) in b.d
                return r if isinstance(n.ops[0], ast.In) else not r
            self.fail(n, "membership test not modelled")
        if isinstance(n, ast.Dict):
            return self.table_literal(n)
        if isinstance(n, (ast.List, ast.Tuple)):
            return Seq(self.ev(e, env) for e in n.elts)
        if isinstance(n, ast.Subscript):
            base = self.ev(n.value, env)
            if isinstance(n.slice, ast.Slice):
                s = n.slice
                if isinstance(base, Seq):
                    lo = self._opt_int(s.lower, env)
                    hi = self._opt_int(s.upper, env)
                    st = self._opt_int(s.step, env)
                    return Seq(base.items[slice(lo, hi, st)])
                self.fail(n, "slice of a non-list")
            key = self.ev(n.slice, env)
            if not _is_int(key):
                self.fail(n, "subscript key is not an integer")
            k = int(key)
            if isinstance(base, Table):
                if k not in base.d:
                    self.fail(n, "table has no entry %d" % k)
                return Seq(base.d[k])
            if isinstance(base, Seq):
                if not -len(base.items) <= k < len(base.items):
                    raise BadIndex("index %d out of range for a list of %d coefficients in `%s`" % (k, len(base.items), norm_text(n)))
                return base.items[k]
            self.fail(n, "subscript of a non-list")
        if isinstance(n, (ast.ListComp, ast.GeneratorExp)):
            if len(n.generators) != 1 or n.generators[0].ifs or n.generators[0].is_async or not isinstance(n.generators[0].target, ast.Name):
                self.fail(n, "comprehension shape not modelled")
            it = self.ev(n.generators[0].iter, env)
            if not isinstance(it, Seq):
                self.fail(n, "comprehension iterates over a non-list")
            out = []
            for v in it.items:
                e2 = dict(env)
                e2[n.generators[0].target.id] = v
                out.append(self.ev(n.elt, e2))
            return Seq(out)
        if isinstance(n, ast.Call):
            return self.call(n, env)
        self.fail(n, "expression form %s not modelled" % type(n).__name__)

    def _opt_int(self, n, env):
        if n is None:
            return None
        v = self.ev(n, env)
        if not _is_int(v):
            self.fail(n, "slice bound not an integer")
        return int(v)

    def binop(self, n, a, b):
        op = n.op
        if isinstance(a, Fraction) and isinstance(b, Fraction):
            try:
                if isinstance(op, ast.Add):
                    return a + b
                if isinstance(op, ast.Sub):
                    return a - b
                if isinstance(op, ast.Mult):
                    return a * b
                if isinstance(op, ast.Div):
                    return a / b
                if isinstance(op, ast.FloorDiv):
                    return Fraction(a // b)
                if isinstance(op, ast.Mod):
                    return a % b
                if isinstance(op, ast.Pow) and b.denominator == 1:
                    return a ** int(b)
            except ZeroDivisionError:
                self.fail(n, "division by zero")
            self.fail(n, "numeric operator not modelled")
        if isinstance(a, (Poly, Fraction)) and isinstance(b, (Poly, Fraction)):
            if isinstance(op, ast.Add):
                return Poly.of(a) + b
            if isinstance(op, ast.Sub):
                return Poly.of(a) + (-Poly.of(b))
            if isinstance(op, ast.Mult):
                return Poly.of(a) * b
            if isinstance(op, ast.Pow) and isinstance(a, Poly) and isinstance(b, Fraction):
                return a ** b
            if isinstance(op, ast.Div) and isinstance(b, Fraction) and b != 0:
                return Poly.of(a) * (1 / b)
        self.fail(n, "operator on these abstract values not modelled")

    def table_literal(self, n):
        d = {}
        for k, v in zip(n.keys, n.values):
            if not (isinstance(k, ast.Constant) and isinstance(k.value, int) and not isinstance(k.value, bool)):
                self.fail(n, "table key is not an integer literal")
            if not isinstance(v, (ast.List, ast.Tuple)):
                self.fail(v, "table value is not a literal list")
            if k.value in d:
                self.fail(n, "duplicate table key %d" % k.value)
            d[k.value] = [self.ev(e, {}) for e in v.elts]
            for x in d[k.value]:
                _num(x, "table element")
        return Table(d)

    def call(self, n, env):
        name = dotted(n.func) or ""
        last = name.split(".")[-1]
        args = n.args
        if any(isinstance(a, ast.Starred) for a in args):
            self.fail(n, "star argument")
        if last == "int" and name == "int" and len(args) == 1:
            v = _num(self.ev(args[0], env), "int() argument")
            return Fraction(int(v))  # truncation toward zero, as Python
        if name == "range":
            vs = [self.ev(a, env) for a in args]
            if not all(_is_int(v) for v in vs):
                self.fail(n, "range bound not an integer")
            return Seq(Fraction(i) for i in range(*[int(v) for v in vs]))
        if name == "len" and len(args) == 1:
            v = self.ev(args[0], env)
            if isinstance(v, Seq):
                return Fraction(len(v.items))
            self.fail(n, "len of a non-list")
        if name == "sum" and len(args) in (1, 2):
            v = self.ev(args[0], env)
            if not isinstance(v, Seq):
                self.fail(n, "sum over a non-list")
            tot = self.ev(args[1], env) if len(args) == 2 else Fraction(0)
            for x in v.items:
                tot = self.binop(ast.BinOp(left=n, op=ast.Add(), right=n), tot, x)
            return tot
        if name == "reversed" and len(args) == 1:
            v = self.ev(args[0], env)
            if isinstance(v, Seq):
                return Seq(reversed(v.items))
        if last == "polyval" and len(args) == 2 and not n.keywords:
            # library convention (tf.math.polyval / numpy.polyval): coeffs[0] multiplies the highest power
            cs = self.ev(args[0], env)
            x = self.ev(args[1], env)
            if not isinstance(cs, Seq) or not isinstance(x, (Poly, Fraction)):
                self.fail(n, "polyval arguments not (list, polynomial)")
            acc = Poly({})
            for c in cs.items:
                acc = acc * x + c
            return acc
        if last == "factorial" and len(args) == 1:
            v = self.ev(args[0], env)
            if not _is_int(v) or v < 0:
                self.fail(n, "factorial of a non-natural number")
            return Fraction(_fact(int(v)))
        if last == "Fraction" and len(args) in (1, 2):
            vs = [_num(self.ev(a, env), "Fraction argument") for a in args]
            if len(vs) == 2 and vs[1] == 0:
                self.fail(n, "zero denominator")
            return vs[0] / vs[1] if len(vs) == 2 else vs[0]
        if last in TRANSPARENT and len(args) >= 1:
            v = self.ev(args[0], env)
            if last in ("list", "tuple") and isinstance(v, Seq):
                return Seq(v.items)  # a fresh container: in-place methods on it leave the argument alone
            return v
        self.fail(n, "call not modelled")

    # -- statements
    def run(self, fnode, env):
        r = self.block(fnode.body, env)
        if r is None:
            self.fail(fnode, "no return reached")
        return r

    def block(self, stmts, env):
        for st in stmts:
            if isinstance(st, ast.Expr) and isinstance(st.value, ast.Constant):
                continue
            if isinstance(st, ast.Pass):
                continue
            if (isinstance(st, ast.Expr) and isinstance(st.value, ast.Call) and isinstance(st.value.func, ast.Attribute) and isinstance(st.value.func.value, ast.Name)
                    and st.value.func.attr in ("reverse", "append") and isinstance(env.get(st.value.func.value.id), Seq)):
                # in-place list methods on a local list (aliases share the Seq object, as in Python)
                tgt = env[st.value.func.value.id]
                if st.value.func.attr == "reverse" and not st.value.args:
                    tgt.items.reverse()
                    continue
                if st.value.func.attr == "append" and len(st.value.args) == 1:
                    tgt.items.append(self.ev(st.value.args[0], env))
                    continue
            if isinstance(st, ast.Assign) and len(st.targets) == 1 and isinstance(st.targets[0], ast.Name):
                env[st.targets[0].id] = self.ev(st.value, env)
                continue
            if isinstance(st, ast.AugAssign) and isinstance(st.target, ast.Name):
                cur = self.ev(ast.copy_location(ast.Name(id=st.target.id, ctx=ast.Load()), st), env)
                env[st.target.id] = self.binop(st, cur, self.ev(st.value, env))
                continue
            if isinstance(st, ast.If):
                t = self.ev(st.test, env)
                if not isinstance(t, bool):
                    self.fail(st.test, "branch condition not decidable in the abstract run")
                r = self.block(st.body if t else st.orelse, env)
                if r is not None:
                    return r
                continue
            if isinstance(st, ast.For) and isinstance(st.target, ast.Name) and not st.orelse:
                it = self.ev(st.iter, env)
                if not isinstance(it, Seq):
                    self.fail(st, "loop over a non-list")
                for v in it.items:
                    env[st.target.id] = v
                    r = self.block(st.body, env)
                    if r is not None:
                        return r
                continue
            if isinstance(st, ast.Return) and st.value is not None:
                return self.ev(st.value, env)
            self.fail(st, "statement %s not modelled" % type(st).__name__)
        return None


# ------------------------------------------------------------ table location
def _int_keyed(d):
    return bool(d.keys) and all(isinstance(k, ast.Constant) and isinstance(k.value, int) for k in d.keys)


def find_table(fn, interp):
    """the one dict literal {int: [numbers]} the function consults - assigned inside it or a module-level
    constant it reads -> (name, Table, {L: lineno})"""
    hits = []
    for st in ast.walk(fn.node):
        if isinstance(st, ast.Assign) and len(st.targets) == 1 and isinstance(st.targets[0], ast.Name) and isinstance(st.value, ast.Dict) and _int_keyed(st.value):
            hits.append(st)
    if not hits:
        used = {x.id for x in ast.walk(fn.node) if isinstance(x, ast.Name)}
        for st in fn.mod.tree.body:
            if (isinstance(st, ast.Assign) and len(st.targets) == 1 and isinstance(st.targets[0], ast.Name) and st.targets[0].id in used
                    and isinstance(st.value, ast.Dict) and _int_keyed(st.value)):
                hits.append(st)
    if len(hits) != 1:
        raise AnalysisError("%s: expected one literal coefficient table `{L: [...]}`, found %d" % (fn.key, len(hits)))
    st = hits[0]
    tab = interp.table_literal(st.value)
    lines = {k.value: v.lineno for k, v in zip(st.value.keys, st.value.values)}
    if not tab.d:
        raise AnalysisError("%s: coefficient table is empty" % fn.key)
    return st.targets[0].id, tab, lines


def poly_of_function(fn, L):
    """polynomial in z returned by Bprime_polynomial(L, z) according to its own evaluation"""
    if len(fn.params) != 2:
        raise AnalysisError("%s: expected parameters (l, z), got %s" % (fn.key, fn.params))
    interp = Interp(fn.key)
    interp.globals = {
        st.targets[0].id: st.value for st in fn.mod.tree.body
        if isinstance(st, ast.Assign) and len(st.targets) == 1 and isinstance(st.targets[0], ast.Name) and isinstance(st.value, (ast.Dict, ast.List, ast.Tuple, ast.Constant))
    }
    env = {fn.params[0]: Fraction(L), fn.params[1]: Poly({1: 1})}
    r = interp.run(fn.node, env)
    if isinstance(r, Fraction):
        r = Poly({0: r})
    if not isinstance(r, Poly):
        raise AnalysisError("%s: return value for L=%d is not a polynomial in %s" % (fn.key, L, fn.params[1]))
    return r


def _short(p):
    return "[" + ", ".join(str(c) for c in p.coeffs_high_first()) + "]"


def check_file(repo, chk, rel):
    fn = repo.fn(rel + "::" + FN)
    name, tab, lines = find_table(fn, Interp(fn.key))
    Ls = sorted(tab.d)
    if len(Ls) < MIN_L or Ls[:MIN_L] != list(range(MIN_L)):
        raise AnalysisError("%s: literal table covers L=%s, fewer than L=0..%d verified when the check was written" % (fn.key, Ls, MIN_L - 1))
    polys = {}
    for L in Ls:
        ref = Poly(bw_reference(L))
        where = "%s::%s" % (rel, FN)
        try:
            got = poly_of_function(fn, L)
            err = None
        except BadIndex as e:
            got, err = None, str(e)
        ok = got is not None and got == ref
        lit = "[" + ", ".join(str(x) for x in tab.d[L]) + "]"
        chk.oblige(
            "E5-bw",
            "%s L=%d: literal %s is evaluated by the function to sum_k c_k z^k with c (highest first) = %s; |theta_%d(iw)|^2 has %s"
            % (where, L, lit, _short(got) if got is not None else err, L, _short(ref)),
            ok,
        )
        if not ok:
            chk.violation(
                "E5-bw", where, "L=%d" % L,
                "table `%s[%d] = %s` is evaluated by the function to the polynomial %s, but |theta_%d(i w)|^2 with z=w^2 is %s"
                % (name, L, lit, got.text() if got is not None else "<%s>" % err, L, ref.text()),
                file=rel, line=lines.get(L),
            )
        polys[L] = got
    return fn, polys


def check_theta(repo, chk):
    key = BW_REL + "::reverse_bessel_polynomials"
    fn = repo.fn_opt(key)
    if fn is None:
        chk.info("%s is absent: generator for L beyond the literal table not analysed" % key)
        return
    if len(fn.params) != 2:
        raise AnalysisError("%s: expected parameters (n, x)" % key)
    for n in range(THETA_N + 1):
        interp = Interp(key)
        got = interp.run(fn.node, {fn.params[0]: Fraction(n), fn.params[1]: Poly({1: 1})})
        got = Poly.of(got)
        ref = Poly(theta_coeffs(n))
        ok = got == ref
        chk.oblige("E5-bw-theta", "%s n=%d: %s; theta_%d = %s" % (key, n, got.text("x"), n, ref.text("x")), ok, show=(n <= 2 or not ok))
        if not ok:
            chk.violation(
                "E5-bw-theta", key, "n=%d" % n,
                "the loop builds %s but the reverse Bessel polynomial theta_%d is %s" % (got.text("x"), n, ref.text("x")),
                file=BW_REL, line=fn.lineno,
            )
    chk.out("  [E5-bw-theta] %s interpreted with x an indeterminate for n=0..%d" % (key, THETA_N))
    g = repo.fn_opt(BW_REL + "::get_bprime_coeff")
    if g is not None:
        chk.info(
            "%s (coefficients for L beyond the literal table) goes through sympy Symbol/subs/Poly/as_dict: not analysed; "
            "only its ingredient reverse_bessel_polynomials is decided" % g.key
        )


def check_bw_tables(repo, chk, tier):
    chk.rule("E5-bw", "for every L of the literal table, the polynomial in z that Bprime_polynomial returns (its own evaluation order applied to the literal list) equals |theta_L(i w)|^2, z=w^2, computed in exact arithmetic")
    chk.rule("E5-bw-agree", "breit_wigner.Bprime_polynomial and formula.Bprime_polynomial return the same polynomial for every common literal L")
    chk.rule("E5-bw-theta", "reverse_bessel_polynomials(n, x) equals theta_n(x) = sum_k (n+k)!/((n-k)! k! 2^k) x^(n-k) for n=0..%d" % THETA_N)
    for t in (
        "checker's own reverse-Bessel / |theta(iw)|^2 reference in fractions.Fraction",
        "library convention: polyval(coeffs, x) multiplies coeffs[0] by the highest power",
        "dtype/tensor conversions (convert_to_tensor, cast, float...) do not change the value",
    ):
        if t not in chk.trusted_base:
            chk.trusted_base.append(t)
    _selftest()
    f1, p1 = check_file(repo, chk, BW_REL)
    f2, p2 = check_file(repo, chk, FM_REL)
    common = sorted(set(p1) & set(p2))
    for L in common:
        ok = p1[L] is not None and p2[L] is not None and p1[L] == p2[L]
        chk.oblige("E5-bw-agree", "L=%d: %s and %s return the same polynomial" % (L, f1.key, f2.key), ok, show=not ok)
        if not ok:
            # blame the file that departs from the reference (the other one when both or neither do)
            culprit = f1 if (p1[L] is None or p1[L] != Poly(bw_reference(L))) and not (p2[L] is None or p2[L] != Poly(bw_reference(L))) else f2
            chk.violation(
                "E5-bw-agree", culprit.key, "L=%d" % L,
                "%s gives %s, %s gives %s" % (f1.key, p1[L].text() if p1[L] else "<index error>", f2.key, p2[L].text() if p2[L] else "<index error>"),
                file=culprit.mod.rel, line=culprit.lineno,
            )
    chk.out("  [E5-bw-agree] %d common L compared" % len(common))
    only = sorted(set(p1) ^ set(p2))
    if only:
        chk.info("L=%s literal in only one of the two files (the other uses the sympy generator there)" % only)
    check_theta(repo, chk)
    chk.require_count("E5-bw", 2 * MIN_L)
    chk.require_count("E5-bw-agree", MIN_L)
    chk.extra["bw_table_L"] = {BW_REL: sorted(p1), FM_REL: sorted(p2)}
