"""C20 histogram builders, decided by interpretation (S-sem).

Hist1D.histogram and WeightedData.__init__ are interpreted with np.histogram as an uninterpreted pair
(HIST(binning signature, weight expression), EDGES(binning signature)); the constructed histogram must have
    count   = HIST(sig, w)                      (w = 1 without weights)
    error^2 = HIST(sig, w**2)                   - the same binning signature, the squared weights
    binning = EDGES(sig)
and (Hist1D.histogram) bins are masked exactly where the *unweighted* entry count HIST(sig, 1) is zero.  Then the sums
of weights and of squared weights are conserved by np.histogram itself.  Robust to temporaries and statement shape.
"""
import ast

import sympy as sp

from ..model import AnalysisError
from ..sym import SelfObj, Translator, Unmodelled, equal

H = "tf_pwa/histogram.py"
HIST = sp.Function("HIST")
EDGES = sp.Function("EDGES")
WHERE = sp.Function("WHERE")


def check_hist_semantics(repo, chk):
    chk.rule("S-sem", "Hist1D.histogram / WeightedData.__init__ interpreted with np.histogram uninterpreted: count = HIST(sig, w), error = sqrt(HIST(sig, w**2)) of the same binning signature, binning = its edges; empty bins masked where the unweighted entry count is zero")
    M, B, W, ME = sp.symbols("M B W ME")
    R = sp.Symbol("RANGE")
    hcls = repo.cls(H + "::Hist1D")
    wcls = repo.cls(H + "::WeightedData")
    decided = set()

    def make():
        calls = []

        def first(tr, d, args, kwargs, n):
            last = d.split(".")[-1]
            if last == "histogram" and d.split(".")[0] in ("np", "numpy"):
                kw = dict(kwargs)
                w = kw.pop("weights", None)
                sig = sp.Symbol("sig[%s|%s]" % (", ".join(str(a) for a in args), ", ".join("%s=%s" % kv for kv in sorted(kw.items()))))
                wexpr = sp.Integer(1) if w is None else sp.sympify(w)
                calls.append((sig, wexpr))
                return (HIST(sig, wexpr), EDGES(sig))
            if last == "where" and len(args) == 3:
                return WHERE(sp.sympify(args[0]), sp.sympify(args[1]), sp.sympify(args[2]))
            return NotImplemented

        built = []
        hooks = {"numeric_call_first": first, "allow_attr_store": True,
                 hcls.methods["__init__"].key: lambda tr, a, k, n: built.append(tuple(a[1:4]) if isinstance(a[0], SelfObj) else tuple(a[:3])),
                 hcls.key: lambda tr, a, k, n: built.append(tuple(a[:3])) or ("Hist1D",) + tuple(a[:3])}
        return Translator(repo, hooks=hooks, max_depth=3), calls, built

    def compare(where, label, built, want_count, want_err2, sig):
        if len(built) != 1:
            raise AnalysisError("%s (%s): expected one histogram to be constructed, found %d" % (where.key, label, len(built)))
        binning, count, error = built[0]
        ok_b = sp.sympify(binning) == EDGES(sig)
        ok_c = equal(sp.sympify(count), want_count)[0] is True
        ok_e = equal(sp.sympify(error) ** 2, want_err2)[0] is True
        chk.oblige("S-sem", "%s [%s]: binning = edges of the count histogram: %s; count = %s: %s; error^2 = %s: %s" % (where.key.split("::")[1], label, ok_b, want_count, ok_c, want_err2, ok_e), ok_b and ok_c and ok_e)
        if not (ok_b and ok_c and ok_e):
            chk.violation("S-sem", where.key, "builder[%s]" % label, "%s: the histogram is built with binning %s, count %s, error %s; required: EDGES(sig), %s, sqrt(%s)" % (label, binning, count, error, want_count, want_err2), file=H, line=where.lineno)

    # Hist1D.histogram
    fn = hcls.methods["histogram"]
    for label, kw in (("unit weights", {}), ("weights given", {"weights": W}), ("weights given, extra range option", {"weights": W, "range": R})):
        tr, calls, built = make()
        try:
            tr.call_fn(fn, [M, B], dict(kw, mask_error=ME))
        except Unmodelled as e:
            chk.info("S-sem: Hist1D.histogram not interpretable (%s): %s" % (label, e))
            break
        sig = calls[0][0] if calls else None
        if sig is None or any(c[0] != sig for c in calls):
            chk.oblige("S-sem", "Hist1D.histogram [%s]: all np.histogram calls use one binning signature" % label, False)
            chk.violation("S-sem", fn.key, "binning-args[%s]" % label, "the np.histogram calls use different data / binning arguments: %s" % sorted({str(c[0]) for c in calls}), file=H, line=fn.lineno)
            decided.add(fn.key)
            continue
        w = kw.get("weights", sp.Integer(1))
        compare(fn, label, built, HIST(sig, w), WHERE(sp.Eq(HIST(sig, sp.Integer(1)), 0), ME, HIST(sig, w ** 2)), sig)
        decided.add(fn.key)
    # WeightedData.__init__
    fn2 = wcls.methods["__init__"]
    for label, kw in (("unit weights", {}), ("weights given", {"weights": W}), ("weights given, extra range option", {"weights": W, "range": R})):
        tr, calls, built = make()
        so = SelfObj(wcls, {})
        try:
            tr.call_fn(fn2, [M, B], dict(kw), self_obj=so)
        except Unmodelled as e:
            chk.info("S-sem: WeightedData.__init__ not interpretable (%s): %s" % (label, e))
            break
        sig = calls[0][0] if calls else None
        if sig is None or any(c[0] != sig for c in calls):
            chk.oblige("S-sem", "WeightedData.__init__ [%s]: all np.histogram calls use one binning signature" % label, False)
            chk.violation("S-sem", fn2.key, "binning-args[%s]" % label, "the np.histogram calls use different data / binning arguments: %s" % sorted({str(c[0]) for c in calls}), file=H, line=fn2.lineno)
            decided.add(fn2.key)
            continue
        w = kw.get("weights", sp.Integer(1))
        compare(fn2, label, built, HIST(sig, w), HIST(sig, w ** 2), sig)
        decided.add(fn2.key)
    return decided
