"""C18 - structured event data operations are lossless (structural clauses only).

(a) CONTAINER-KIND EXHAUSTIVENESS of every structural recursion over nested
    event data (frozen table RECURSIONS, confirmed by reading each function)
    K1  the function still dispatches on exactly its confirmed set of container
        kinds (a removed `isinstance(x, tuple)` branch passes that sub-tree
        through un-split / un-masked / un-copied).
    K2  inverse / partner functions handle the same kinds (split vs merge,
        flatten vs nest vs struct, map vs struct); flatten/nest agree on the
        leaf kinds they count and on the dict traversal order.
    K3  each container branch iterates the COMPLETE container and recurses on
        the loop element: no slice, no zip against something else, no filter,
        no break/return inside the loop.
    K4  in a generator that transposes its children with zip(*children) every
        container kind needs an empty-container guard (zip() of nothing yields
        nothing and truncates the parent to zero batches) and the guard must
        not bound the number of batches.
    K5  every recursive self-call forwards every option parameter of the
        function (an option that is not forwarded silently reverts to its
        default below the top level).
    K6  thin wrappers hand their whole subject to the recursion they delegate to.

(b) FILE LAYOUT INVERSE PAIR
    R1  the reader load_dat_file reshapes rows to (event, particle, 4) and its
        default transposition brings the particle axis to the front.
    L1  each momentum writer stacks per-particle arrays and transposes so that
        the array written is (event, particle, component) - the inverse of the
        reader's default permutation; an in-place shuffle acts on the event axis.
    L2  writer and reader agree on the row width (4 components).
    L3  writer and its reader take the particle order from the same source.

Batch arithmetic (range(0, n, b) / min), np.save / np.load fidelity and lazy
evaluation are value-level and are not decided.
"""
import ast

from ..model import AnalysisError, const_value, dotted, norm_text, parent_map, walk_local, walk_stmt

KINDS3 = frozenset({"dict", "list", "tuple"})
DATA = "tf_pwa/data.py"
CORE = "tf_pwa/amp/core.py"
WRAP = "tf_pwa/experimental/wrap_function.py"
CAL = "tf_pwa/cal_angle.py"
CLD = "tf_pwa/config_loader/data.py"
APP = "tf_pwa/applications.py"
PART = "tf_pwa/particle.py"

# function -> (kinds, flags, one-line reason / what was confirmed by reading)
#   flags: "filter"      the loop may skip elements on purpose
#          "keys-and"    the dict branch iterates the key intersection of all inputs
#          "joint"       several kinds share one isinstance test / branch
RECURSIONS = {
    DATA + "::data_generator._gen": (KINDS3, (), "splits every leaf; children transposed with zip(*children); dict/list/tuple in separate branches"),
    DATA + "::data_map": (KINDS3, (), "rebuilds dict (type(data)), list, tuple; leaf -> fun"),
    DATA + "::data_struct": (KINDS3, (), "same shape as data_map; leaf -> shape"),
    DATA + "::data_merge": (
        KINDS3, ("keys-and",),
        "subject is data[0] of the *data inputs; list/tuple zip(*data) over all inputs; the dict branch iterates "
        "set.intersection of the key sets of all inputs (equals every key under the documented same-structure precondition)",
    ),
    DATA + "::data_strip": (KINDS3, ("filter",), "drops the named keys on purpose (`if k not in keys`), recurses into every other item"),
    DATA + "::check_nan._check_nan": (KINDS3, (), "visits every leaf; path accumulated in `head`"),
    DATA + "::flatten_dict_data": (
        KINDS3, ("joint",),
        "one test isinstance(data, (dict, list, tuple)); dict -> items(), list and tuple together -> enumerate() through local view functions",
    ),
    CORE + "::rename_data_dict": (KINDS3, (), "renames dict keys, recurses into dict values, tuple and list elements"),
    CORE + "::simple_deepcopy": (KINDS3, (), "copies dict/list/tuple containers, shares leaves"),
    WRAP + "::_wrap_struct": (KINDS3, (), "dict keys visited in sorted order; leaf -> TensorSpec"),
    WRAP + "::_flatten": (KINDS3, ("joint",), "list and tuple handled together by isinstance(dic, (list, tuple)); dict keys in sorted order"),
    WRAP + "::_nest": (KINDS3, (), "inverse of _flatten on the structure produced by _wrap_struct"),
}
MIN_K1 = len(RECURSIONS)  # 12
MIN_K3 = 37  # 12 functions x 3 kinds, + the fixture line

PARTNERS = [
    (DATA + "::data_generator._gen", DATA + "::data_merge", "split / merge"),
    (DATA + "::data_map", DATA + "::data_struct", "map / struct"),
    (DATA + "::data_map", DATA + "::data_generator._gen", "map / split (batch_call = merge(map(split)))"),
    (WRAP + "::_flatten", WRAP + "::_nest", "flatten / nest"),
    (WRAP + "::_flatten", WRAP + "::_wrap_struct", "flatten / struct"),
]

# thin wrappers: function -> (callee name, reason)
DELEGATES = {
    DATA + "::data_split": ("data_generator", "data_split = data_generator with _data_split (LazyCall handled separately)"),
    DATA + "::data_mask": ("data_map", "tf.boolean_mask on every leaf"),
    DATA + "::data_cut": ("data_mask", "builds the mask, then data_mask"),
    DATA + "::data_to_numpy": ("data_map", ".numpy() on every leaf"),
    DATA + "::data_to_tensor": ("data_map", "tf.convert_to_tensor on every leaf"),
    DATA + "::data_shape.flatten": ("data_map", "collects the shape of every leaf"),
}
NOT_RECURSIONS = {
    DATA + "::data_index": "follows one key path (data[k1][k2]...); dispatches on the KEY being list/tuple, not on the data",
    DATA + "::data_replace": "replaces one top-level entry: type(data)({**data, key: value}); no recursion",
    DATA + "::data_shape": "unwraps LazyCall, then delegates to the nested flatten (listed under DELEGATES)",
}

WRITERS = {
    CAL + "::CalAngleData.savetxt": "np.stack(pi).transpose((1, 0, 2)).reshape((-1, 4))",
    CLD + "::SimpleData.savetxt": "np.stack(p4).transpose((1, 0, 2)); np.save 3-d or np.savetxt(reshape((-1, 4)))",
    APP + "::gen_data": "np.transpose(list, [1, 0, 2]); shuffle; reshape(-1, 4)",
    APP + "::gen_mc": "np.transpose(list, (1, 0, 2)).reshape((-1, 4))",
}
READER = DATA + "::load_dat_file"
MIN_L1 = 5  # CalAngleData.savetxt 1, SimpleData.savetxt 2 (npy / txt), gen_data 1, gen_mc 1
MIN_L3 = 3


def _last(d):
    return d.split(".")[-1] if d else None


def _call_name(c):
    d = dotted(c.func)
    if d:
        return _last(d)
    if isinstance(c.func, ast.Attribute):
        return c.func.attr
    return None


# =====================================================================  (a)
def _kind_names(node):
    """second argument of isinstance -> list of dotted names"""
    if isinstance(node, (ast.Tuple, ast.List)):
        out = []
        for e in node.elts:
            out += _kind_names(e)
        return out
    d = dotted(node)
    return [d] if d else ["?" + norm_text(node)]


def test_kinds(test, subject):
    """kinds the test accepts for `subject` (isinstance / or-combination / type(x) is K), else None"""
    if isinstance(test, ast.Call) and dotted(test.func) == "isinstance" and len(test.args) == 2:
        if norm_text(test.args[0]) == subject:
            return _kind_names(test.args[1])
        return None
    if isinstance(test, ast.BoolOp) and isinstance(test.op, ast.Or):
        out = []
        for v in test.values:
            k = test_kinds(v, subject)
            if k is None:
                return None
            out += k
        return out
    if isinstance(test, ast.Compare) and len(test.ops) == 1 and isinstance(test.left, ast.Call) and dotted(test.left.func) == "type":
        if test.left.args and norm_text(test.left.args[0]) == subject:
            if isinstance(test.ops[0], (ast.Is, ast.Eq)):
                return _kind_names(test.comparators[0])
            if isinstance(test.ops[0], ast.In):
                return _kind_names(test.comparators[0])
    return None


def _single_defs(fnode):
    seen, multi = {}, set()
    for n in walk_local(fnode):
        if isinstance(n, ast.Assign):
            for t in n.targets:
                for nm in ast.walk(t):
                    if isinstance(nm, ast.Name) and isinstance(nm.ctx, ast.Store):
                        if nm.id in seen or not isinstance(t, ast.Name):
                            multi.add(nm.id)
                        seen[nm.id] = n.value
        elif isinstance(n, (ast.AugAssign, ast.For, ast.comprehension, ast.NamedExpr)):
            for nm in ast.walk(n.target):
                if isinstance(nm, ast.Name) and isinstance(nm.ctx, ast.Store):
                    multi.add(nm.id)
    return {k: v for k, v in seen.items() if k not in multi}


class Branch:
    def __init__(self, node, kinds, other, body):
        self.node = node
        self.kinds = kinds  # container kinds of KINDS3 accepted by the test
        self.other = other
        self.body = body
        self.sources = []  # (view, text, loop node)
        self.problems = []  # (construct, message, node)
        self.full = False
        self.order = None  # dict traversal: sorted / insertion
        self.guard = None  # None / "unbounded" / "bounded:<text>"
        self.zip_transposed = False


class Recursion:
    """dispatch structure of one structural recursion"""

    def __init__(self, repo, fn, flags):
        self.repo = repo
        self.fn = fn
        self.flags = flags
        a = fn.node.args
        if a.vararg is not None and not (a.posonlyargs + a.args):
            self.root = a.vararg.arg
            self.subject = "%s[0]" % self.root
            self.vararg = True
        else:
            if not fn.params:
                raise AnalysisError("%s has no subject parameter" % fn.key)
            self.root = fn.params[0]
            self.subject = self.root
            self.vararg = False
        self.defs = _single_defs(fn.node)
        self.branches = []
        self.leaf_kinds = set()
        self._dispatch()
        for b in self.branches:
            self._analyse_branch(b)

    # ------------------------------------------------------------- dispatch
    def _dispatch(self):
        for n in walk_local(self.fn.node):
            if not isinstance(n, ast.If):
                continue
            ks = test_kinds(n.test, self.subject)
            if ks is None:
                continue
            cont = frozenset(k for k in ks if k in KINDS3)
            other = [k for k in ks if k not in KINDS3]
            if cont:
                # a dispatch nested in another container branch of the same subject is a sub-dispatch
                self.branches.append(Branch(n, cont, other, n.body))
            else:
                self.leaf_kinds |= set(other)
        # drop sub-dispatches (an If inside the body of another recorded branch)
        inner = set()
        for b in self.branches:
            for st in b.body:
                for sub in walk_stmt(st):
                    if sub is not b.node and any(sub is c.node for c in self.branches):
                        inner.add(id(sub))
        self.branches = sorted((b for b in self.branches if id(b.node) not in inner), key=lambda b: (b.node.lineno, b.node.col_offset))

    def kinds(self):
        out = set()
        for b in self.branches:
            out |= b.kinds
        return frozenset(out)

    # ---------------------------------------------------------------- views
    def mentions(self, e, depth=0):
        """does e (local single-assignment names expanded) refer to the subject container?"""
        for n in ast.walk(e):
            if isinstance(n, ast.Name):
                if n.id == self.root:
                    return True
                if n.id in self.defs and depth < 5 and self.mentions(self.defs[n.id], depth + 1):
                    return True
        return False

    def _resolve(self, e, depth=0):
        if isinstance(e, ast.Name) and e.id != self.root and e.id in self.defs and depth < 5:
            return self._resolve(self.defs[e.id], depth + 1)
        return e

    def _view_fn(self, name):
        """nested function `def g(x): return <full view of x>` -> True/False/None"""
        f = self.repo.fn_opt(self.fn.key + "." + name)
        if f is None or not f.params:
            return None
        rets = [n for n in walk_local(f.node) if isinstance(n, ast.Return)]
        if len(rets) != 1 or rets[0].value is None:
            return False
        sub = Recursion.__new__(Recursion)
        sub.repo, sub.fn, sub.flags, sub.root, sub.subject, sub.vararg, sub.defs = self.repo, f, (), f.params[0], f.params[0], False, {}
        return sub.view(rets[0].value)[0] == "full"

    def view(self, e, depth=0):
        """-> (kind, detail)  kind: full / partial / none ; detail carries 'sorted' / 'keys-and'"""
        raw = e
        e = self._resolve(e)
        if not self.mentions(e):
            # a name resolved to something that does not mention the subject
            return "none", ""
        if depth > 6:
            return "partial", "too deep"
        t = norm_text(e)
        if t == self.root or (not self.vararg and t == self.subject):
            return "full", ""
        if isinstance(e, ast.Call):
            f = e.func
            name = _call_name(e)
            if isinstance(f, ast.Attribute) and f.attr in ("items", "keys", "values") and not e.args and not e.keywords:
                k, d = self.view(f.value, depth + 1)
                return (k, d) if k != "none" else ("partial", "")
            if isinstance(f, ast.Name) and f.id in ("sorted", "list", "tuple", "enumerate", "reversed", "iter") and e.args:
                k, d = self.view(e.args[0], depth + 1)
                if f.id == "sorted" and k == "full":
                    d = (d + " sorted").strip()
                return k, d
            if isinstance(f, ast.Name) and f.id == "zip":
                if len(e.args) == 1 and isinstance(e.args[0], ast.Starred) and not e.keywords:
                    return self.view(e.args[0].value, depth + 1)
                return "partial", "zip of the subject against something else: `%s`" % t
            if dotted(f) == "set.intersection" and len(e.args) == 1 and isinstance(e.args[0], ast.Starred):
                inner = self._resolve(e.args[0].value)
                if isinstance(inner, (ast.ListComp, ast.GeneratorExp)) and len(inner.generators) == 1 and not inner.generators[0].ifs:
                    k, d = self.view(inner.generators[0].iter, depth + 1)
                    elt = inner.elt
                    tgt = inner.generators[0].target
                    # element must be the key set of the loop element: set(x) / set(list(x)) / set(x.keys())
                    ok = False
                    cur = elt
                    while isinstance(cur, ast.Call) and _call_name(cur) in ("set", "list", "keys", "frozenset"):
                        cur = cur.args[0] if cur.args else getattr(cur.func, "value", None)
                        if cur is None:
                            break
                    if isinstance(cur, ast.Name) and isinstance(tgt, ast.Name) and cur.id == tgt.id:
                        ok = True
                    if k == "full" and ok:
                        return "full", "keys-and"
                return "partial", "key set expression `%s`" % t
            if isinstance(f, ast.Name) and len(e.args) == 1 and not e.keywords:
                # local view function, possibly chosen by a conditional expression
                tgt = self.defs.get(f.id)
                names = []
                if isinstance(tgt, ast.IfExp) and isinstance(tgt.body, ast.Name) and isinstance(tgt.orelse, ast.Name):
                    names = [tgt.body.id, tgt.orelse.id]
                elif tgt is None:
                    names = [f.id]
                if names:
                    res = [self._view_fn(nm) for nm in names]
                    if all(r is True for r in res):
                        return self.view(e.args[0], depth + 1)
                    if any(r is False for r in res):
                        return "partial", "view function of `%s` does not return the whole container" % t
        if isinstance(e, ast.Subscript):
            return "partial", "subscript/slice `%s`" % t
        return "partial", "`%s`" % t

    # --------------------------------------------------------------- branch
    def _rec_calls(self, node):
        out = []
        for n in walk_stmt(node) if isinstance(node, ast.AST) else []:
            if isinstance(n, ast.Call) and isinstance(n.func, ast.Name) and n.func.id == self.fn.name:
                out.append(n)
        return out

    def _analyse_branch(self, b):
        fn = self.fn
        loops = []
        for st in b.body:
            for n in walk_stmt(st):
                if isinstance(n, ast.For):
                    loops.append((n.iter, n.target, n.body, [], n))
                elif isinstance(n, (ast.ListComp, ast.SetComp, ast.GeneratorExp, ast.DictComp)):
                    elts = [n.key, n.value] if isinstance(n, ast.DictComp) else [n.elt]
                    for g in n.generators:
                        loops.append((g.iter, g.target, elts, g.ifs, n))
                elif isinstance(n, ast.Subscript) and isinstance(n.slice, ast.Slice) and self.mentions(n.value):
                    b.problems.append(("slice", "slice `%s` of the container drops elements" % norm_text(n), n))
        for it, tgt, body, ifs, node in loops:
            kind, detail = self.view(it)
            if kind == "none":
                # zip(*children) transposition of collected child generators
                r = it
                if isinstance(r, ast.Call) and _call_name(r) == "zip" and len(r.args) == 1 and isinstance(r.args[0], ast.Starred):
                    if fn.is_generator:
                        b.zip_transposed = True
                continue
            text = norm_text(it)
            if kind == "partial":
                b.problems.append(("partial-iteration", "iterates %s, not the complete container" % (detail or "`%s`" % text), node))
                continue
            tnames = {n.id for n in ast.walk(tgt) if isinstance(n, ast.Name)}
            recs = []
            for x in body:
                recs += self._rec_calls(x)
            dep = [c for c in recs if any(isinstance(n, ast.Name) and n.id in tnames for a in c.args for n in ast.walk(a))]
            # an inner comprehension over all inputs (`[d[i] for d in data]`) is a full view without recursion of its own
            if not dep:
                b.sources.append(("full-aux", text, node))
                continue
            b.sources.append(("full", text, node))
            b.full = True
            if "sorted" in detail:
                b.order = "sorted"
            elif b.order is None:
                b.order = "insertion"
            if "keys-and" in detail and "keys-and" not in self.flags:
                b.problems.append(("key-intersection", "iterates only the keys common to all inputs (`%s`)" % text, node))
            if ifs and "filter" not in self.flags:
                b.problems.append(("filter", "comprehension over `%s` filters elements (`if %s`)" % (text, norm_text(ifs[0])), node))
            if isinstance(node, ast.For):
                for s in node.body:
                    for n in walk_stmt(s):
                        if isinstance(n, (ast.Break, ast.Return)):
                            b.problems.append(("early-exit", "`%s` inside the loop over `%s` skips the remaining elements" % (norm_text(n), text), n))
                        if isinstance(n, ast.Continue) and "filter" not in self.flags:
                            b.problems.append(("filter", "`continue` inside the loop over `%s` skips elements" % text, n))
                # recursion guarded by a condition inside the loop
                pm = parent_map(node)
                for c in dep:
                    p = pm.get(c)
                    while p is not None and p is not node:
                        if isinstance(p, (ast.If, ast.IfExp)) and "filter" not in self.flags:
                            b.problems.append(("filter", "recursion `%s` is guarded by `%s` inside the loop" % (norm_text(c), norm_text(p.test)), c))
                            break
                        p = pm.get(p)
        # recursion through collected children: `vs.append(rec(v))` inside a full loop is found above (dep)
        if not b.full and not b.problems:
            b.problems.append(("no-iteration", "branch does not iterate the container and recurse on its elements", b.node))
        # empty-container guard (only meaningful for zip-transposing generators)
        for st in b.body:
            if isinstance(st, ast.If) and self._is_empty_test(st.test):
                b.guard = self._guard_kind(st)

    def _is_empty_test(self, t):
        if isinstance(t, ast.UnaryOp) and isinstance(t.op, ast.Not) and norm_text(t.operand) == self.subject:
            return True
        if isinstance(t, ast.Compare) and len(t.ops) == 1 and isinstance(t.ops[0], ast.Eq):
            l, r = t.left, t.comparators[0]
            for a, c in ((l, r), (r, l)):
                if isinstance(a, ast.Call) and dotted(a.func) == "len" and a.args and norm_text(a.args[0]) == self.subject and const_value(c) == 0:
                    return True
        return False

    def _guard_kind(self, st):
        for n in st.body:
            if isinstance(n, ast.While) and const_value(n.test) in (True, 1) and any(isinstance(y, (ast.Yield, ast.YieldFrom)) for y in ast.walk(n)):
                return "unbounded"
            if isinstance(n, ast.For) and any(isinstance(y, ast.Yield) for y in ast.walk(n)):
                name = _call_name(n.iter) if isinstance(n.iter, ast.Call) else None
                if name in ("repeat", "count", "cycle"):
                    if name == "repeat" and (len(n.iter.args) > 1 or n.iter.keywords):
                        return "bounded:%s" % norm_text(n.iter)
                    return "unbounded"
                return "bounded:%s" % norm_text(n.iter)
            if isinstance(n, ast.Expr) and isinstance(n.value, ast.YieldFrom):
                v = n.value.value
                name = _call_name(v) if isinstance(v, ast.Call) else None
                if name in ("repeat", "count", "cycle") and not (name == "repeat" and (len(v.args) > 1 or v.keywords)):
                    return "unbounded"
                return "bounded:%s" % norm_text(v)
        return "bounded:?"

    # -------------------------------------------------------------- forwarding
    def forwarding(self):
        """[(param, branch label, call, forwarded?)] for every recursive call and option parameter"""
        a = self.fn.node.args
        pos = [x.arg for x in a.posonlyargs + a.args]
        kwonly = [x.arg for x in a.kwonlyargs]
        options = ([] if self.vararg else pos[1:]) + kwonly
        out = []
        pm = parent_map(self.fn.node)
        for c in [n for n in walk_local(self.fn.node) if isinstance(n, ast.Call) and isinstance(n.func, ast.Name) and n.func.id == self.fn.name]:
            label = "?"
            p = pm.get(c)
            while p is not None:
                for b in self.branches:
                    if p is b.node:
                        label = "+".join(sorted(b.kinds))
                        break
                if label != "?":
                    break
                p = pm.get(p)
            bound = {}
            if not self.vararg:
                for i, arg in enumerate(c.args):
                    if isinstance(arg, ast.Starred):
                        bound = None
                        break
                    if i < len(pos):
                        bound[pos[i]] = arg
            if bound is None:
                out.append(("*", label, c, None))
                continue
            star_kw = False
            for kw in c.keywords:
                if kw.arg is None:
                    star_kw = True
                else:
                    bound[kw.arg] = kw.value
            for o in options:
                if o in bound:
                    ok = any(isinstance(n, ast.Name) and n.id == o for n in ast.walk(bound[o]))
                    out.append((o, label, c, ok))
                else:
                    out.append((o, label, c, True if star_kw else False))
        return out


def discover(repo):
    """functions shaped like a structural recursion over containers (for the INFO list)"""
    out = []
    for f in repo.all_fns():
        if not f.params and f.node.args.vararg is None:
            continue
        selfcall = any(isinstance(n, ast.Call) and isinstance(n.func, ast.Name) and n.func.id == f.name for n in walk_local(f.node))
        if not selfcall:
            continue
        try:
            r = Recursion(repo, f, ("filter", "keys-and"))
        except AnalysisError:
            continue
        if r.kinds():
            out.append((f, r))
    return out


def check_recursions(repo, chk):
    from .c18_sem import run_semantics

    decided = run_semantics(repo, chk)  # helpers whose behaviour on every container kind was interpreted and found right
    real_violation = chk.violation

    def violation(rule, where, construct, msg, **kw):
        # the syntactic rules recognise a fixed set of spellings; for a helper that the interpretation has already
        # decided they only add information (an unrecognised spelling is not a defect)
        if rule in ("K1", "K2", "K3", "K5", "K6") and where in decided:
            chk.info("%s pattern not recognised in %s (%s); the helper is decided by K-sem" % (rule, where, construct))
            return
        real_violation(rule, where, construct, msg, **kw)

    recs = {}
    for key in sorted(RECURSIONS):
        kinds, flags, reason = RECURSIONS[key]
        fn = repo.fn(key)
        try:
            r = Recursion(repo, fn, flags)
        except AnalysisError as e:
            if key in decided:
                chk.info("%s: dispatch shape not recognised (%s); decided by K-sem" % (key, e))
                chk.instance("K1", "%s decided by interpretation (K-sem)" % key)
                for k in sorted(kinds):
                    chk.instance("K3", "%s [%s] decided by interpretation (K-sem)" % (key, k))
                continue
            raise
        recs[key] = r
        rel = key.split("::")[0]
        got = r.kinds()
        tests = "; ".join("(%s)" % ",".join(sorted(b.kinds)) for b in r.branches)
        chk.instance("K1", "%s subject `%s` dispatches on %s  [%s]" % (key, r.subject, tests or "-", reason))
        for k in sorted(kinds - got):
            violation(
                "K1", key, "missing-kind:%s" % k,
                "no branch handles `%s` any more: a %s inside the data is treated as a leaf and passed through unprocessed" % (k, k),
                file=rel, line=fn.lineno,
            )
        for k in sorted(got - kinds):
            violation("K1", key, "new-kind:%s" % k, "branch for `%s` is not in the confirmed table; read it and extend RECURSIONS" % k, file=rel, line=fn.lineno)
        seen = {}
        for b in r.branches:
            for k in b.kinds:
                if k in seen and "joint" not in flags:
                    chk.info("%s tests kind %s in two branches" % (key, k))
                seen[k] = b
        # one K3 instance per (function, kind) so that the count does not depend on how kinds are grouped into branches
        for k in sorted(kinds | got):
            bs = [b for b in r.branches if k in b.kinds]
            if not bs:
                chk.instance("K3", "%s [%s] no branch (reported under K1)" % (key, k))
                continue
            for b in bs:
                srcs = ", ".join(t for v, t, _ in b.sources if v == "full") or "-"
                chk.instance(
                    "K3", "%s [%s] branch (%s) iterates %s%s"
                    % (key, k, "+".join(sorted(b.kinds)), srcs, " (dict order: %s)" % b.order if k == "dict" and b.order else "")
                )
        for b in r.branches:
            label = "+".join(sorted(b.kinds))
            for construct, msg, node in b.problems:
                violation("K3", key, "%s@%s" % (construct, label), "%s branch: %s" % (label, msg), file=rel, line=getattr(node, "lineno", fn.lineno))
        # K4
        zt = [b for b in r.branches if b.zip_transposed]
        if zt:
            for b in r.branches:
                label = "+".join(sorted(b.kinds))
                chk.instance("K4", "%s [%s] zip(*children) transposition, empty-container guard: %s" % (key, label, b.guard or "none"))
                if b.guard is None:
                    violation(
                        "K4", key, "empty-guard-missing@%s" % label,
                        "an empty %s has no children, zip() of nothing yields nothing, so the parent's zip(*children) stops at once: "
                        "every batch of the whole structure is lost (the sibling kinds have a guard)" % label,
                        file=rel, line=b.node.lineno,
                    )
                elif b.guard.startswith("bounded"):
                    violation(
                        "K4", key, "empty-guard-bounded@%s" % label,
                        "the guard for an empty %s yields it only `%s` times; the parent's zip(*children) is truncated to that many batches"
                        % (label, b.guard.split(":", 1)[1]),
                        file=rel, line=b.node.lineno,
                    )
        # K5
        for param, label, call, ok in r.forwarding():
            if ok is None:
                chk.instance("K5", "%s [%s] recursive call `%s` forwards positionally with *" % (key, label, norm_text(call)), nontrivial=False)
                continue
            chk.instance("K5", "%s [%s] option `%s` in `%s`: %s" % (key, label, param, norm_text(call), "forwarded" if ok else "NOT forwarded"))
            if not ok:
                violation(
                    "K5", key, "%s@%s" % (param, label),
                    "recursive call `%s` does not forward option `%s`: below the top level it silently reverts to its default" % (norm_text(call), param),
                    file=rel, line=call.lineno,
                )
    # K2 partners
    for a, b, what in PARTNERS:
        ka, kb = recs[a].kinds(), recs[b].kinds()
        chk.instance("K2", "%s: %s {%s} / %s {%s}" % (what, a.split("::")[1], ",".join(sorted(ka)), b.split("::")[1], ",".join(sorted(kb))))
        if ka != kb:
            violation(
                "K2", a, "partner:%s" % b.split("::")[1],
                "%s handle different container kinds: {%s} vs {%s}" % (what, ",".join(sorted(ka)), ",".join(sorted(kb))),
                file=a.split("::")[0], line=recs[a].fn.lineno,
            )
    fl, ne, ws = recs[WRAP + "::_flatten"], recs[WRAP + "::_nest"], recs[WRAP + "::_wrap_struct"]
    chk.instance("K2", "flatten/nest leaf kinds: {%s} / {%s}; struct maps {%s} to TensorSpec" % (
        ",".join(sorted(fl.leaf_kinds)), ",".join(sorted(ne.leaf_kinds)), ",".join(sorted(ws.leaf_kinds))))
    if fl.leaf_kinds != ne.leaf_kinds:
        violation(
            "K2", fl.fn.key, "leaf-kinds",
            "_flatten counts leaves of kinds {%s} but _nest consumes one value for kinds {%s}: values are assigned to the wrong leaves"
            % (",".join(sorted(fl.leaf_kinds)), ",".join(sorted(ne.leaf_kinds))), file=WRAP, line=fl.fn.lineno,
        )
    if not ws.leaf_kinds <= fl.leaf_kinds or not any(k.endswith("TensorSpec") for k in fl.leaf_kinds):
        violation(
            "K2", fl.fn.key, "leaf-kinds-struct",
            "_wrap_struct turns {%s} into TensorSpec leaves, _flatten must count all of them and TensorSpec" % ",".join(sorted(ws.leaf_kinds)),
            file=WRAP, line=fl.fn.lineno,
        )

    def dict_order(r):
        for b in r.branches:
            if "dict" in b.kinds:
                return b.order
        return None

    of, on, ow = dict_order(fl), dict_order(ne), dict_order(ws)
    chk.instance("K2", "dict traversal order: _flatten %s, _wrap_struct %s, _nest %s (on the structure built by _wrap_struct)" % (of, ow, on))
    if of != ow:
        violation(
            "K2", fl.fn.key, "dict-order",
            "_flatten visits dict values in %s order but _wrap_struct in %s order: the i-th flattened value is not the i-th leaf of the structure" % (of, ow),
            file=WRAP, line=fl.fn.lineno,
        )
    if on not in ("insertion", ow):
        violation("K2", ne.fn.key, "dict-order", "_nest visits dict values in %s order, the structure was built in %s order" % (on, ow), file=WRAP, line=ne.fn.lineno)

    # K6 delegates
    for key in sorted(DELEGATES):
        callee, reason = DELEGATES[key]
        fn = repo.fn(key)
        subj = fn.params[0]
        hit = None
        for n in walk_local(fn.node):
            if isinstance(n, ast.Call) and _call_name(n) == callee and n.args:
                hit = n
                if norm_text(n.args[0]) == subj:
                    break
        if hit is None:
            raise AnalysisError("%s no longer delegates to %s" % (key, callee))
        chk.instance("K6", "%s -> `%s` [%s]" % (key, norm_text(hit), reason))
        if norm_text(hit.args[0]) != subj:
            violation(
                "K6", key, "subject",
                "delegates `%s` instead of its whole subject `%s` to %s" % (norm_text(hit.args[0]), subj, callee), file=key.split("::")[0], line=hit.lineno,
            )
    for key, reason in sorted(NOT_RECURSIONS.items()):
        repo.fn(key)
        chk.info("%s not a structural recursion: %s" % (key, reason))

    # same shape elsewhere
    known = set(RECURSIONS)
    anchor_files = {DATA, CORE, WRAP}
    for f, r in sorted(discover(repo), key=lambda fr: fr[0].key):
        if f.key in known:
            continue
        if f.mod.rel in anchor_files:
            raise AnalysisError(
                "%s is a structural recursion over {%s} in an anchor file but is not in the frozen table of C18(a); read it and extend RECURSIONS"
                % (f.key, ",".join(sorted(r.kinds())))
            )
        chk.info("same shape outside the table: %s recurses over {%s} (not an event-data helper named by the property)" % (f.key, ",".join(sorted(r.kinds()))))
    chk.require_count("K1", MIN_K1)
    chk.require_count("K3", MIN_K3)
    chk.require_count("K4", 3)
    chk.require_count("K5", 12)
    chk.require_count("K2", len(PARTNERS) + 2)
    chk.require_count("K6", len(DELEGATES))


# =====================================================================  (b)
class _Reach:
    """reaching definitions over the structured statements of one function;
    a definition is (name, value, tuple index or None, stmt)"""

    def __init__(self, fn):
        self.before = {}
        self._block(fn.node.body, {})

    def _define(self, env, tgt, value, st):
        if isinstance(tgt, ast.Name):
            env[tgt.id] = frozenset([(tgt.id, value, None, st)])
        elif isinstance(tgt, (ast.Tuple, ast.List)):
            for i, t in enumerate(tgt.elts):
                if isinstance(t, ast.Name):
                    env[t.id] = frozenset([(t.id, value, i, st)])

    @staticmethod
    def _merge(envs):
        envs = [e for e in envs if e is not None]
        if not envs:
            return None
        out = {}
        for e in envs:
            for k, v in e.items():
                out[k] = out.get(k, frozenset()) | v
        return out

    def _block(self, stmts, env):
        for st in stmts:
            if env is None:
                return None
            self.before[id(st)] = dict(env)
            if isinstance(st, ast.Assign):
                for t in st.targets:
                    self._define(env, t, st.value, st)
            elif isinstance(st, ast.AugAssign) and isinstance(st.target, ast.Name):
                self._define(env, st.target, st, st)
            elif isinstance(st, ast.If):
                a = self._block(st.body, dict(env))
                b = self._block(st.orelse, dict(env)) if st.orelse else dict(env)
                env = self._merge([a, b])
            elif isinstance(st, (ast.For, ast.While)):
                inner = dict(env)
                if isinstance(st, ast.For):
                    self._define(inner, st.target, st, st)
                a = self._block(st.body, inner)
                env = self._merge([a, env])
            elif isinstance(st, ast.With):
                env = self._block(st.body, env)
            elif isinstance(st, ast.Try):
                a = self._block(st.body, dict(env))
                hs = [self._block(h.body, dict(env)) for h in st.handlers]
                env = self._merge([a] + hs)
                if st.finalbody and env is not None:
                    env = self._block(st.finalbody, env)
            elif isinstance(st, (ast.Return, ast.Raise)):
                return None
        return env

    def at(self, stmt, name):
        return self.before.get(id(stmt), {}).get(name, frozenset())


def _enclosing_stmt(fn, node):
    best = None
    for st in walk_local(fn.node):
        if isinstance(st, ast.stmt) and not isinstance(st, (ast.If, ast.For, ast.While, ast.With, ast.Try)):
            if any(n is node for n in walk_stmt(st)):
                best = st
    if best is None:
        for st in walk_local(fn.node):
            if isinstance(st, ast.stmt) and any(n is node for n in walk_stmt(st)):
                if best is None or st.lineno >= best.lineno:
                    best = st
    return best


def _int_tuple(e):
    if isinstance(e, (ast.Tuple, ast.List)):
        vals = [const_value(x) for x in e.elts]
        if all(isinstance(v, int) and not isinstance(v, bool) for v in vals):
            return tuple(vals)
    return None


def _shape_of_call(c, skip):
    """reshape arguments -> tuple of ints/texts.  skip = number of leading non-shape args"""
    args = c.args[skip:]
    if len(args) == 1 and isinstance(args[0], (ast.Tuple, ast.List)):
        args = args[0].elts
    out = []
    for a in args:
        v = const_value(a)
        out.append(v if isinstance(v, int) and not isinstance(v, bool) else norm_text(a))
    return tuple(out)


class Pipeline:
    """array pipeline feeding a file write, innermost op first"""

    def __init__(self, fn, reach):
        self.fn = fn
        self.reach = reach
        self.pm = parent_map(fn.node)

    def trace(self, e, stmt, depth=0):
        if depth > 12:
            raise AnalysisError("%s: array pipeline too deep" % self.fn.key)
        if isinstance(e, ast.Call):
            name = _call_name(e)
            is_np = dotted(e.func) is not None and dotted(e.func).split(".")[0] in ("np", "numpy", "tf")
            if name == "transpose":
                if is_np:
                    perm = e.args[1] if len(e.args) > 1 else next((k.value for k in e.keywords if k.arg in ("axes", "perm")), None)
                    return self.trace(e.args[0], stmt, depth + 1) + [("transpose", perm, e)]
                perm = e.args[0] if len(e.args) == 1 else (ast.Tuple(elts=list(e.args), ctx=ast.Load()) if e.args else None)
                return self.trace(e.func.value, stmt, depth + 1) + [("transpose", perm, e)]
            if name == "reshape":
                if is_np:
                    return self.trace(e.args[0], stmt, depth + 1) + [("reshape", _shape_of_call(e, 1), e)]
                return self.trace(e.func.value, stmt, depth + 1) + [("reshape", _shape_of_call(e, 0), e)]
            if name == "stack" and is_np and e.args:
                ax = next((k.value for k in e.keywords if k.arg == "axis"), e.args[1] if len(e.args) > 1 else None)
                return [("list", e.args[0], stmt), ("stack", const_value(ax, 0) if ax is not None else 0, e)]
            if name in ("array", "asarray") and is_np and e.args:
                return self.trace(e.args[0], stmt, depth + 1)
            if name in ("data_to_numpy", "data_to_tensor") and e.args:
                return self.trace(e.args[0], stmt, depth + 1)
            return [("source", e, stmt)]
        if isinstance(e, ast.Name):
            ds = self.reach.at(stmt, e.id)
            if not ds:
                return [("source", e, stmt)]
            results = []
            for name, value, idx, st in ds:
                if idx is not None or not isinstance(value, ast.expr):
                    results.append([("source", e, stmt)])
                elif isinstance(value, (ast.List, ast.ListComp)):
                    results.append([("list", e, stmt)])
                else:
                    results.append(self.trace(value, st, depth + 1))
            sig = {self._sig(r) for r in results}
            if len(sig) > 1:
                # several reaching definitions: a list source reached on several paths is one source
                if all(r[0][0] == "list" and len(r) == 1 for r in results):
                    return [("list", e, stmt)]
                raise AnalysisError("%s: `%s` has several reaching definitions with different array pipelines" % (self.fn.key, e.id))
            return results[0]
        if isinstance(e, (ast.List, ast.ListComp)):
            return [("list", e, stmt)]
        return [("source", e, stmt)]

    @staticmethod
    def _sig(ops):
        out = []
        for op in ops:
            if op[0] in ("list", "source"):
                out.append(op[0])
            elif op[0] == "transpose":
                out.append("transpose%s" % (norm_text(op[1]) if op[1] is not None else ""))
            else:
                out.append("%s%s" % (op[0], op[1]))
        return tuple(out)

    # ----------------------------------------------------- particle order
    def order_sources(self, e, stmt, depth=0):
        """expressions the per-particle list is built over"""
        if depth > 8:
            return {"?"}
        if isinstance(e, ast.ListComp):
            it = e.generators[0].iter
            return self._iter_source(it, stmt, depth)
        if isinstance(e, ast.Call) and _call_name(e) in ("data_to_numpy", "data_to_tensor", "list", "tuple") and e.args:
            return self.order_sources(e.args[0], stmt, depth + 1)
        if isinstance(e, ast.Name):
            out = set()
            ds = self.reach.at(stmt, e.id)
            if not ds:
                return {"<parameter %s>" % e.id}
            for name, value, idx, st in ds:
                if isinstance(value, ast.List) and not value.elts:
                    # filled by appends
                    for n in walk_local(self.fn.node):
                        if isinstance(n, ast.Call) and isinstance(n.func, ast.Attribute) and n.func.attr == "append" and norm_text(n.func.value) == e.id:
                            p = self.pm.get(n)
                            while p is not None and not isinstance(p, ast.For):
                                p = self.pm.get(p)
                            if p is None:
                                out.add("?append outside a loop")
                            else:
                                out |= self._iter_source(p.iter, p, depth)
                elif isinstance(value, ast.expr) and idx is None:
                    out |= self.order_sources(value, st, depth + 1)
                else:
                    out.add("?%s" % norm_text(st)[:40])
            return out
        return {"?%s" % norm_text(e)}

    def _iter_source(self, it, stmt, depth):
        if isinstance(it, ast.Name):
            ds = self.reach.at(stmt, it.id)
            lists = [d for d in ds if isinstance(d[1], (ast.ListComp, ast.List))]
            if ds and len(lists) == len(ds):
                out = set()
                for d in lists:
                    out |= self.order_sources(d[1], d[3], depth + 1)
                return out
            if lists:  # element-wise map over an earlier list on some path
                out = set()
                for d in ds:
                    if isinstance(d[1], (ast.ListComp, ast.List)):
                        out |= self.order_sources(d[1], d[3], depth + 1)
                    else:
                        out.add(self.value_text(it, stmt))
                return out
        return {self.value_text(it, stmt)}

    def value_text(self, e, stmt):
        """name -> `name = value` resolved one step through its reaching definitions (parameters keep their name)"""
        if isinstance(e, ast.Name):
            ds = self.reach.at(stmt, e.id)
            vals = sorted({norm_text(d[1]) for d in ds if isinstance(d[1], ast.expr) and d[2] is None})
            is_param = e.id in self.fn.all_param_names()
            if vals:
                return ("%s|" % e.id if is_param else "") + " / ".join(vals)
            return e.id
        return norm_text(e)


def _apply_axes(ops, key):
    """symbolic axes (E event, P particle, C component) through the pipeline.
    -> (dims, width, notes)"""
    dims = None
    width = None
    for op in ops:
        if op[0] == "list":
            dims = "list"
        elif op[0] == "source":
            return None, None
        elif op[0] == "stack":
            if dims != "list":
                return None, None
            ax = op[1]
            if not isinstance(ax, int):
                raise AnalysisError("%s: stack axis is not a literal" % key)
            d = ["E", "C"]
            d.insert(ax if ax >= 0 else ax + 3, "P")
            dims = d
        elif op[0] == "transpose":
            if dims == "list":
                dims = ["P", "E", "C"]  # np.transpose(list) = np.array(list) first
            if not isinstance(dims, list) or len(dims) != 3:
                raise AnalysisError("%s: transpose applied to something that is not the 3-d momentum array" % key)
            if op[1] is None:
                perm = (2, 1, 0)
            else:
                perm = _int_tuple(op[1])
            if perm is None or sorted(perm) != [0, 1, 2]:
                raise AnalysisError("%s: transposition `%s` is not a literal permutation of 3 axes" % (key, norm_text(op[1]) if op[1] is not None else ""))
            dims = [dims[p] for p in perm]
        elif op[0] == "reshape":
            if dims == "list":
                dims = ["P", "E", "C"]
            shape = op[1]
            if len(shape) == 2 and shape[0] == -1 and isinstance(dims, list) and len(dims) == 3:
                width = shape[1]
                dims = [(dims[0], dims[1]), dims[2]]
            elif len(shape) == 3 and shape[0] == -1 and isinstance(dims, list) and len(dims) == 2 and isinstance(dims[0], tuple):
                width = shape[2]
                dims = [dims[0][0], dims[0][1], dims[1]]
            else:
                raise AnalysisError("%s: reshape to %s not modelled" % (key, shape))
    if dims == "list":
        dims = ["P", "E", "C"]
    return dims, width


def reader_layout(repo, chk):
    fn = repo.fn(READER)
    reach = _Reach(fn)
    key = fn.key
    resh2, resh3, trans = [], [], []
    for n in walk_local(fn.node):
        if isinstance(n, ast.Call) and _call_name(n) == "reshape":
            is_np = dotted(n.func) is not None and dotted(n.func).split(".")[0] in ("np", "numpy")
            shp = _shape_of_call(n, 1 if is_np else 0)
            if len(shp) == 2:
                resh2.append((n, shp))
            elif len(shp) == 3:
                resh3.append((n, shp))
        if isinstance(n, ast.Call) and _call_name(n) == "transpose":
            trans.append(n)
    if len(resh2) != 1 or len(resh3) != 1 or len(trans) != 1:
        raise AnalysisError("%s: expected reshape(-1, 4), reshape(-1, n, 4) and one transpose; found %d/%d/%d" % (key, len(resh2), len(resh3), len(trans)))
    (r2, s2), (r3, s3), t = resh2[0], resh3[0], trans[0]
    # default transposition
    is_np = dotted(t.func) is not None and dotted(t.func).split(".")[0] in ("np", "numpy")
    parg = t.args[1] if is_np and len(t.args) > 1 else (t.args[0] if not is_np and t.args else None)
    perm = _int_tuple(parg) if parg is not None else None
    how = "literal"
    if perm is None and isinstance(parg, ast.Name):
        st = _enclosing_stmt(fn, t)
        cands = [d for d in reach.at(st, parg.id)]
        lits = {_int_tuple(d[1]) for d in cands if isinstance(d[1], ast.expr)}
        dflt = fn.defaults().get(parg.id)
        if dflt is not None and _int_tuple(dflt):
            lits.add(_int_tuple(dflt))
            how = "signature default"
        lits.discard(None)
        if len(lits) == 1:
            perm = lits.pop()
            if how == "literal":
                how = "default set when `%s` is None" % parg.id
    if perm is None or sorted(perm) != [0, 1, 2]:
        raise AnalysisError("%s: the default transposition of the reader is not a literal permutation of 3 axes" % key)
    dims = [("E", "P", "C")[p] for p in perm]
    # the transposed array must be iterated along its leading axis and stored per particle
    chk.instance("R1", "%s rows reshape%s -> reshape%s = (event, particle, component) -> transpose%s (%s) = (%s)" % (
        key, s2, s3, perm, how, ", ".join(dims)))
    if s2[0] != -1 or s3[0] != -1:
        chk.violation("R1", key, "reshape-leading", "reader reshapes with a fixed leading size", file=DATA, line=r2.lineno)
    if dims != ["P", "E", "C"]:
        chk.violation(
            "R1", key, "default-order",
            "after the default transposition %s the axes are (%s); the loop assigns the leading axis to particles, so it must be (P, E, C)" % (perm, ", ".join(dims)),
            file=DATA, line=t.lineno,
        )
    if s2[1] != s3[2]:
        chk.violation("R1", key, "row-width", "reader reshapes rows to width %s and events to width %s" % (s2[1], s3[2]), file=DATA, line=r3.lineno)
    return perm, s2[1], s3


def check_layout(repo, chk):
    rperm, rwidth, rshape3 = reader_layout(repo, chk)
    n_sinks = 0
    orders = {}
    for key in sorted(WRITERS):
        fn = repo.fn(key)
        rel = key.split("::")[0]
        reach = _Reach(fn)
        pipe = Pipeline(fn, reach)
        found = 0
        for n in walk_local(fn.node):
            if not (isinstance(n, ast.Call) and dotted(n.func) in ("np.savetxt", "np.save", "numpy.savetxt", "numpy.save") and len(n.args) >= 2):
                continue
            st = _enclosing_stmt(fn, n)
            ops = pipe.trace(n.args[1], st)
            dims, width = _apply_axes(ops, key)
            if dims is None:
                chk.info("%s: `%s` does not write a stacked momentum array (source `%s`)" % (key, norm_text(n)[:70], norm_text(ops[0][1])[:50]))
                continue
            found += 1
            n_sinks += 1
            sink = dotted(n.func).split(".")[-1]
            tperm = [norm_text(op[1]) for op in ops if op[0] == "transpose"]
            chk.instance("L1", "%s %s: %s -> written as (%s)" % (key, sink, " -> ".join(Pipeline._sig(ops)), _dims_text(dims)))
            flat = dims if len(dims) == 2 else [(dims[0], dims[1]), dims[2]]
            if flat != [("E", "P"), "C"]:
                wperm = tperm[0] if tperm else "none"
                chk.violation(
                    "L1", key, "layout@%s" % sink,
                    "rows are written in (%s) order; the reader's reshape%s + default transpose%s expects (event, particle) rows of components, "
                    "i.e. writer transposition %s is not the inverse of the reader's" % (_dims_text(dims), rshape3, rperm, wperm),
                    file=rel, line=n.lineno,
                )
            chk.instance("L2", "%s %s: row width %s / reader %s" % (key, sink, width if width is not None else "3-d array, reader reshapes", rwidth))
            if width is not None and width != rwidth:
                chk.violation("L2", key, "row-width@%s" % sink, "writer reshapes to rows of %s numbers, the reader reads rows of %s" % (width, rwidth), file=rel, line=n.lineno)
            if width is None and len(dims) != 3:
                raise AnalysisError("%s: written array has neither a row reshape nor 3 axes" % key)
            lst = [op for op in ops if op[0] == "list"]
            if lst:
                orders.setdefault(key, set()).update(pipe.order_sources(lst[0][1], lst[0][2]))
        # in-place shuffles must act on the event axis
        for n in walk_local(fn.node):
            if isinstance(n, ast.Call) and _call_name(n) == "shuffle" and n.args and isinstance(n.args[0], ast.Name):
                st = _enclosing_stmt(fn, n)
                dims, _ = _apply_axes(pipe.trace(n.args[0], st), key)
                if dims is None:
                    continue
                lead = dims[0][0] if isinstance(dims[0], tuple) else dims[0]
                chk.instance("L1", "%s in-place `%s` on axes (%s): permutes %s" % (key, norm_text(n), _dims_text(dims), "events" if lead == "E" and not isinstance(dims[0], tuple) else "rows"))
                if dims[0] != "E":
                    chk.violation(
                        "L1", key, "shuffle-axis",
                        "`%s` permutes the leading axis of (%s): the momenta of one event are torn apart / assigned to other particles" % (norm_text(n), _dims_text(dims)),
                        file=rel, line=n.lineno,
                    )
        if not found:
            raise AnalysisError("%s no longer writes a stacked momentum array with np.savetxt/np.save" % key)
    chk.require_count("L1", MIN_L1)
    chk.require_count("L2", MIN_L1)
    chk.require_count("R1", 1)
    check_order_sources(repo, chk, orders)


def _dims_text(dims):
    return ", ".join("x".join(d) if isinstance(d, tuple) else d for d in dims)


def _strip_sorted(text_expr):
    e = text_expr
    n = 0
    while isinstance(e, ast.Call) and isinstance(e.func, ast.Name) and e.func.id in ("sorted", "list", "tuple") and e.args:
        if e.func.id == "sorted":
            n += 1
        e = e.args[0]
    return e, n


def _reader_particles(repo, key):
    """second argument of the load_dat_file call in function `key`, resolved one step"""
    fn = repo.fn(key)
    reach = _Reach(fn)
    pipe = Pipeline(fn, reach)
    for n in walk_local(fn.node):
        if isinstance(n, ast.Call) and _call_name(n) == "load_dat_file":
            arg = n.args[1] if len(n.args) > 1 else next((k.value for k in n.keywords if k.arg == "particles"), None)
            if arg is None:
                break
            st = _enclosing_stmt(fn, n)
            return arg, pipe.value_text(arg, st), n
    raise AnalysisError("%s no longer calls load_dat_file(fnames, particles)" % key)


def check_order_sources(repo, chk, orders):
    # --- SimpleData: writer get_dat_order() / reader load_p4 get_dat_order()
    wkey, rkey = CLD + "::SimpleData.savetxt", CLD + "::SimpleData.load_p4"
    w = orders.get(wkey, set())
    _, rtext, rcall = _reader_particles(repo, rkey)
    chk.instance("L3", "%s order {%s} / reader %s order `%s`" % (wkey, "; ".join(sorted(w)), rkey.split("::")[1], rtext))
    wcalls = {t for t in w if not t.startswith(("?", "<"))}
    if not wcalls or any(t != rtext for t in wcalls):
        chk.violation(
            "L3", wkey, "order-source",
            "writer takes the particle order from {%s}, its reader from `%s`: columns are assigned to different particles" % ("; ".join(sorted(w)), rtext),
            file=CLD, line=repo.fn(wkey).lineno,
        )
    if "get_dat_order" not in rtext:
        raise AnalysisError("%s: reader order `%s` is not get_dat_order()" % (rkey, rtext))

    # --- CalAngleData.savetxt default order vs prepare_data_from_decay default particles
    wkey, rkey = CAL + "::CalAngleData.savetxt", CAL + "::prepare_data_from_decay"
    w = orders.get(wkey, set())
    _, rtext, rcall = _reader_particles(repo, rkey)
    chk.instance("L3", "%s order {%s} / reader %s particles `%s`" % (wkey, "; ".join(sorted(w)), rkey.split("::")[1], rtext))

    def canon(text):
        """'param|value' -> (ends with .outs, number of sorted() wrappers, receiver text)"""
        val = text.split("|", 1)[1] if "|" in text else text
        try:
            e = ast.parse(val, mode="eval").body
        except SyntaxError:
            return None
        e, ns = _strip_sorted(e)
        if isinstance(e, ast.Attribute) and e.attr == "outs":
            return ns, e.value
        return None

    cw = [canon(t) for t in w]
    cr = canon(rtext)
    if not cw or any(c is None for c in cw) or cr is None:
        raise AnalysisError("%s / %s: default particle orders `%s` / `%s` are not `<decay group>.outs` expressions" % (wkey, rkey, "; ".join(sorted(w)), rtext))
    # the writer's receiver must be a DecayGroup (get_decay returns DecayGroup(...)); DecayGroup.outs is sorted in __init__
    dg_init = repo.fn(PART + "::DecayGroup.__init__")
    outs_sorted = False
    for n in walk_local(dg_init.node):
        if isinstance(n, ast.Assign) and len(n.targets) == 1 and norm_text(n.targets[0]) == "self.outs":
            outs_sorted = isinstance(n.value, ast.Call) and isinstance(n.value.func, ast.Name) and n.value.func.id == "sorted"
    for ns, recv in cw:
        recv_ok = False
        if isinstance(recv, ast.Call) and isinstance(recv.func, ast.Attribute) and recv.func.attr == "get_decay":
            gd = repo.fn(CAL + "::CalAngleData.get_decay")
            rets = [x for x in walk_local(gd.node) if isinstance(x, ast.Return) and isinstance(x.value, ast.Call)]
            recv_ok = bool(rets) and all(_call_name(x.value) == "DecayGroup" for x in rets)
        if not recv_ok:
            raise AnalysisError("%s: default order receiver `%s` is not CalAngleData.get_decay() returning a DecayGroup" % (wkey, norm_text(recv)))
        if ns == 0 and not outs_sorted:
            chk.violation(
                "L3", wkey, "order-source",
                "writer's default order is DecayGroup.outs as stored (unsorted) while the reader's default is sorted(outs)", file=CAL, line=repo.fn(wkey).lineno,
            )
    if cr[0] == 0 and not outs_sorted:
        chk.violation("L3", rkey, "order-source", "reader's default particle list is unsorted `%s`" % rtext, file=CAL, line=rcall.lineno)
    chk.info("DecayGroup.__init__ stores self.outs = sorted(...): %s; writer default `<DecayGroup>.outs` and reader default `sorted(decs.outs)` are the same list" % outs_sorted)

    # --- gen_data: same `particles` for the reader of the MC file and for the written list
    wkey = APP + "::gen_data"
    w = orders.get(wkey, set())
    _, rtext, rcall = _reader_particles(repo, wkey)
    chk.instance("L3", "%s written list built over {%s} / load_dat_file particles `%s`" % (wkey, "; ".join(sorted(w)), rtext))
    if len(w) != 1 or next(iter(w)) != rtext:
        chk.violation(
            "L3", wkey, "order-source",
            "the written list is built over {%s} but the sample was read with particles `%s`" % ("; ".join(sorted(w)), rtext), file=APP, line=rcall.lineno,
        )
    w = orders.get(APP + "::gen_mc", set())
    chk.info("%s::gen_mc writes the daughters in index order {%s}; there is no particle list to compare with" % (APP, "; ".join(sorted(w))))
    chk.require_count("L3", MIN_L3)


# ------------------------------------------------------------------ fixture
FIXTURE_EXPECT = {
    # function -> (kinds, sorted problem constructs)
    "good_map": ("dict,list,tuple", []),
    "good_joint": ("dict,list,tuple", []),
    "good_reordered": ("dict,list,tuple", []),
    "good_loop": ("dict,list,tuple", []),
    "bad_no_tuple": ("dict,list", []),
    "bad_slice": ("dict,list,tuple", ["partial-iteration@list", "slice@list"]),
    "bad_items_slice": ("dict,list,tuple", ["partial-iteration@dict", "slice@dict"]),
    "bad_zip_literal": ("dict,list,tuple", ["partial-iteration@tuple"]),
    "bad_filter": ("dict,list,tuple", ["filter@list"]),
    "bad_break": ("dict,list,tuple", ["early-exit@list"]),
    "bad_forward": ("dict,list,tuple", []),
}
FIXTURE_FORWARD = {"good_map": True, "bad_forward": False}


def _fixture(chk):
    import os

    from ..model import Repo

    here = os.path.join(os.path.dirname(os.path.dirname(os.path.abspath(__file__))), "fixtures", "c18")
    frepo = Repo(here, package="tf_pwa")
    mod = frepo.mod("tf_pwa/nested.py")
    n = 0
    for q, (kinds, probs) in FIXTURE_EXPECT.items():
        r = Recursion(frepo, mod.funcs[q], ())
        got_p = sorted({"%s@%s" % (c, "+".join(sorted(b.kinds))) for b in r.branches for c, _, _ in b.problems})
        got = (",".join(sorted(r.kinds())), got_p)
        if got != (kinds, probs):
            raise AnalysisError("C18 fixture %s: expected %s, analysis says %s" % (q, (kinds, probs), got))
        n += 1
    for q, exp in FIXTURE_FORWARD.items():
        r = Recursion(frepo, mod.funcs[q], ())
        got = all(ok for _, _, _, ok in r.forwarding())
        if got != exp:
            raise AnalysisError("C18 fixture %s: forwarding expected %s, analysis says %s" % (q, exp, got))
        n += 1
    for q, exp in (("writer_good", ["E", "P", "C"]), ("writer_bad_perm", ["P", "E", "C"]), ("writer_stack_axis1", ["P", "E", "C"])):
        f = mod.funcs[q]
        pipe = Pipeline(f, _Reach(f))
        sink = [x for x in walk_local(f.node) if isinstance(x, ast.Call) and dotted(x.func) == "np.savetxt"][0]
        dims, width = _apply_axes(pipe.trace(sink.args[1], _enclosing_stmt(f, sink)), q)
        flat = [dims[0][0], dims[0][1], dims[1]]
        if flat != exp or width != 4:
            raise AnalysisError("C18 fixture %s: expected %s, analysis says %s width %s" % (q, exp, flat, width))
        n += 1
    chk.instance("K3", "fixture: %d positive/negative examples classified as expected" % n, nontrivial=False)


def check_cache_and_lazy(repo, chk):
    """seed-driven clauses: (M1) a cache hit returns the cached object itself; (M2) LazyCall.as_dataset records
    the requested batch size before any return"""
    import ast

    from ..model import norm_text, walk_local
    from ..mustpass import must_pass

    chk.rule("M1", "cached-data read back is the identity: get_data(idx) of every data class, interpreted with the sample present in self.cached_data (every other method of the class a probe), returns the cached object itself and hands it to no processing step (process_scale ...) - the cache file is written after processing, so nothing is re-applied on a hit; without a cache entry the loaded sample goes through process_scale once")
    chk.rule("M2", "LazyCall.as_dataset stores the requested batch size on every path before returning (iteration reads self.batch_size)")
    import sympy as sp

    from ..sym import SelfObj, Translator, Unmodelled
    n = 0
    m = repo.mod("tf_pwa/config_loader/data.py")
    for cls in m.all_classes:
        f = cls.methods.get("get_data")
        if f is None or not any(isinstance(x, ast.Attribute) and x.attr == "cached_data" for x in ast.walk(f.node)):
            continue
        for hit in (True, False):
            cached = {"weight": sp.Symbol("w_cached"), "tag": "cached sample"}
            calls = []

            def probe(name):
                def h(tr_, args, kwargs, node):
                    a = [x for x in args if not (isinstance(x, SelfObj) and x.cls is not None)]
                    calls.append((name, a))
                    if name == "process_scale":
                        return {"tag": "scaled", "of": a[-1] if a else None}
                    if name == "load_data":
                        return {"tag": "loaded"}
                    if name == "get_data_file":
                        return ["file.dat"]
                    if name == "get_weight_sign":
                        return sp.Integer(1)
                    return sp.Symbol("probe_" + name)
                return h

            def isinst(tr_, args, kwargs, node):
                names = {x.id for x in ast.walk(node.args[1]) if isinstance(x, ast.Name)} if len(node.args) > 1 else set()
                v = args[0]
                table = {"list": list, "tuple": tuple, "dict": dict, "str": str}
                if any(nm_ in table and isinstance(v, table[nm_]) for nm_ in names):
                    return True
                if names & {"int", "float"} and (isinstance(v, (int, float)) or getattr(v, "is_number", False)):
                    return True
                return False

            hooks = {"allow_attr_store": True, "builtin.isinstance": isinst}
            # loading, scaling and bookkeeping steps are probes; small accessors of the class (a helper that looks the
            # sample up in the cache, say) are interpreted
            HEAVY = ("load_", "process_", "get_data_file", "get_weight_sign", "get_n_data", "set_lazy", "cal_angle", "get_dat_order", "get_phsp", "savetxt", "get_all_data", "get_data_index", "load", "save")
            for c in cls.mro:
                for nm, g in c.methods.items():
                    if nm != "get_data" and g.key not in hooks and (nm.startswith(HEAVY) or nm in HEAVY):
                        hooks[g.key] = probe(nm)
            so = SelfObj(cls, {"cached_data": ({"bg": cached} if hit else {}), "dic": {}, "scale_list": ["bg"], "extra_var": [], "_Ngroup": sp.Integer(1)})
            tr = Translator(repo, hooks=hooks, max_depth=2)
            try:
                out = tr.call_fn(f, ["bg"], self_obj=so)
            except Unmodelled as e:
                raise AnalysisError("%s cannot be interpreted (cache %s): %s" % (f.key, "hit" if hit else "miss", e))
            n += 1
            scaled = [a for nm, a in calls if nm == "process_scale"]
            if hit:
                ok = out is cached and not any(any(x is cached for x in a) for a in scaled)
                chk.oblige("M1", "%s: a cache hit returns the cached sample itself, unprocessed" % f.key, ok)
                if not ok:
                    chk.violation("M1", f.key, "cache-hit", "on a cache hit the function returns %s%s instead of the cached object: processing that was applied before the sample was cached (weight scaling by N_data / N_bg) is applied again on every read" % ("the result of process_scale " if isinstance(out, dict) and out.get("tag") == "scaled" else "", {k: v for k, v in out.items() if k != "of"} if isinstance(out, dict) else out), file=m.rel, line=f.lineno)
            else:
                ok = isinstance(out, dict) and out.get("tag") == "scaled" and len(scaled) == 1
                chk.oblige("M1", "%s: without a cache entry the loaded sample is scaled once" % f.key, ok)
                if not ok:
                    chk.violation("M1", f.key, "cache-miss", "without a cache entry get_data returns %s after %d process_scale calls: the freshly loaded sample must be scaled exactly once" % (out if not isinstance(out, dict) else out.get("tag"), len(scaled)), file=m.rel, line=f.lineno)
    if n < 4:
        raise AnalysisError("fewer than 2 get_data accessors with a cached_data read-back found in config_loader/data.py")
    # the cache is written from the same accessor that reads it (save after processing)
    fn = repo.fn("tf_pwa/data.py::LazyCall.as_dataset")
    if "batch" not in fn.all_param_names():
        raise AnalysisError("LazyCall.as_dataset lost its batch parameter")

    def is_event(node, sc):
        return isinstance(sc, ast.Assign) and norm_text(sc.targets[0]) == "self.batch_size" and norm_text(sc.value) == "batch"

    def is_sink(node, sc):
        return isinstance(sc, ast.Return)

    cfg, n_sinks, bad = must_pass(fn.node, is_event, is_sink)
    chk.instance("M2", "LazyCall.as_dataset: %d return sites, all after `self.batch_size = batch`: %s" % (n_sinks, not bad))
    for node, path in bad[:1]:
        chk.violation("M2", fn.key, "batch-size-stale", "a return at line %s is reachable without storing the requested batch size: a later iteration uses the batch size of a previous request; path %s" % (node.lineno, " -> ".join(path[-6:])), file="tf_pwa/data.py", line=node.lineno, path=path)
    it = repo.fn("tf_pwa/data.py::LazyCall.__iter__")
    reads = any(isinstance(x, ast.Attribute) and x.attr == "batch_size" for x in ast.walk(it.node))
    chk.instance("M2", "LazyCall.__iter__ reads self.batch_size: %s" % reads)
    if not reads:
        chk.info("LazyCall.__iter__ no longer reads self.batch_size; rule M2 may be obsolete")


_MUT_DISPLAY = (ast.Dict, ast.List, ast.Set)


def _shared_element_lists(fnode):
    """names bound to `[<fresh mutable>] * n` (one object referenced n times) -> the binding statement"""
    out = {}
    for st in ast.walk(fnode):
        if isinstance(st, ast.Assign) and len(st.targets) == 1 and isinstance(st.targets[0], ast.Name) and isinstance(st.value, ast.BinOp) and isinstance(st.value.op, ast.Mult):
            for side in (st.value.left, st.value.right):
                if isinstance(side, ast.List) and len(side.elts) == 1:
                    e = side.elts[0]
                    if isinstance(e, _MUT_DISPLAY) or (isinstance(e, ast.Call) and isinstance(e.func, ast.Name) and e.func.id in ("dict", "list", "set") and not e.args):
                        out[st.targets[0].id] = st
    return out


def _element_mutations(fnode, name):
    """statements that mutate an element of the list `name` in place: name[i][k] = v, name[i].append(..), name[i] += .."""
    hits = []
    for st in ast.walk(fnode):
        tgt = None
        if isinstance(st, (ast.Assign, ast.AugAssign)):
            for t in (st.targets if isinstance(st, ast.Assign) else [st.target]):
                if isinstance(t, ast.Subscript) and isinstance(t.value, ast.Subscript) and isinstance(t.value.value, ast.Name) and t.value.value.id == name:
                    tgt = st
        if isinstance(st, ast.Call) and isinstance(st.func, ast.Attribute) and st.func.attr in ("append", "extend", "update", "add", "setdefault", "insert", "pop", "remove", "clear") \
                and isinstance(st.func.value, ast.Subscript) and isinstance(st.func.value.value, ast.Name) and st.func.value.value.id == name:
            tgt = st
        if tgt is not None:
            hits.append(tgt)
    return hits


def check_batch_keys_and_aliases(repo, chk):
    """round-3 seeds: (M3) an on-disk cache of batched lazy data is keyed by the batch size; (L5) per-group containers
    that are filled element by element are distinct objects"""
    chk.rule("M3", "LazyCall.as_dataset: the file name handed to Dataset.cache(..) depends on the requested batch size (a cache written with one batch size must not be replayed for another: the extra leaves are split with the new size)")
    chk.rule("L5", "no list built as [<fresh dict/list/set>] * n is filled element-wise afterwards (all n entries are one object: every group would get the last group's values)")
    fn = repo.fn("tf_pwa/data.py::LazyCall.as_dataset")
    batch = fn.params[1] if len(fn.params) > 1 else None
    defs = {}
    for st in walk_local(fn.node):
        if isinstance(st, ast.Assign):
            for t in st.targets:
                if isinstance(t, ast.Name):
                    defs.setdefault(t.id, set()).update(x.id for x in ast.walk(st.value) if isinstance(x, ast.Name))
        elif isinstance(st, (ast.AugAssign, ast.AnnAssign)) and isinstance(st.target, ast.Name) and st.value is not None:
            defs.setdefault(st.target.id, set()).update(x.id for x in ast.walk(st.value) if isinstance(x, ast.Name))
        elif isinstance(st, ast.NamedExpr) and isinstance(st.target, ast.Name):
            defs.setdefault(st.target.id, set()).update(x.id for x in ast.walk(st.value) if isinstance(x, ast.Name))

    def depends(names, seen=None):
        seen = seen or set()
        for nm in names:
            if nm == batch:
                return True
            if nm in seen:
                continue
            seen.add(nm)
            if depends(defs.get(nm, ()), seen):
                return True
        return False

    sites = [c for c in walk_local(fn.node) if isinstance(c, ast.Call) and isinstance(c.func, ast.Attribute) and c.func.attr == "cache" and c.args]
    if not sites:
        raise AnalysisError("LazyCall.as_dataset: no Dataset.cache(<file>) call found")
    for c in sites:
        ok = depends({x.id for x in ast.walk(c.args[0]) if isinstance(x, ast.Name)})
        chk.instance("M3", "LazyCall.as_dataset: cache file `%s` depends on the batch size `%s`: %s" % (norm_text(c.args[0]), batch, ok))
        if not ok:
            chk.violation("M3", fn.key, "cache-key", "the on-disk cache `%s` does not depend on the batch size: a second as_dataset() with another batch size replays the batches of the first one while the other leaves are split with the new size (events silently lost)" % norm_text(c.args[0]), file="tf_pwa/data.py", line=c.lineno)
    # L5 over every non-test module
    n_lists = 0
    for mod in repo.mods.values():
        for f in mod.funcs.values():
            shared = _shared_element_lists(f.node)
            for name, st in shared.items():
                n_lists += 1
                muts = _element_mutations(f.node, name)
                chk.instance("L5", "%s: `%s` shares one object; element-wise mutations: %d" % (f.key, norm_text(st)[:60], len(muts)), nontrivial=bool(muts))
                if muts:
                    chk.violation("L5", f.key, "shared:%s" % name, "`%s` puts ONE object into every slot, and `%s` (line %d) then fills the slots one by one: every group ends up with the values of the last one" % (norm_text(st)[:70], norm_text(muts[0])[:60], muts[0].lineno), file=mod.rel, line=st.lineno)
    # positive example (the rule normally matches nothing)
    t = ast.parse("def f(files, w):\n    kw = [{}] * len(files)\n    for i in range(len(kw)):\n        kw[i]['w'] = w[i]\n    ok = [{} for _ in files]\n    ok[0]['w'] = 1\n    return kw")
    sh = _shared_element_lists(t.body[0])
    if list(sh) != ["kw"] or len(_element_mutations(t.body[0], "kw")) != 1:
        raise AnalysisError("L5 fixture no longer classified as expected")
    chk.instance("L5", "fixture: [{}] * n filled by index is flagged, a comprehension of fresh dicts is not (%d shared-element lists in the repository)" % n_lists, nontrivial=False)


def check_batch_sum(repo, chk):
    """batch_sum adds up per-batch results without writing into them (the first result may be a view of the caller's
    data: numpy `+=` would accumulate into the sample itself)"""
    import numpy as np
    import sympy as sp

    from ..sym import PyFunc, Translator, Unmodelled
    chk.rule("K-acc", "batch_sum(function, data) interpreted with numpy in-place semantics for `+=` on three batches whose per-batch results are the batches' own arrays: the result is their sum and the batches are unchanged afterwards")
    fn = repo.fn_opt("tf_pwa/data.py::batch_sum")
    if fn is None:
        raise AnalysisError("anchor vanished: tf_pwa/data.py::batch_sum")
    batches = [np.array([sp.Symbol("w%d%d" % (b, k)) for k in range(2)], dtype=object) for b in range(3)]
    orig = [b.copy() for b in batches]
    hooks = {"numpy_inplace": True}
    for nm in ("data_split", "split_generator"):
        g = repo.fn_opt("tf_pwa/data.py::" + nm)
        if g is not None:
            hooks[g.key] = lambda tr_, a_, k_, n_: list(batches)
    tr = Translator(repo, hooks=hooks, max_depth=2)
    try:
        out = tr.call_fn(fn, [PyFunc(lambda d: d), "DATA"], {})
    except Unmodelled as e:
        raise AnalysisError("batch_sum cannot be interpreted: %s" % e)
    want = orig[0] + orig[1] + orig[2]
    ok_val = isinstance(out, np.ndarray) and out.shape == want.shape and all(sp.simplify(a - b) == 0 for a, b in zip(out.reshape(-1), want.reshape(-1)))
    touched = [k for k, (b, o) in enumerate(zip(batches, orig)) if not all(sp.simplify(x - y) == 0 for x, y in zip(b.reshape(-1), o.reshape(-1)))]
    chk.oblige("K-acc", "batch_sum over 3 batches: value = sum of the per-batch results: %s; batches modified: %s" % (ok_val, touched or "none"), ok_val and not touched)
    if touched:
        chk.violation("K-acc", fn.key, "write-through", "after batch_sum the per-batch result of batch %s has changed: the running sum is accumulated in place into the first result, which can be a view of the caller's data (weights / momenta of the first batch are overwritten)" % touched, file="tf_pwa/data.py", line=fn.lineno)
    elif not ok_val:
        chk.violation("K-acc", fn.key, "value", "batch_sum over three batches returns %s, expected %s" % (out, want), file="tf_pwa/data.py", line=fn.lineno)


def run(repo, chk, tier):
    from ..cacheown import check_persistent_state

    check_persistent_state(repo, chk, ["tf_pwa/data.py", "tf_pwa/config_loader/data.py", "tf_pwa/root_io.py"])
    from .c18_copy import check_merge_identity

    check_merge_identity(repo, chk)
    chk.rule("K1", "each structural recursion dispatches on exactly its confirmed container kinds (frozen table)")
    chk.rule("K2", "partner functions handle the same kinds; flatten/nest agree on leaf kinds and dict order")
    chk.rule("K3", "each container branch iterates the complete container and recurses on the element")
    chk.rule("K4", "zip(*children) generators guard every empty container kind, unboundedly")
    chk.rule("K5", "recursive self-calls forward every option parameter")
    chk.rule("K6", "thin wrappers delegate their whole subject")
    chk.rule("R1", "reader: rows -> (event, particle, 4) -> default transpose brings particles to the front")
    chk.rule("L1", "writer: per-particle list -> stack/transpose -> (event, particle, component): inverse of the reader's default permutation")
    chk.rule("L2", "writer row width = reader row width")
    chk.rule("L3", "writer and reader use the same particle-order source")
    chk.assume("event data are built from dict / list / tuple containers only (subclasses dispatch with their base kind)")
    chk.assume("inputs of data_merge have the same structure (documented precondition)")
    chk.assume("np.stack / np.transpose / reshape / np.savetxt / np.loadtxt have their numpy meaning (C order)")
    _fixture(chk)
    check_recursions(repo, chk)
    check_layout(repo, chk)
    check_cache_and_lazy(repo, chk)
    check_batch_keys_and_aliases(repo, chk)
    check_batch_sum(repo, chk)
    from .c18_copy import check_copy_isolation, check_extra_var_given, check_keyed_closures, check_multifile_reader

    check_copy_isolation(repo, chk)
    check_extra_var_given(repo, chk)
    check_keyed_closures(repo, chk)
    check_multifile_reader(repo, chk)
    chk.info("not decided (value level): batch arithmetic of _data_split (range(0, n, b), min), np.save/np.load/np.savez fidelity (save_data/load_data), "
             "LazyCall evaluation order, root_io")
