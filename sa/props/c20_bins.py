"""C20 adaptive bins, decided by interpretation (B-sem).

  mask     AdaptiveBound.get_bool_mask, interpreted on one event with two coordinates and one bin [LB, RB): the mask is
           AND over the coordinates of (x_k >= lb_k) & (x_k < rb_k): half-open with the lower side closed, reduced with
           all() over the coordinate axis
  chain    single_split_bound(data, n, (LO, HI)) for n = 1..4 with np.percentile uninterpreted: n bins, the first starts
           at LO, the last ends at HI, and the upper bound of bin k is the very expression that is the lower bound of bin k+1
           -> together with the half-open masks every value in [LO, HI) lies in exactly one bin
  base     base_bound / the default of single_split_bound pad the open (upper) side strictly outwards, so that the
           largest event is inside its bin
Robust to how the code builds the list (append of pairs, edge list + zip), names the padding constant or nests the calls.
"""
import numpy as np
import sympy as sp

from ..model import AnalysisError
from ..sym import SelfObj, Translator, Unmodelled

AB = "tf_pwa/adaptive_bins.py"
Q = sp.Function("Q")


def _first(tr, d, args, kwargs, n):
    last = d.split(".")[-1]
    if last == "percentile":
        return Q(sp.sympify(args[1]))
    if last in ("min", "amin") and d.split(".")[0] in ("np", "numpy"):
        return sp.Symbol("MIN", real=True)
    if last in ("max", "amax") and d.split(".")[0] in ("np", "numpy"):
        return sp.Symbol("MAX", real=True)
    if last == "logical_and" and len(args) == 2:
        A, B = np.broadcast_arrays(np.asarray(args[0], dtype=object), np.asarray(args[1], dtype=object))
        out = np.empty(A.shape, dtype=object)
        for i in np.ndindex(A.shape):
            out[i] = sp.And(A[i], B[i])
        return out
    if last == "all" and d.split(".")[0] in ("np", "numpy"):
        a = np.asarray(args[0], dtype=object)
        ax = kwargs.get("axis", args[1] if len(args) > 1 else None)
        if ax is not None and int(ax) == 0 and a.ndim == 2:
            return np.array([sp.And(*list(a[:, j])) for j in range(a.shape[1])], dtype=object)
        return sp.And(*list(a.reshape(-1)))
    return NotImplemented


def check_bins_semantics(repo, chk):
    chk.rule("B-sem", "adaptive bins by interpretation: get_bool_mask = AND_k (x_k >= lb_k) & (x_k < rb_k); single_split_bound(n) returns n bins from LO to HI whose upper bound is the next lower bound (n = 1..4); data-derived base bounds pad the open side outwards")
    cls = repo.cls(AB + "::AdaptiveBound")
    decided = set()
    # ---- mask
    X0, X1, L0, L1, R0, R1 = sp.symbols("x0 x1 lb0 lb1 rb0 rb1", real=True)
    gm = cls.methods["get_bool_mask"]
    hooks = {"numeric_call_first": _first, cls.methods["get_bounds"].key: lambda tr, a, k, n: [(np.array([L0, L1], dtype=object), np.array([R0, R1], dtype=object))]}
    try:
        out = Translator(repo, hooks=hooks, max_depth=3).call_fn(gm, [np.array([[X0], [X1]], dtype=object)], self_obj=SelfObj(cls, {}))
        got = out[0] if isinstance(out, list) and len(out) == 1 else None
        got = got[0] if isinstance(got, np.ndarray) and got.shape == (1,) else got
        want = sp.And(X0 >= L0, X0 < R0, X1 >= L1, X1 < R1)
        ok = got is not None and sp.simplify(sp.Equivalent(sp.sympify(got), want)) is sp.true
        chk.oblige("B-sem", "get_bool_mask on one event / one bin: %s" % (got,), ok)
        decided.add(gm.key)
        if not ok:
            chk.violation("B-sem", gm.key, "mask", "the membership mask is %s; a partition needs AND over the coordinates of (x >= lower) & (x < upper): with another shape an event on a shared edge falls into two bins or into none" % (got,), file=AB, line=gm.lineno)
    except Unmodelled as e:
        chk.info("B-sem: get_bool_mask not interpretable: %s" % e)
    # ---- chain
    ss = cls.methods["single_split_bound"]
    LO, HI, DATA = sp.symbols("LO HI DATA", real=True)
    try:
        bad = []
        for n in range(1, 5):
            out = Translator(repo, hooks={"numeric_call_first": _first}, max_depth=3).call_fn(ss, [DATA, sp.Integer(n)], {"base_bound": (LO, HI)})
            pairs = [tuple(p) for p in out]
            if len(pairs) != n or any(len(p) != 2 for p in pairs):
                bad.append("n=%d: %d bins returned" % (n, len(pairs)))
                continue
            if sp.sympify(pairs[0][0]) != LO or sp.sympify(pairs[-1][1]) != HI:
                bad.append("n=%d: outer edges %s .. %s, expected LO .. HI" % (n, pairs[0][0], pairs[-1][1]))
            for k in range(n - 1):
                if sp.simplify(sp.sympify(pairs[k][1]) - sp.sympify(pairs[k + 1][0])) != 0:
                    bad.append("n=%d: upper bound of bin %d is %s but bin %d starts at %s" % (n, k, pairs[k][1], k + 1, pairs[k + 1][0]))
            qs = [sp.sympify(p[1]) for p in pairs[:-1]]
            want_q = [Q(sp.Rational(100 * j, n)) for j in range(1, n)]
            if any(not (q - w).is_number for q, w in zip(qs, want_q)):
                bad.append("n=%d: inner edges %s are not the j/n percentiles" % (n, qs))
        chk.oblige("B-sem", "single_split_bound(n = 1..4): n bins from LO to HI, consecutive bins share their edge, inner edges at the j/n percentiles", not bad)
        decided.add(ss.key)
        if bad:
            chk.violation("B-sem", ss.key, "chain", "; ".join(bad[:3]) + ": values between the mismatched edges belong to two bins or to none", file=AB, line=ss.lineno)
        # default base bound of the splitter and base_bound(): open side padded outwards
        out = Translator(repo, hooks={"numeric_call_first": _first}, max_depth=3).call_fn(ss, [DATA, sp.Integer(1)])
        lo, hi = out[0]
        MIN, MAX = sp.Symbol("MIN", real=True), sp.Symbol("MAX", real=True)
        ok = (sp.sympify(lo) - MIN).is_number and (sp.sympify(lo) - MIN) <= 0 and (sp.sympify(hi) - MAX).is_number and (sp.sympify(hi) - MAX) > 0
        chk.oblige("B-sem", "single_split_bound default base bound (%s, %s): lower <= min, upper > max" % (lo, hi), bool(ok))
        if not ok:
            chk.violation("B-sem", ss.key, "base-pad", "the default base bound (%s, %s) does not contain the largest event strictly inside the half-open upper side" % (lo, hi), file=AB, line=ss.lineno)
        bb = cls.methods["base_bound"]
        lo, hi = Translator(repo, hooks={"numeric_call_first": _first}, max_depth=3).call_fn(bb, [DATA])
        ok = (sp.sympify(lo) - MIN).is_number and (sp.sympify(lo) - MIN) <= 0 and (sp.sympify(hi) - MAX).is_number and (sp.sympify(hi) - MAX) > 0
        chk.oblige("B-sem", "base_bound = (%s, %s): lower <= min, upper > max" % (lo, hi), bool(ok))
        decided.add(bb.key)
        if not ok:
            chk.violation("B-sem", bb.key, "base-pad", "base_bound (%s, %s) does not pad the open upper side strictly outwards: the largest event is in no bin" % (lo, hi), file=AB, line=bb.lineno)
    except Unmodelled as e:
        chk.info("B-sem: single_split_bound / base_bound not interpretable: %s" % e)
    return decided
