"""C20 adaptive bins, decided by interpretation (B-sem).

  mask     AdaptiveBound.get_bool_mask, interpreted on one event with two coordinates and one bin [LB, RB): the mask is
           AND over the coordinates of (x_k >= lb_k) & (x_k < rb_k): half-open with the lower side closed, reduced with
           all() over the coordinate axis
  chain    single_split_bound(data, n, (LO, HI)) for n = 1..4 with np.percentile uninterpreted: n bins, the first starts
           at LO, the last ends at HI, and the upper bound of bin k is the very expression that is the lower bound of bin k+1
           -> together with the half-open masks every value in [LO, HI) lies in exactly one bin
  base     base_bound / the default of single_split_bound pad the open (upper) side strictly outwards, so that the
           largest event is inside its bin
Robust to how the code builds the list (append of pairs, edge list + zip), names the padding constant or nests the calls.
"""
import numpy as np
import sympy as sp

from ..model import AnalysisError
from ..sym import SelfObj, Translator, Unmodelled

AB = "tf_pwa/adaptive_bins.py"
Q = sp.Function("Q")


def _first(tr, d, args, kwargs, n):
    last = d.split(".")[-1]
    if last == "percentile":
        q = args[1] if len(args) > 1 else kwargs.get("q")
        if isinstance(q, (list, tuple, np.ndarray)):
            return np.array([Q(sp.nsimplify(sp.sympify(x))) for x in np.asarray(q, dtype=object).reshape(-1)], dtype=object)   # one edge per requested percentile
        return Q(sp.sympify(q))
    if last in ("min", "amin") and d.split(".")[0] in ("np", "numpy"):
        return sp.Symbol("MIN", real=True)
    if last in ("max", "amax") and d.split(".")[0] in ("np", "numpy"):
        return sp.Symbol("MAX", real=True)
    if last == "logical_and" and len(args) == 2:
        A, B = np.broadcast_arrays(np.asarray(args[0], dtype=object), np.asarray(args[1], dtype=object))
        out = np.empty(A.shape, dtype=object)
        for i in np.ndindex(A.shape):
            out[i] = sp.And(A[i], B[i])
        return out
    if last == "all" and d.split(".")[0] in ("np", "numpy"):
        a = np.asarray(args[0], dtype=object)
        ax = kwargs.get("axis", args[1] if len(args) > 1 else None)
        if ax is not None and int(ax) == 0 and a.ndim == 2:
            return np.array([sp.And(*list(a[:, j])) for j in range(a.shape[1])], dtype=object)
        return sp.And(*list(a.reshape(-1)))
    return NotImplemented


def check_bins_semantics(repo, chk):
    chk.rule("B-sem", "adaptive bins by interpretation: get_bool_mask = AND_k (x_k >= lb_k) & (x_k < rb_k); single_split_bound(n) returns n bins from LO to HI whose upper bound is the next lower bound (n = 1..4); data-derived base bounds pad the open side outwards")
    cls = repo.cls(AB + "::AdaptiveBound")
    decided = set()
    # ---- mask
    X0, X1, L0, L1, R0, R1 = sp.symbols("x0 x1 lb0 lb1 rb0 rb1", real=True)
    gm = cls.methods["get_bool_mask"]
    hooks = {"numeric_call_first": _first, cls.methods["get_bounds"].key: lambda tr, a, k, n: [(np.array([L0, L1], dtype=object), np.array([R0, R1], dtype=object))]}
    try:
        out = Translator(repo, hooks=hooks, max_depth=3).call_fn(gm, [np.array([[X0], [X1]], dtype=object)], self_obj=SelfObj(cls, {}))
        got = out[0] if isinstance(out, list) and len(out) == 1 else None
        got = got[0] if isinstance(got, np.ndarray) and got.shape == (1,) else got
        want = sp.And(X0 >= L0, X0 < R0, X1 >= L1, X1 < R1)
        ok = got is not None and sp.simplify(sp.Equivalent(sp.sympify(got), want)) is sp.true
        chk.oblige("B-sem", "get_bool_mask on one event / one bin: %s" % (got,), ok)
        decided.add(gm.key)
        if not ok:
            chk.violation("B-sem", gm.key, "mask", "the membership mask is %s; a partition needs AND over the coordinates of (x >= lower) & (x < upper): with another shape an event on a shared edge falls into two bins or into none" % (got,), file=AB, line=gm.lineno)
        # one binned variable plus an extra row (event weights carried along, as split_data(np.array([m, w])) does):
        # only the binned row decides the bin
        W0 = sp.Symbol("w0", real=True)
        hooks1 = {"numeric_call_first": _first, cls.methods["get_bounds"].key: lambda tr, a, k, n: [(np.array([L0], dtype=object), np.array([R0], dtype=object))]}
        out1 = Translator(repo, hooks=hooks1, max_depth=3).call_fn(gm, [np.array([[X0], [W0]], dtype=object)], self_obj=SelfObj(cls, {}))
        got1 = out1[0] if isinstance(out1, list) and len(out1) == 1 else None
        got1 = got1[0] if isinstance(got1, np.ndarray) and got1.shape == (1,) else got1
        want1 = sp.And(X0 >= L0, X0 < R0)
        ok1 = got1 is not None and sp.simplify(sp.Equivalent(sp.sympify(got1), want1)) is sp.true
        chk.oblige("B-sem", "get_bool_mask with one binned variable and an extra (weight) row: %s" % (got1,), ok1)
        if not ok1:
            chk.violation("B-sem", gm.key, "mask-extra-row", "with one binned variable and an extra row the membership mask is %s; only the binned variable may decide (expected %s): the weight row is compared with the bin edges too, so most events fall into no bin and the weight sums are not conserved" % (got1, want1), file=AB, line=gm.lineno)
    except Unmodelled as e:
        chk.info("B-sem: get_bool_mask not interpretable: %s" % e)
    # ---- chain
    ss = cls.methods["single_split_bound"]
    LO, HI, DATA = sp.symbols("LO HI DATA", real=True)
    try:
        bad = []
        for n in range(1, 5):
            out = Translator(repo, hooks={"numeric_call_first": _first}, max_depth=3).call_fn(ss, [DATA, sp.Integer(n)], {"base_bound": (LO, HI)})
            pairs = [tuple(p) for p in out]
            if len(pairs) != n or any(len(p) != 2 for p in pairs):
                bad.append("n=%d: %d bins returned" % (n, len(pairs)))
                continue
            if sp.sympify(pairs[0][0]) != LO or sp.sympify(pairs[-1][1]) != HI:
                bad.append("n=%d: outer edges %s .. %s, expected LO .. HI" % (n, pairs[0][0], pairs[-1][1]))
            for k in range(n - 1):
                if sp.simplify(sp.sympify(pairs[k][1]) - sp.sympify(pairs[k + 1][0])) != 0:
                    bad.append("n=%d: upper bound of bin %d is %s but bin %d starts at %s" % (n, k, pairs[k][1], k + 1, pairs[k + 1][0]))
            qs = [sp.sympify(p[1]) for p in pairs[:-1]]
            want_q = [Q(sp.Rational(100 * j, n)) for j in range(1, n)]
            if any(not (q - w).is_number for q, w in zip(qs, want_q)):
                bad.append("n=%d: inner edges %s are not the j/n percentiles" % (n, qs))
        chk.oblige("B-sem", "single_split_bound(n = 1..4): n bins from LO to HI, consecutive bins share their edge, inner edges at the j/n percentiles", not bad)
        decided.add(ss.key)
        if bad:
            chk.violation("B-sem", ss.key, "chain", "; ".join(bad[:3]) + ": values between the mismatched edges belong to two bins or to none", file=AB, line=ss.lineno)
        # default base bound of the splitter and base_bound(): open side padded outwards
        out = Translator(repo, hooks={"numeric_call_first": _first}, max_depth=3).call_fn(ss, [DATA, sp.Integer(1)])
        lo, hi = out[0]
        MIN, MAX = sp.Symbol("MIN", real=True), sp.Symbol("MAX", real=True)
        ok = (sp.sympify(lo) - MIN).is_number and (sp.sympify(lo) - MIN) <= 0 and (sp.sympify(hi) - MAX).is_number and (sp.sympify(hi) - MAX) > 0
        chk.oblige("B-sem", "single_split_bound default base bound (%s, %s): lower <= min, upper > max" % (lo, hi), bool(ok))
        if not ok:
            chk.violation("B-sem", ss.key, "base-pad", "the default base bound (%s, %s) does not contain the largest event strictly inside the half-open upper side" % (lo, hi), file=AB, line=ss.lineno)
        bb = cls.methods["base_bound"]
        lo, hi = Translator(repo, hooks={"numeric_call_first": _first}, max_depth=3).call_fn(bb, [DATA])
        ok = (sp.sympify(lo) - MIN).is_number and (sp.sympify(lo) - MIN) <= 0 and (sp.sympify(hi) - MAX).is_number and (sp.sympify(hi) - MAX) > 0
        chk.oblige("B-sem", "base_bound = (%s, %s): lower <= min, upper > max" % (lo, hi), bool(ok))
        decided.add(bb.key)
        if not ok:
            chk.violation("B-sem", bb.key, "base-pad", "base_bound (%s, %s) does not pad the open upper side strictly outwards: the largest event is in no bin" % (lo, hi), file=AB, line=bb.lineno)
    except Unmodelled as e:
        chk.info("B-sem: single_split_bound / base_bound not interpretable: %s" % e)
    # ---- axis-by-axis refinement: multi_split_bound interpreted on concrete events with the one-axis splitter replaced
    # by "cut the parent interval at its midpoint" (recording what it is given)
    ms = cls.methods.get("multi_split_bound")
    if ms is not None:
        R = sp.Rational
        pts = [(R(1), R(7)), (R(2), R(3)), (R(4), R(9)), (R(6), R(1)), (R(8), R(6)), (R(9), R(4)), (R(3), R(8)), (R(7), R(2)),
               (R(5), R(2)), (R(2), R(5)), (R(10, 3), R(5)), (R(20, 3), R(10, 3)), (R(0), R(0))]  # the last five sit on cut edges / the lower corner
        datas = np.array([[p_[0] for p_ in pts], [p_[1] for p_ in pts]], dtype=object)
        seen = []

        def splitter(tr, a, k, n):
            names = ss.all_param_names()
            b = dict(zip(names, a))
            b.update(k)
            d_, nb, base = b.get(names[0]), b.get(names[1]), b.get(names[2])
            lo_, hi_ = base
            seen.append((sorted(np.asarray(d_, dtype=object).reshape(-1).tolist()), sp.sympify(lo_), sp.sympify(hi_), int(nb)))
            cuts = [sp.sympify(lo_) + (sp.sympify(hi_) - sp.sympify(lo_)) * R(i, int(nb)) for i in range(int(nb) + 1)]
            return [(cuts[i], cuts[i + 1]) for i in range(int(nb))]

        def ref(points, box, sizes, axis=0):
            if axis == len(sizes):
                return [(box, points)]
            out = []
            lo_, hi_ = box[0][axis], box[1][axis]
            nb = sizes[axis]
            for i in range(nb):
                a_, b_ = lo_ + (hi_ - lo_) * R(i, nb), lo_ + (hi_ - lo_) * R(i + 1, nb)
                l2, r2 = list(box[0]), list(box[1])
                l2[axis], r2[axis] = a_, b_
                sub = [p_ for p_ in points if a_ <= p_[axis] < b_]
                out.append((((tuple(l2), tuple(r2)), sub), axis))
            # breadth-first like the code: all boxes of this axis first, then refine each in order
            res = []
            for (bx, sub), _ in out:
                res.extend(ref(sub, bx, sizes, axis + 1))
            return res

        for sizes in ([2, 2], [3, 2], [1, 3]):
            del seen[:]
            base = (np.array([R(0), R(0)], dtype=object), np.array([R(10), R(10)], dtype=object))
            try:
                out = Translator(repo, hooks={"numeric_call_first": _first, ss.key: splitter}, max_depth=3).call_fn(ms, [datas.copy(), [sp.Integer(x) for x in sizes]], {"base_bound": base})
            except Unmodelled as e:
                raise AnalysisError("AdaptiveBound.multi_split_bound cannot be interpreted: %s" % e)
            want = ref(list(pts), ((R(0), R(0)), (R(10), R(10))), sizes)
            # what the one-axis splitter must be given: for every box of level k, the coordinate k of the events in
            # that box and that box's own interval along axis k
            want_calls = []
            level = [(((R(0), R(0)), (R(10), R(10))), list(pts))]
            for axis_, nb_ in enumerate(sizes):
                nxt_ = []
                for bx_, sub_ in level:
                    want_calls.append((sorted(p_[axis_] for p_ in sub_), bx_[0][axis_], bx_[1][axis_], nb_))
                    nxt_.extend(ref(sub_, bx_, sizes[:axis_ + 1], axis_))
                level = nxt_
            why = None
            if sorted(seen, key=str) != sorted(want_calls, key=str):
                badc = [c for c in seen if c not in want_calls]
                why = "the one-axis splitter is not given each parent box's own events / interval along the current axis, e.g. %s" % (badc[:1] or seen[:1],)
            if why:
                pass
            elif not (isinstance(out, tuple) and len(out) == 2 and len(out[0]) == len(want) and len(out[1]) == len(want)):
                why = "returns %s boxes, expected %d" % (len(out[0]) if isinstance(out, tuple) and len(out) == 2 else "?", len(want))
            else:
                got = []
                for bx, dat in zip(out[0], out[1]):
                    l_, r_ = bx
                    dat = np.asarray(dat, dtype=object)
                    got.append(((tuple(sp.sympify(x) for x in np.asarray(l_, dtype=object).reshape(-1)), tuple(sp.sympify(x) for x in np.asarray(r_, dtype=object).reshape(-1))),
                                sorted(zip(dat[0].tolist(), dat[1].tolist())) if dat.ndim == 2 and dat.shape[0] == 2 else None))
                wantn = [(bx, sorted(sub)) for bx, sub in want]
                if sorted(got, key=str) != sorted(wantn, key=str):
                    bad = [g for g in got if g not in wantn]
                    why = "child boxes / their events differ from the axis-by-axis refinement, e.g. got %s" % (bad[:1] or got[:1],)
                elif any(len(set(id(x) for x in pair)) != 2 for pair in out[0]):
                    why = "a child box shares its corner arrays"
            chk.oblige("B-sem", "multi_split_bound(13 events, n=%s): every parent box is cut along the current axis within its own bounds, children keep the other axis and get exactly their events (%d splitter calls)" % (sizes, len(seen)), why is None)
            if why:
                chk.violation("B-sem", ms.key, "axis-split:%s" % "x".join(map(str, sizes)), "multi_split_bound(n=%s): %s" % (sizes, why), file=AB, line=ms.lineno)
        decided.add(ms.key)
        # nested split groups: loop_split_bound refines every box of the previous group within that box
        ls = cls.methods.get("loop_split_bound")
        if ls is not None:
            for groups in ([[2, 1], [1, 2]], [[2, 2], [3, 1]], [[1, 2]]):
                del seen[:]
                base = (np.array([R(0), R(0)], dtype=object), np.array([R(10), R(10)], dtype=object))
                try:
                    out = Translator(repo, hooks={"numeric_call_first": _first, ss.key: splitter}, max_depth=4).call_fn(ls, [datas.copy(), [[sp.Integer(x) for x in g] for g in groups]], {"base_bound": base})
                except Unmodelled as e:
                    raise AnalysisError("AdaptiveBound.loop_split_bound cannot be interpreted: %s" % e)
                level = [(((R(0), R(0)), (R(10), R(10))), list(pts))]
                for g in groups:
                    nxt_ = []
                    for bx_, sub_ in level:
                        nxt_.extend(ref(sub_, bx_, g))
                    level = nxt_
                wantn = [(bx, sorted(sub)) for bx, sub in level]
                why = None
                if not (isinstance(out, tuple) and len(out) == 2 and len(out[0]) == len(wantn) == len(out[1])):
                    why = "returns %s boxes, expected %d" % (len(out[0]) if isinstance(out, tuple) and len(out) == 2 else "?", len(wantn))
                else:
                    got = []
                    for bx, dat in zip(out[0], out[1]):
                        l_, r_ = bx
                        dat = np.asarray(dat, dtype=object)
                        got.append(((tuple(sp.sympify(x) for x in np.asarray(l_, dtype=object).reshape(-1)), tuple(sp.sympify(x) for x in np.asarray(r_, dtype=object).reshape(-1))),
                                    sorted(zip(dat[0].tolist(), dat[1].tolist())) if dat.ndim == 2 and dat.shape[0] == 2 else None))
                    if sorted(got, key=str) != sorted(wantn, key=str):
                        badb = [g_ for g_ in got if g_ not in wantn]
                        why = "the boxes are not the refinement of each previous box within that box (they overlap / leave gaps), e.g. got %s" % (badb[:1] or got[:1],)
                chk.oblige("B-sem", "loop_split_bound(13 events, n=%s): each group of splits refines every box of the previous group inside that box" % (groups,), why is None)
                if why:
                    chk.violation("B-sem", ls.key, "nested:%s" % "/".join("x".join(map(str, g)) for g in groups), "loop_split_bound(n=%s): %s" % (groups, why), file=AB, line=ls.lineno)
            decided.add(ls.key)
    return decided
