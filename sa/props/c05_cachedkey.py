"""C05 clause B-cachekey: a per-chain list that a preprocessor caches in the data dictionary is consumed chain by chain.

A preprocessor may store, under a key `cached_*` of the event dictionary, one entry per decay chain (computed once, for
the chain selection in force when the data were loaded).  An amplitude model that finds the key pairs those entries
with per-chain quantities computed now, for the *current* selection (`decay_group.chains_idx`).  The two lists pair the
same chains only if the cached list is indexed by the current selection.

  1. producers: functions that store data["cached_*"] = ...; a producer counts when it is reachable from the
     `__call__` its class resolves to (through self.m() / super().m() calls) - an unreachable one is dead code and so
     is the consumer branch that tests for the key (reported as INFO);
  2. consumers of a live key: functions that read data["<key>"] and hand it to zip(...) with another list.  Each is
     interpreted up to that zip with the chain selections [1], [2, 0] and [0, 1, 2]; the per-chain getters of the decay
     group are probes that follow `chains_idx`, the cached list holds one entry per chain (all three).  The zipped
     lists must name the same chains position by position."""
import ast

import sympy as sp

from ..model import AnalysisError, norm_text
from ..sym import SelfObj, Translator, Unmodelled

PER_CHAIN_GETTERS = ("get_m_dep", "get_factor_angle_amp", "get_angle_amp", "get_amp", "get_factor_m_dep", "get_factor")


def _const_key(node):
    return node.value if isinstance(node, ast.Constant) and isinstance(node.value, str) else None


def _own_walk(fn_node):
    todo = list(fn_node.body)
    while todo:
        n = todo.pop()
        yield n
        for c in ast.iter_child_nodes(n):
            if not isinstance(c, (ast.FunctionDef, ast.AsyncFunctionDef, ast.ClassDef, ast.Lambda)):
                todo.append(c)


def _reachable_from_call(cls):
    """method names reachable from the __call__ the class resolves to, through self.m(...) and super().m(...)"""
    def lookup(c, name, after=None):
        mro = list(c.mro)
        if after is not None and after in mro:
            mro = mro[mro.index(after) + 1:]
        for k in mro:
            if name in k.methods:
                return k.methods[name]
        return None

    start = lookup(cls, "__call__")
    if start is None:
        return set()
    seen, todo = {start.key}, [start]
    while todo:
        f = todo.pop()
        for c in _own_walk(f.node):
            if not (isinstance(c, ast.Call) and isinstance(c.func, ast.Attribute)):
                continue
            g = None
            if isinstance(c.func.value, ast.Name) and c.func.value.id == "self":
                g = lookup(cls, c.func.attr)
            elif isinstance(c.func.value, ast.Call) and isinstance(c.func.value.func, ast.Name) and c.func.value.func.id == "super":
                g = lookup(cls, c.func.attr, after=f.cls)
            if g is not None and g.key not in seen:
                seen.add(g.key)
                todo.append(g)
    return seen


def check_cached_key_pairing(repo, chk, rule="B-cachekey", only_key=None):
    chk.rule(rule, "a per-chain list cached by a preprocessor under data['cached_*'] (one entry per chain) is paired, in every amplitude model that consumes it through zip(...), with per-chain quantities of the same chains: consumers interpreted up to the zip with the selections [1], [2, 0], [0, 1, 2]; a key whose producer is not reachable from its preprocessor's __call__ is dead and reported as INFO")
    producers = {}
    for rel, m in sorted(repo.mods.items()):
        if "/tests/" in rel or not rel.startswith("tf_pwa/"):
            continue
        for f in m.funcs.values():
            for st in _own_walk(f.node):
                if isinstance(st, ast.Assign):
                    for t in st.targets:
                        if isinstance(t, ast.Subscript):
                            k = _const_key(t.slice)
                            if k and k.startswith("cached_"):
                                producers.setdefault(k, []).append(f)
    if not producers:
        raise AnalysisError("%s: no producer of a data['cached_*'] entry found (anchor vanished)" % rule)
    n_checked = 0
    for key, fs in sorted(producers.items()):
        if only_key is not None and key != only_key:
            continue
        live = []
        for f in fs:
            if f.cls is None:
                live.append(f)   # a plain function: assume callable
                continue
            users = [f.cls] + list(f.cls.all_subclasses())
            if any(f.key in _reachable_from_call(c) for c in users):
                live.append(f)
        consumers = []
        for rel, m in sorted(repo.mods.items()):
            if "/tests/" in rel or not rel.startswith("tf_pwa/"):
                continue
            for f in m.funcs.values():
                if f in fs:
                    continue
                reads = [n for n in _own_walk(f.node) if isinstance(n, ast.Subscript) and isinstance(n.ctx, ast.Load) and _const_key(n.slice) == key]
                if reads:
                    consumers.append(f)
        if not live:
            chk.instance(rule, "data['%s']: stored by %s, which its preprocessor's __call__ never reaches - the key is never present, %d consumer branch(es) dead" % (key, ", ".join(f.qual for f in fs), len(consumers)), nontrivial=False)
            continue
        for f in consumers:
            # loops of the consumer's body in which an entry of the cached list meets a per-chain quantity
            loops = [st for st in f.node.body if isinstance(st, ast.For)]
            if not loops:
                chk.instance(rule, "data['%s'] read by %s: no loop pairs it with another per-chain list" % (key, f.qual), nontrivial=False)
                continue
            bad = None
            n_chain = 3
            for sel in ([1], [2, 0], [0, 1, 2]):
                dgc = repo.cls("tf_pwa/amp/core.py::DecayGroup")
                dg = SelfObj(dgc, {"chains_idx": [sp.Integer(i) for i in sel]})

                def current():
                    return [int(i) for i in dg.attrs["chains_idx"]]

                def probe(tag, every=False):
                    return lambda tr_, a_, k_, n_: [(tag, i) for i in (range(n_chain) if every else current())]

                def set_used(tr_, a_, k_, n_):
                    v = [x for x in a_ if not isinstance(x, SelfObj)]
                    sel_ = v[0] if v else next(iter(k_.values()))
                    dg.attrs["chains_idx"] = [sp.Integer(int(i)) for i in sel_]
                    return None

                hooks = {"allow_attr_store": True, "enter_contextmanagers": True}
                for nm in PER_CHAIN_GETTERS:
                    for g in repo.func_by_name.get(nm, []):
                        if g.cls is not None and g.cls.name == "DecayGroup":
                            hooks[g.key] = probe(nm)
                for g in repo.func_by_name.get("set_used_chains", []):
                    if g.cls is not None and g.cls.name == "DecayGroup":
                        hooks[g.key] = set_used
                for g in repo.func_by_name.get("build_params_vector", []):
                    # one parameter vector per chain: of the selected chains if the helper goes through get_m_dep, of
                    # every chain if it iterates over the group itself
                    calls_m_dep = any(isinstance(c, ast.Call) and isinstance(c.func, ast.Attribute) and c.func.attr == "get_m_dep" for c in ast.walk(g.node))
                    p0 = g.node.args.args[0].arg if g.node.args.args else None
                    iterates = any(isinstance(c, (ast.For, ast.comprehension)) and isinstance(c.iter, ast.Name) and c.iter.id == p0 for c in ast.walk(g.node))
                    if calls_m_dep == iterates:
                        raise AnalysisError("%s: cannot tell whether it follows the chain selection (get_m_dep) or visits every chain" % g.key)
                    hooks[g.key] = probe("build_params_vector", every=iterates)
                for g in repo.func_by_name.get("data_shape", []):
                    hooks[g.key] = lambda tr_, a_, k_, n_: sp.Integer(9)
                attrs = {"decay_group": dg}
                if f.cls is not None and "get_cached_shape_idx" in f.cls.methods:
                    attrs["cached_shape_idx"] = [sp.Integer(0)]   # chain 0 has a fixed line shape
                so = SelfObj(f.cls, attrs) if f.cls is not None else None
                env = {"data": {key: tuple(("cached", k) for k in range(n_chain))}}
                if so is not None:
                    env["self"] = so
                tr = Translator(repo, hooks=hooks, max_depth=2)
                def probes_in(v, out):
                    if isinstance(v, tuple) and len(v) == 2 and isinstance(v[0], str) and isinstance(v[1], int):
                        out.append(v)
                    elif isinstance(v, (list, tuple)):
                        for x in v:
                            probes_in(x, out)

                met = 0
                try:
                    for st in f.node.body:
                        if st in loops:
                            # trace the loop: bind the target per item, run the simple bindings of the body (j = cached[idx]),
                            # and ask which chains' probes sit together in one iteration; tensor arithmetic is skipped
                            try:
                                items = tr._iterable(tr.eval(st.iter, env, f.mod, 0), st, 0)
                            except Unmodelled:
                                continue
                            for it_ in list(items):
                                loc = dict(env)
                                tr.assign(st.target, it_, loc, f.mod, 0)
                                names_t = {x.id for x in ast.walk(st.target) if isinstance(x, ast.Name)}
                                for b_ in st.body:
                                    if isinstance(b_, ast.Assign) and len(b_.targets) == 1 and isinstance(b_.targets[0], (ast.Name, ast.Tuple)):
                                        try:
                                            tr.exec_stmt(b_, loc, f.mod, 0)
                                            names_t |= {x.id for x in ast.walk(b_.targets[0]) if isinstance(x, ast.Name)}
                                        except Unmodelled:
                                            pass
                                found = []
                                for nm_ in sorted(names_t):
                                    probes_in(loc.get(nm_), found)
                                kinds = {t_ for t_, _ in found}
                                if "cached" in kinds and len(kinds) > 1:
                                    met += 1
                                    chains_ = {k_ for _, k_ in found}
                                    if len(chains_) > 1 and bad is None:
                                        bad = (st.lineno, "with chains_idx = %s one iteration of the loop at line %d brings together %s" % (sel, st.lineno, ", ".join("%s of chain %d" % (t_, k_) for t_, k_ in found)))
                            if st is loops[-1]:
                                break   # what follows works on the tensors of the loop results
                            continue
                        tr.exec_stmt(st, env, f.mod, 0)
                except Unmodelled as e:
                    raise AnalysisError("%s cannot be interpreted up to its loops over data['%s']: %s" % (f.qual, key, e))
                if met == 0:
                    raise AnalysisError("%s: no loop iteration was seen to bring an entry of data['%s'] together with a per-chain quantity (selection %s)" % (f.qual, key, sel))
            n_checked += 1
            chk.oblige(rule, "%s pairs data['%s'] with quantities of the same chains for 3 selections" % (f.qual, key), bad is None)
            if bad:
                line_, bad = bad
                chk.violation(rule, f.key, "pairing:%s" % key, "%s: %s - data['%s'] is produced by %s once for all chains, the partner list follows the current selection: after set_used_chains / partial sums / fit fractions the couplings of one chain are contracted with the cached part of another (the strategy no longer returns the eager density)" % (f.qual, bad, key, live[0].qual), file=f.mod.rel, line=line_)
    chk.instance(rule, "%d cached per-chain keys (%s), %d live consumers interpreted" % (len(producers), ", ".join(sorted(producers)), n_checked), nontrivial=False)


def check_cached_shape_selection(repo, chk, rule="K-idx"):
    """the chains whose line shape is frozen into the cached data are the configured ones - the empty list included"""
    from ..sym import PyFunc

    chk.rule(rule, "get_cached_shape_idx (every class that defines it) interpreted on three chains (chain 1 with a floating line shape): a configured selection - [0, 2], [2] and the EMPTY list `cache no line shape` - is returned as it is; only None selects the automatic choice (the used chains whose shapes are all fixed)")
    fns = [g for g in repo.func_by_name.get("get_cached_shape_idx", []) if g.cls is not None and "/tests/" not in g.mod.rel]
    if not fns:
        raise AnalysisError("anchor vanished: get_cached_shape_idx")
    for fn in fns:
        bad = None

        class _Tok(str):
            tok_attrs = None

        def chain(k):
            core = _Tok("core%d" % k)
            core.tok_attrs = {"is_fixed_shape": PyFunc(lambda k_=k: k_ != 1)}
            d = _Tok("decay%d" % k)
            d.tok_attrs = {"core": core}
            return [d]

        for conf, want in (([sp.Integer(0), sp.Integer(2)], [0, 2]), ([sp.Integer(2)], [2]), ([], []), (None, [0, 2])):
            dg = SelfObj(repo.cls("tf_pwa/amp/core.py::DecayGroup"), {"chains_idx": [sp.Integer(0), sp.Integer(1), sp.Integer(2)], "chains": [chain(0), chain(1), chain(2)]})
            so = SelfObj(fn.cls, {"cached_shape_idx": conf, "decay_group": dg})
            tr = Translator(repo, hooks={"allow_attr_store": True}, max_depth=2)
            try:
                got = tr.call_fn(fn, [], self_obj=so)
            except Unmodelled as e:
                raise AnalysisError("%s cannot be interpreted (configured %s): %s" % (fn.qual, conf, e))
            got_l = [int(x) for x in got] if isinstance(got, (list, tuple)) else got
            if got_l != want and bad is None:
                bad = "configured cached_shape_idx = %s gives %s, expected %s" % (conf, got_l, want)
        chk.oblige(rule, "%s returns the configured selection ([0, 2], [2], []) and the automatic one for None" % fn.qual, bad is None)
        if bad:
            chk.violation(rule, fn.key, "selection", "%s: %s - with `cached_shape_idx: []` (cache no line shape) the line shapes of the fixed-shape chains are frozen into the cached data all the same, and the cached evaluation no longer follows a later change of those masses / widths (it differs from eager evaluation)" % (fn.qual, bad), file=fn.mod.rel, line=fn.lineno)
    chk.require_count(rule, 1)
