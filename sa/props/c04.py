"""C04 - spinless cascades reproduce the closed-form Legendre x Breit-Wigner amplitude: convention clauses.

The property fixes the normalisation, sign and phase conventions of couplings, barrier factors, line shape and
angular functions by an end-to-end identity.  The end-to-end assembly (tensor contractions over helicities and
chains at run time) is NOT decided.  Decided are the conventions of every factor of the closed form, each an
exact identity on the code of the mechanism the property names:

  F-cg        HelicityDecay._get_cg_matrix[(l,s)][lambda_b][lambda_c] ==
              sqrt((2l+1)/(2ja+1)) <jb lb; jc -lc | s, lb-lc> <l 0; s, lb-lc | ja, lb-lc>
              (cg_coef kept uninterpreted, roles bound through its signature) on a grid of spins; for a spinless
              cascade (jb = jc = 0, l = ja = J, s = 0) the factor is <0 0;0 0|0 0><J 0;0 0|J 0> (both 1 by C12's table proof)
  F-barrier   with the default options the barrier part for orbital momentum l is q^l B'_l(q, q0, d) with
              B'_l^2 = |theta_l(i q0 d)|^2 / |theta_l(i q d)|^2  (l = 0..4; get_barrier_factor and get_barrier_factor2)
  F-decay     HelicityDecay.get_amp translated as a whole (couplings g symbolic, exact Clebsch-Gordan values):
              spin-0 parent -> R(J) + spinless:  amp[0][lambda][0] = delta_{lambda,0} (-1)^J g q^J B'_J(q, q0, d)
              R(J) -> two spinless:              amp[lambda][0][0] = g' p^J B'_J(p, p0, d) conj D^J_{lambda,0}(phi, theta, 0),
                                                 which is g' p^J B'_J P_J(cos theta) at lambda = 0            (J = 0..3)
              so the two vertices of a chain carry exactly the factors (-1)^J, q^J B_J(q), p^J B_J(p), P_J(cos theta) of the
              closed form; their contraction over lambda and the product with the propagator are not decided
  F-angular   d^J_00(theta) = P_J(cos theta) (J = 0..4) and the gathered D entry for lambda_b = lambda_c = 0 is
              conj D^J_{lambda_a,0}  (shared with C12: E6-wigner / E6-gather)
  F-lineshape BWR(m) = 1/(m0^2 - m^2 - i m0 Gamma(m)), Gamma = g0 (q/q0)^(2L+1) (m0/m) B'_L^2  (shared with C15: E6-bw)
"""
import ast

import numpy as np
import sympy as sp

from ..model import AnalysisError, norm_text
from ..sym import SelfObj, Translator, Unmodelled, equal

LEVEL = "proof"
CORE = "tf_pwa/amp/core.py"
HD = CORE + "::HelicityDecay."


def spins(j):
    return [-j + k for k in range(int(2 * j) + 1)]


def decay_momentum(repo, chk):
    """q0 / q of a vertex as the barrier factors receive them: HelicityDecay.get_relative_momentum(2) interpreted at
    concrete rational masses, above and below the threshold of the vertex"""
    CORE_ = "tf_pwa/amp/core.py"
    cls = repo.cls(CORE_ + "::HelicityDecay")
    chk.rule("Q-mom", "HelicityDecay.get_relative_momentum2 / get_relative_momentum interpreted at rational masses: |q|^2 = lambda(m0^2, m1^2, m2^2) / (4 m0^2) also for a nominal mass below m1 + m2 (analytic continuation: negative, not clamped to 0 - the Blatt-Weisskopf numerator of a sub-threshold resonance depends on it), and |q| = sqrt(|q|^2) above threshold")
    pm = cls.methods.get("_get_particle_mass")
    if pm is None:
        raise AnalysisError("anchor vanished: HelicityDecay._get_particle_mass")
    cases = [(sp.Integer(3), sp.Integer(1), sp.Integer(1)), (sp.Rational(3, 2), sp.Integer(1), sp.Integer(1)), (sp.Integer(5), sp.Integer(3), sp.Integer(1)), (sp.Rational(5, 2), sp.Integer(2), sp.Integer(1)), (sp.Integer(2), sp.Integer(1), sp.Integer(1))]
    for which in ("get_relative_momentum2", "get_relative_momentum"):
        fn = cls.methods.get(which)
        if fn is None:
            raise AnalysisError("anchor vanished: HelicityDecay.%s" % which)
        for m0, m1, m2 in cases:
            lam = (m0 ** 2 - (m1 + m2) ** 2) * (m0 ** 2 - (m1 - m2) ** 2) / (4 * m0 ** 2)
            if which == "get_relative_momentum" and lam < 0:
                continue   # |q| below threshold is clamped by convention (documented in get_relative_p)
            core, b, c = SelfObj(None, {"tag": "core"}), SelfObj(None, {"tag": "b"}), SelfObj(None, {"tag": "c"})
            masses = {id(core): m0, id(b): m1, id(c): m2}

            def mass_hook(tr, args, kwargs, node, _m=masses):
                b_ = Translator.bound_args(pm, args, kwargs)
                first = pm.all_param_names()[1] if pm.all_param_names()[0] == "self" else pm.all_param_names()[0]
                return _m[id(b_[first])]

            tr = Translator(repo, hooks={pm.key: mass_hook, "concrete_zeros": True}, max_depth=4)
            so = SelfObj(cls, {"core": core, "outs": [b, c], "below_threshold": False})
            try:
                out = tr.call_fn(fn, [{}, False], self_obj=so)
            except Unmodelled as e:
                raise AnalysisError("HelicityDecay.%s cannot be interpreted at masses (%s, %s, %s): %s" % (which, m0, m1, m2, e))
            want = lam if which.endswith("2") else sp.sqrt(lam)
            got = sp.simplify(sp.sympify(out))
            ok = sp.simplify(got - want) == 0
            chk.oblige("Q-mom", "%s at (m0, m1, m2) = (%s, %s, %s) == %s" % (which, m0, m1, m2, want), ok)
            if not ok:
                chk.violation("Q-mom", fn.key, "%s@%s-%s-%s" % (which, m0, m1, m2), "%s at (m0, m1, m2) = (%s, %s, %s) evaluates to %s, the two-body momentum%s is %s%s" % (which, m0, m1, m2, got, " squared" if which.endswith("2") else "", want, " (negative below threshold: a nominal mass outside the kinematic window must not be clamped)" if want.is_negative else ""), file=CORE_, line=fn.lineno)
    chk.require_count("Q-mom", 8)


def run(repo, chk, tier):
    from ..cacheown import check_persistent_state

    check_persistent_state(repo, chk, ["tf_pwa/amp/", "tf_pwa/particle.py", "tf_pwa/breit_wigner.py"])
    chk.trusted_base[:] = ["AST->sympy translator sa/sym.py", "sympy ring normaliser", "checker's reverse-Bessel reference (c15_kernels.ref_poly)", "checker's Wigner reference (cross-checked against sympy)"]
    chk.info("not decided: the end-to-end assembly of the amplitude (einsum over helicities, sum over chains), the sign (-1)^J that the angle conventions induce, identical-particle symmetrisation")
    # the couplings the model uses are the ones it was given (set_params -> set_all): a coupling of exactly 0 included (shared with C16)
    from .c16 import clause_setall

    clause_setall(repo, chk)
    # the helicity angle theta_k entering P_J(cos theta_k) is finite for every configuration (shared with C01)
    from .c01_domain import check_acos_domain

    check_acos_domain(repo, chk)
    cg_matrix(repo, chk)
    barrier(repo, chk)
    barrier_options(repo, chk)
    decay_momentum(repo, chk)
    decay_amplitudes(repo, chk)
    # the sum over chains pairs per-chain lists position by position (shared with C03)
    from .c03_order import check_selection_order

    check_selection_order(repo, chk)
    # theta_k of the closed form is the helicity angle after chained boosts; q0 / p0 of the barrier factors follow the
    # current resonance mass: frame typing of the chain boosts and soundness of memoisation
    from ..cacheown import check_memo_soundness
    from .c11_helicity import check_frame_typing

    check_frame_typing(repo, chk)
    check_memo_soundness(repo, chk)
    # "sum over chains": the per-chain / per-pair evaluations used for fit fractions select chains temporarily; the
    # full coherent sum is what the closed form describes, so the selection must be back afterwards (typestate of C17)
    from .c17 import SURFACE, surface_dirty

    scoped = [k for k in SURFACE if k.split("::")[1].split(".")[-1] in ("partial_weight", "partial_weight_interference") and "chains" in SURFACE[k][0]]
    chk.rule("E-chains", "the chain selection made by the partial-sum evaluations (partial_weight, partial_weight_interference) is undone on every exit from a snapshot that the selection itself does not mutate (typestate over the CFG, shared with C17): afterwards the density is again the coherent sum over all chains")
    dirty, nodes = surface_dirty(repo, scoped)
    for key in scoped:
        chk.oblige("E-chains", "%s: chain selection restored on all exits, snapshot not aliased by an in-place update" % key.split("::")[1], not [d for d in dirty if d[0] == key])
    for key, cell, exit_kind, has_restore, msg, path, line in dirty:
        chk.violation("E-chains", key, "%s@%s" % (cell, exit_kind), msg, file=key.split("::")[0], line=line, path=path)
    # angular and line-shape conventions: the obligations are those of C12 / C15, evaluated here for the spins the
    # closed form quantifies over (J, L = 0..4)
    from .c12_wigner import check_gather, check_wigner
    from .c15_kernels import check_kernels

    check_wigner(repo, chk, "quick")
    check_gather(repo, chk)
    check_kernels(repo, chk, "thorough" if tier == "thorough" else "quick")


def cg_matrix(repo, chk):
    chk.rule("F-cg", "_get_cg_matrix[(l,s)][lb][lc] == sqrt((2l+1)/(2ja+1)) <jb lb; jc -lc|s lb-lc> <l 0; s lb-lc|ja lb-lc> with cg_coef's arguments bound by role; on a grid of (ja, jb, jc) and all (l, s)")
    fn = repo.fn(HD + "_get_cg_matrix")
    cgf = repo.fn("tf_pwa/cg.py::cg_coef")
    if cgf.params != ["jb", "jc", "mb", "mc", "ja", "ma"]:
        raise AnalysisError("cg_coef parameters changed: %s" % cgf.params)
    CG = sp.Function("CG")  # CG(j1, m1, j2, m2, J, M)

    def cg_hook(tr, args, kwargs, n):
        vals = dict(zip(cgf.params, args))
        vals.update(kwargs)
        return CG(*[sp.sympify(vals[k]) for k in ("jb", "mb", "jc", "mc", "ja", "ma")])

    cls = repo.cls(CORE + "::HelicityDecay")
    half = sp.Rational(1, 2)
    grid = [(sp.Integer(0), sp.Integer(0), sp.Integer(0)), (sp.Integer(1), sp.Integer(0), sp.Integer(0)), (sp.Integer(2), sp.Integer(0), sp.Integer(0)),
            (sp.Integer(1), sp.Integer(1), sp.Integer(0)), (half, half, sp.Integer(1)), (sp.Integer(1), half, half), (3 * half, sp.Integer(1), half)]
    for ja, jb, jc in grid:
        ls = []
        s_ = abs(jb - jc)
        while s_ <= jb + jc:
            l_ = abs(ja - s_)
            while l_ <= ja + s_:
                if l_ == int(l_):
                    ls.append((sp.Integer(int(l_)), s_))
                l_ += 1
            s_ += 1
        hb, hc = spins(jb), spins(jc)
        hooks = {cgf.key: cg_hook, "concrete_zeros": True, "stack_as_array": True,
                 "builtin.isinstance": lambda tr, args, kwargs, n: isinstance(args[0], int) or bool(getattr(args[0], "is_Integer", False))}
        tr = Translator(repo, hooks=hooks, max_depth=5)
        so = SelfObj(cls, {"core": SelfObj(None, {"J": ja}), "helicity_inner_full": False,
                           "outs": [SelfObj(None, {"J": jb, "spins": list(hb)}), SelfObj(None, {"J": jc, "spins": list(hc)})]})
        try:
            out = tr.call_fn(fn, [tuple(ls)], self_obj=so)
        except Unmodelled as e:
            raise AnalysisError("_get_cg_matrix not translatable for (ja,jb,jc)=(%s,%s,%s): %s" % (ja, jb, jc, e))
        if getattr(out, "shape", None) != (len(ls), len(hb), len(hc)):
            raise AnalysisError("_get_cg_matrix returned shape %s, expected %s" % (getattr(out, "shape", None), (len(ls), len(hb), len(hc))))
        bad = []
        for i, (l, s) in enumerate(ls):
            for ib, lb in enumerate(hb):
                for ic, lc in enumerate(hc):
                    want = sp.sqrt(2 * l + 1) / sp.sqrt(2 * ja + 1) * CG(jb, lb, jc, -lc, s, lb - lc) * CG(l, 0, s, lb - lc, ja, lb - lc)
                    ok, detail = equal(sp.sympify(out[i][ib][ic]), want)
                    if ok is not True:
                        bad.append("(l,s)=(%s,%s), lambda=(%s,%s): code %s, documented %s" % (l, s, lb, lc, out[i][ib][ic], want))
        chk.oblige("F-cg", "(ja,jb,jc)=(%s,%s,%s): %d (l,s) x %d x %d entries equal the documented LS->helicity factor" % (ja, jb, jc, len(ls), len(hb), len(hc)), not bad)
        if bad:
            chk.violation("F-cg", fn.key, "ja=%s,jb=%s,jc=%s" % (ja, jb, jc), "%d entries deviate from sqrt((2l+1)/(2ja+1)) <jb lb;jc -lc|s d><l 0;s d|ja d>; first: %s" % (len(bad), bad[0]), file=CORE, line=fn.lineno)


def barrier(repo, chk):
    chk.rule("F-barrier", "default options: barrier part of orbital momentum l == q^l sqrt(|theta_l(i q0 d)|^2 / |theta_l(i q d)|^2) in get_barrier_factor (q) and get_barrier_factor2 (q^2), l = 0..4; the defaults of the option flags are the ones this identity assumes")
    from .c15_kernels import BWF, ref_poly

    cls = repo.cls(CORE + "::HelicityDecay")
    init = cls.methods["__init__"]
    defaults = {k: norm_text(v) for k, v in init.defaults().items()}
    want_defaults = {"has_barrier_factor": "True", "barrier_factor_mass": "False", "has_ql": "True", "has_bprime": "True", "barrier_factor_norm": "False", "force_min_l": "False", "no_q0": "False"}
    for k, v in want_defaults.items():
        ok = defaults.get(k) == v
        chk.oblige("F-barrier", "HelicityDecay option %s defaults to %s" % (k, v), ok)
        if not ok:
            chk.violation("F-barrier", init.key, "default:%s" % k, "option %s defaults to %s, the closed form assumes %s" % (k, defaults.get(k), v), file=CORE, line=init.lineno)
    q, q0, d, m = sp.symbols("q q0 d m", positive=True)

    def coeff_hook(tr, args, kwargs, n):
        L = int(args[0])
        zz = sp.Symbol("zz__")
        p = sp.Poly(ref_poly(L, zz), zz)
        return [p.coeff_monomial(zz ** (L - i)) for i in range(L + 1)]

    ls = [sp.Integer(k) for k in range(5)]
    attrs = {k: (v == "True") for k, v in want_defaults.items()}
    # the (l, s) list of a spinless cascade level: one orbital momentum per entry, s = 0 (get_l_list reads it)
    attrs["ls_list"] = tuple((l, sp.Integer(0)) for l in ls)
    for name, args in (("get_barrier_factor", [m, q, q0, d]), ("get_barrier_factor2", [m, q ** 2, q0 ** 2, d])):
        fn = cls.methods[name]
        hooks = {BWF + "get_bprime_coeff": coeff_hook, "stack_as_array": True, "concrete_zeros": True}
        tr = Translator(repo, hooks=hooks, max_depth=6)
        so = SelfObj(cls, dict(attrs))
        try:
            out = tr.call_fn(fn, args, self_obj=so)
        except Unmodelled as e:
            raise AnalysisError("%s not translatable with the default options: %s" % (name, e))
        flat = np.asarray(out, dtype=object).reshape(-1)
        if len(flat) != len(ls):
            raise AnalysisError("%s returned %d components for %d orbital momenta" % (name, len(flat), len(ls)))
        for l, got in zip(ls, flat):
            want2 = q ** (2 * l) * ref_poly(int(l), (q0 * d) ** 2) / ref_poly(int(l), (q * d) ** 2)
            ok, detail = equal(sp.sympify(got) ** 2, want2)
            if ok is None:
                raise AnalysisError("E6 normaliser too weak for %s, l=%s: %s" % (name, l, detail))
            pos = equal(sp.sympify(got).subs({q: 1, q0: 1, d: 1}), sp.Integer(1))[0] is True
            chk.oblige("F-barrier", "%s, l=%s: (barrier)^2 == q^(2l) |theta_l(i q0 d)|^2/|theta_l(i q d)|^2, and positive" % (name, l), ok and pos)
            if not (ok and pos):
                chk.violation("F-barrier", fn.key, "l=%s" % l, "barrier factor for l=%s is %s, the closed form requires q^l B'_l(q,q0,d): %s" % (l, got, detail), file=CORE, line=fn.lineno)


def barrier_options(repo, chk):
    """the option flags of get_barrier_factor2, one at a time (each flag's documented effect on q^l B'_l)"""
    from .c15_kernels import BWF, ref_poly
    chk.rule("F-baropt", "get_barrier_factor2 with one option flag changed at a time (l = 0..4) and with every combination of its six flags (l = 1, 2, 3): barrier_factor_norm divides by q0^l (so the factor is (q/q0)^l B'_l, equal to one at q = q0); has_ql=False drops q^l; has_bprime=False leaves q^l; barrier_factor_mass multiplies by m^-l; force_min_l uses the smallest l for every l-dependent piece (the normalisation included); no_q0 sets q0 = 1")
    cls = repo.cls(CORE + "::HelicityDecay")
    fn = cls.methods["get_barrier_factor2"]
    q, q0, d, m = sp.symbols("q q0 d m", positive=True)

    def coeff_hook(tr, args, kwargs, n):
        L = int(args[0])
        zz = sp.Symbol("zz__")
        p = sp.Poly(ref_poly(L, zz), zz)
        return [p.coeff_monomial(zz ** (L - i)) for i in range(L + 1)]

    ls = [sp.Integer(k) for k in range(5)]
    base = {"has_barrier_factor": True, "barrier_factor_mass": False, "has_ql": True, "has_bprime": True, "barrier_factor_norm": False, "force_min_l": False, "no_q0": False}

    def B2(l):
        return ref_poly(int(l), (q0 * d) ** 2) / ref_poly(int(l), (q * d) ** 2)

    import itertools

    flags = ("barrier_factor_norm", "has_ql", "has_bprime", "barrier_factor_mass", "force_min_l", "no_q0")
    n_comb = 0
    for l_list in ([sp.Integer(k) for k in range(5)], [sp.Integer(1), sp.Integer(2), sp.Integer(3)]):
        for combo in itertools.product((False, True), repeat=len(flags)):
            change = dict(zip(flags, combo))
            if l_list[0] == 0 and (change["force_min_l"] or sum(v != base[k] for k, v in change.items()) > 1):
                continue   # l = 0..4: one flag at a time (min l = 0 makes force_min_l trivial); l = 1..3: every combination
            label = ", ".join("%s=%s" % (k, v) for k, v in change.items() if v != base[k]) or "defaults"
            label += " (l = %s)" % ",".join(str(x) for x in l_list)
            q0e = sp.Integer(1) if change["no_q0"] else q0

            def want(l, _c=change, _ls=l_list, _q0=q0e):
                le = min(_ls) if _c["force_min_l"] else l
                v = sp.Integer(1)
                if _c["has_bprime"]:
                    v = v * ref_poly(int(le), (_q0 * d) ** 2) / ref_poly(int(le), (q * d) ** 2)
                    if _c["barrier_factor_norm"]:
                        v = v / _q0 ** (2 * le)
                if _c["has_ql"]:
                    v = v * q ** (2 * le)
                if _c["barrier_factor_mass"]:
                    v = v / m ** (2 * l)
                return v

            attrs = dict(base)
            attrs.update(change)
            attrs["ls_list"] = tuple((l, sp.Integer(0)) for l in l_list)
            tr = Translator(repo, hooks={BWF + "get_bprime_coeff": coeff_hook, "stack_as_array": True, "concrete_zeros": True}, max_depth=6)
            try:
                out = tr.call_fn(fn, [m, q ** 2, q0 ** 2, d], self_obj=SelfObj(cls, attrs))
            except Unmodelled as e:
                raise AnalysisError("get_barrier_factor2 not translatable with %s: %s" % (label, e))
            flat = np.asarray(out, dtype=object).reshape(-1)
            if len(flat) != len(l_list):
                raise AnalysisError("get_barrier_factor2 (%s) returned %d components for %d orbital momenta" % (label, len(flat), len(l_list)))
            bad = None
            for l, got in zip(l_list, flat):
                ok, detail = equal(sp.sympify(got) ** 2, want(l))
                if ok is None:
                    raise AnalysisError("E6 normaliser too weak for get_barrier_factor2 (%s), l=%s: %s" % (label, l, detail))
                if not ok and bad is None:
                    bad = (l, got, detail)
            n_comb += 1
            chk.oblige("F-baropt", "get_barrier_factor2 with %s" % label, bad is None)
            if bad:
                chk.violation("F-baropt", fn.key, "%s:l=%s" % (label, bad[0]), "with %s the factor for l=%s is %s, expected (squared) %s: %s" % (label, bad[0], bad[1], want(bad[0]), bad[2]), file=CORE, line=fn.lineno)
    if n_comb < 60:
        raise AnalysisError("F-baropt: only %d option combinations evaluated" % n_comb)


def decay_amplitudes(repo, chk):
    chk.rule("F-decay", "HelicityDecay.get_amp, translated as a whole with exact CG values: spin-0 parent -> R(J) + spinless gives delta_{lambda,0} (-1)^J g q^J B'_J(q); R(J) -> two spinless gives g' p^J B'_J(p) conj D^J_{lambda,0}(phi,theta,0) (= g' p^J B'_J P_J(cos theta) at lambda = 0); J = 0..3")
    from fractions import Fraction

    from ..sym import PyFunc
    from .c12 import cg_sq
    from .c12_wigner import wigner_d
    from .c15_kernels import BWF, ref_poly

    cls = repo.cls(CORE + "::HelicityDecay")
    fn = cls.methods["get_amp"]
    cgf = repo.fn("tf_pwa/cg.py::cg_coef")
    TH, AL = sp.symbols("TH AL", real=True)
    S, C = sp.symbols("S C", positive=True)
    q, q0, d, M = sp.symbols("q q0 d M", positive=True)

    def cg_hook(tr, args, kwargs, n):
        vals = dict(zip(cgf.params, args))
        vals.update(kwargs)
        j1, m1, j2, m2, J, Mz = [Fraction(str(sp.nsimplify(vals[k]))) for k in ("jb", "mb", "jc", "mc", "ja", "ma")]
        sign, sq = cg_sq(j1, m1, j2, m2, J, Mz)
        return sp.Integer(0) if sign == 0 else sign * sp.sqrt(sp.Rational(sq.numerator, sq.denominator))

    def trig(kind):
        def f(tr, a):
            if sp.simplify(a - TH / 2) == 0:
                return C if kind == "cos" else S
            return sp.cos(a) if kind == "cos" else sp.sin(a)
        return f

    def coeff_hook(tr, args, kwargs, n):
        L = int(args[0])
        zz = sp.Symbol("zz__")
        p = sp.Poly(ref_poly(L, zz), zz)
        return [p.coeff_monomial(zz ** (L - i)) for i in range(L + 1)]

    hooks = {
        cgf.key: cg_hook, "concrete_zeros": True, "stack_as_array": True, "unary:cos": trig("cos"), "unary:sin": trig("sin"),
        BWF + "get_bprime_coeff": coeff_hook, "allow_shape": True, "allow_attr_store": True,
        HD + "get_relative_momentum2": lambda tr, args, kwargs, n: (q ** 2 if (args[2] if len(args) > 2 else kwargs.get("from_data", False)) else q0 ** 2),
        "builtin.isinstance": lambda tr, args, kwargs, n: isinstance(args[0], int) or bool(getattr(args[0], "is_Integer", False)),
    }
    defaults = {"helicity_inner_full": False, "has_barrier_factor": True, "barrier_factor_mass": False, "has_ql": True, "has_bprime": True, "barrier_factor_norm": False,
                "force_min_l": False, "no_q0": False, "allow_cc": True, "aligned": False, "mask_factor": False, "ls_index": None, "d": d}
    g = sp.Symbol("g")
    zero = sp.Integer(0)

    def amp(ja, jb, jc, ls):
        core = SelfObj(None, {"J": ja, "spins": spins(ja)})
        b = SelfObj(None, {"J": jb, "spins": spins(jb)})
        c = SelfObj(None, {"J": jc, "spins": spins(jc)})
        attrs = dict(defaults)
        attrs.update({"core": core, "outs": [b, c], "ls_list": ls, "g_ls": PyFunc(lambda: [g])})
        tr = Translator(repo, hooks=hooks, max_depth=8)
        data = {b: {"ang": {"alpha": AL, "beta": TH, "gamma": zero}}}
        try:
            out = tr.call_fn(fn, [data, {core: {"m": M}}], self_obj=SelfObj(cls, attrs))
        except Unmodelled as e:
            raise AnalysisError("HelicityDecay.get_amp not translatable for (ja,jb,jc)=(%s,%s,%s): %s" % (ja, jb, jc, e))
        if getattr(out, "shape", None) != (1, len(spins(ja)), len(spins(jb)), len(spins(jc))):
            raise AnalysisError("get_amp returned shape %s" % (getattr(out, "shape", None),))
        return out

    def ob(text, a, b, construct):
        ok, detail = equal(sp.sympify(a), sp.sympify(b))
        if ok is None:
            raise AnalysisError("E6 normaliser too weak for %s: %s" % (text, detail))
        chk.oblige("F-decay", text, ok)
        if not ok:
            chk.violation("F-decay", fn.key, construct, "%s does not hold: code %s, closed form %s" % (text, a, b), file=CORE, line=fn.lineno)

    for J in range(0, 4):
        Ji = sp.Integer(J)
        bar = q ** J * sp.sqrt(ref_poly(J, (q0 * d) ** 2) / ref_poly(J, (q * d) ** 2))
        # (i) spin-0 parent -> R(J) + spinless
        out = amp(zero, Ji, zero, ((Ji, Ji),))
        for ib, lam in enumerate(spins(Ji)):
            want = (-1) ** J * g * bar if lam == 0 else zero
            ob("J=%d, parent(0) -> R(J) + spinless: amp[0][lambda=%s][0] == %s" % (J, lam, "(-1)^J g q^J B'_J(q)" if lam == 0 else "0"), out[0][0][ib][0], want, "top:J=%d:lambda=%s" % (J, lam))
        # (ii) R(J) -> two spinless
        out = amp(Ji, zero, zero, ((Ji, zero),))
        for ia, lam in enumerate(spins(Ji)):
            want = g * bar * sp.exp(sp.I * lam * AL) * wigner_d(2 * J, ia, J, C, S)
            ob("J=%d, R(J) -> two spinless: amp[lambda=%s][0][0] == g p^J B'_J(p) conj D^J_{lambda,0}(phi,theta,0)" % (J, lam), out[0][ia][0][0], want, "res:J=%d:lambda=%s" % (J, lam))
        x = sp.Symbol("x")
        leg = sp.legendre(J, x).subs(x, C ** 2 - S ** 2)
        got0 = sp.sympify(out[0][J][0][0])
        ok = sp.expand((got0 - g * bar * leg).subs(S, sp.sqrt(1 - C ** 2))) == 0 or equal(got0.subs(S, sp.sqrt(1 - C ** 2)), (g * bar * leg).subs(S, sp.sqrt(1 - C ** 2)))[0] is True
        chk.oblige("F-decay", "J=%d: the lambda = 0 amplitude of R(J) -> two spinless is g p^J B'_J(p) P_J(cos theta)" % J, ok)
        if not ok:
            chk.violation("F-decay", fn.key, "legendre:J=%d" % J, "lambda=0 amplitude %s is not g p^J B'_J P_J(cos theta)" % got0, file=CORE, line=fn.lineno)
