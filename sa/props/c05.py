"""C05 - every evaluation strategy returns the same density (structural clauses).

  (a) fallback discipline   every call of the library's own einsum
                            (tf_pwa.einsum.einsum) is the sole statement of a `try`
                            whose handler calls tf.einsum with the identical
                            expression and operand list ("may decline by raising,
                            in which case callers fall back")
  (b) registry integrity    within each strategy registry (amp_model, preprocessor,
                            nll_model, data_mode) a name is registered once; every
                            registered amplitude model's pdf reaches
                            DecayGroup.sum_amp / sum_with_polarization in the call
                            graph (helicity summation is shared, not re-implemented)
  (c) cache key agreement   the per-event cache keys an amplitude model's pdf reads
                            (cached_amp, cached_angle, p4) are written by a registered
                            preprocessor; amp-model names that need a cache have a
                            preprocessor of the same name
  (d) option parity of the direct-four-momentum strategy is decided under C02
That the contraction routine computes the right tensor for every expression it
accepts is a statement about all index programs x shapes: NOT decided.
"""
import ast

from ..model import AnalysisError, norm_text, walk_local, walk_stmt
from ..resolve import Resolver

REGISTRIES = {
    "register_amp_model": "tf_pwa/amp/amp.py",
    "register_preprocessor": "tf_pwa/amp/preprocess.py",
    "register_nll_model": "tf_pwa/model/model.py",
    "register_data_mode": "tf_pwa/config_loader/data.py",
}
SINKS = {"sum_amp", "sum_with_polarization", "sum_amp_polarization"}


def clause_a(repo, chk):
    chk.rule("A-fallback", "each call of tf_pwa.einsum.einsum is the only statement of a try-body whose handler evaluates tf.einsum on the same expression and operands")
    n = 0
    for rel, m in sorted(repo.mods.items()):
        if rel == "tf_pwa/einsum.py":
            continue
        imp = m.imports.get("einsum")
        if not imp or not imp[0].endswith("tf_pwa.einsum") and imp[0] != "tf_pwa.einsum":
            continue
        for f in m.funcs.values():
            calls = [c for c in walk_local(f.node) if isinstance(c, ast.Call) and isinstance(c.func, ast.Name) and c.func.id == "einsum"]
            if not calls:
                continue
            tries = [t for t in walk_local(f.node) if isinstance(t, ast.Try)]
            for c in calls:
                n += 1
                guard = None
                for t in tries:
                    if len(t.body) == 1 and any(x is c for x in ast.walk(t.body[0])):
                        guard = t
                ok = False
                why = "not guarded by a try whose body is just this call"
                if guard is not None:
                    why = "handler does not call tf.einsum with the same arguments"
                    for h in guard.handlers:
                        for x in ast.walk(h):
                            if isinstance(x, ast.Call) and norm_text(x.func) in ("tf.einsum", "tensorflow.einsum"):
                                same = [norm_text(a) for a in x.args] == [norm_text(a) for a in c.args] and not x.keywords and not c.keywords
                                # the results must land in the same variable
                                tgt_try = norm_text(guard.body[0].targets[0]) if isinstance(guard.body[0], ast.Assign) else None
                                hs = [s for s in h.body if isinstance(s, ast.Assign) and any(y is x for y in ast.walk(s))]
                                tgt_h = norm_text(hs[0].targets[0]) if hs else None
                                if same and tgt_try == tgt_h:
                                    ok = True
                        if any(isinstance(x, ast.Pass) for x in h.body) and len(h.body) == 1:
                            why = "handler swallows the failure without a fallback"
                chk.instance("A-fallback", "%s::%s `%s` guarded with identical tf.einsum fallback: %s" % (rel, f.qual, norm_text(c), ok))
                if not ok:
                    chk.violation("A-fallback", f.key, "einsum:%s" % norm_text(c), "custom einsum call `%s`: %s" % (norm_text(c), why), file=rel, line=c.lineno)
    chk.require_count("A-fallback", 1)
    # the custom routine itself signals refusal by raising, never by returning a sentinel
    ef = repo.fn("tf_pwa/einsum.py::einsum")
    rets = [r for r in walk_local(ef.node) if isinstance(r, ast.Return)]
    none_ret = [r for r in rets if r.value is None or (isinstance(r.value, ast.Constant) and r.value.value is None)]
    chk.instance("A-fallback", "tf_pwa.einsum.einsum never returns None/sentinel (%d returns)" % len(rets))
    if none_ret:
        chk.violation("A-fallback", ef.key, "sentinel", "the contraction routine returns None instead of raising when it declines", file="tf_pwa/einsum.py", line=none_ret[0].lineno)


def clause_a2(repo, chk):
    """index-order discipline inside the custom contraction (tf_pwa/einsum.py)"""
    import itertools

    from ..sym import Translator, Unmodelled
    from .c05_einsum import check_einsum_semantics

    # the contraction routine interpreted as a whole decides; the statement-level rules below then only inform
    check_einsum_semantics(repo, chk)
    einsum_decided = True

    chk.rule("A-order", "every sort of contraction indices by the planner's order uses a total key (order[x], x): the planner can assign equal order values (depending on set iteration order), and all sites must break the tie identically, otherwise operands are reshaped against a different index order than the product assumes")
    chk.rule("A-perm", "the permutation handed to tf.transpose brings an operand's index string into the sorted order: perm[k] = position in the operand of the k-th sorted index (decided for every permutation of 3 and 4 distinct indices)")
    m = repo.mod("tf_pwa/einsum.py")
    n = 0
    for f in m.funcs.values():
        for c in walk_local(f.node):
            if not (isinstance(c, ast.Call) and isinstance(c.func, ast.Name) and c.func.id == "sorted"):
                continue
            key = [k.value for k in c.keywords if k.arg == "key"]
            if not key:
                continue
            lam = key[0]
            if isinstance(lam, ast.Name):
                # key given through a local: a nested def with a single return, or a lambda bound to a name
                defs = [x for x in walk_local(f.node) if isinstance(x, ast.Assign) and isinstance(x.targets[0], ast.Name) and x.targets[0].id == lam.id and isinstance(x.value, ast.Lambda)]
                quals = f.qual.split(".")
                nested = [g for q, g in m.funcs.items() if any(q == ".".join(quals[:k]) + "." + lam.id for k in range(len(quals), 0, -1))]
                if defs:
                    lam = defs[-1].value
                elif nested and len(nested[0].node.body) >= 1 and isinstance(nested[0].node.body[-1], ast.Return) and all(isinstance(x, ast.Expr) for x in nested[0].node.body[:-1]):
                    lam = nested[0].node
                else:
                    continue
            if isinstance(lam, ast.Lambda):
                arg, body = lam.args.args[0].arg, lam.body
            elif isinstance(lam, ast.FunctionDef):
                arg, body = lam.args.args[0].arg, lam.body[-1].value
            else:
                continue
            uses_map = any(isinstance(x, ast.Subscript) and isinstance(x.slice, ast.Name) and x.slice.id == arg and norm_text(x.value) in ("order", "base_order") for x in ast.walk(body))
            if not uses_map:
                continue
            n += 1
            total = isinstance(body, ast.Tuple) and isinstance(body.elts[-1], ast.Name) and body.elts[-1].id == arg
            chk.instance("A-order", "%s: sorted(%s, key=lambda %s: %s) total order: %s" % (f.key, norm_text(c.args[0])[:40], arg, norm_text(body), total))
            if not total and not einsum_decided:
                chk.violation("A-order", f.key, "sort:%s" % norm_text(c.args[0])[:40], "`%s` orders contraction indices by the planner's order alone; equal order values (they occur, depending on PYTHONHASHSEED) are then resolved by the input order of this particular site, which differs between the common index order and the operands: the routine returns a wrong tensor instead of declining" % norm_text(c)[:90], file="tf_pwa/einsum.py", line=c.lineno)
    if n < 3:
        chk.info("A-order: %d sorts by the planner's order recognised in tf_pwa/einsum.py (the contraction is decided as a whole by E-einsum)" % n)
    # transposition convention
    f = repo.fn_opt("tf_pwa/einsum.py::tensor_einsum_reduce_sum.args_it")
    if f is None:
        chk.info("A-perm: helper args_it not found (the contraction is decided as a whole by E-einsum)")
        return
    trans = [x for x in walk_local(f.node) if isinstance(x, ast.Assign) and isinstance(x.targets[0], ast.Name) and x.targets[0].id == "trans"]
    tcall = [x for x in walk_local(f.node) if isinstance(x, ast.Call) and norm_text(x.func) == "tf.transpose"]
    perm_arg = None
    if tcall:
        perm_arg = tcall[0].args[1] if len(tcall[0].args) > 1 else next((k.value for k in tcall[0].keywords if k.arg == "perm"), None)
    if not trans or perm_arg is None or norm_text(perm_arg) != "trans":
        chk.info("A-perm: `trans = ...; tf.transpose(j, trans)` not found in args_it (the contraction is decided as a whole by E-einsum)")
        return
    tr = Translator(repo)
    bad = None
    cases = 0
    for size in (3, 4):
        letters = "abcd"[:size]
        for perm in itertools.permutations(letters):
            i_str = "".join(perm)
            srt = list(letters)
            try:
                val = tr.eval(trans[0].value, {"i": i_str, "sorted_idx": srt, "j": None}, f.mod, 0)
            except Unmodelled as e:
                raise AnalysisError("transposition expression not modelled: %s" % e)
            p_ = [int(v) for v in val]
            cases += 1
            # tf.transpose(a, perm): output axis k is input axis perm[k]
            out = [i_str[p_[k]] for k in range(size)] if sorted(p_) == list(range(size)) else None
            if out != srt and bad is None:
                bad = (i_str, p_, out)
    chk.instance("A-perm", "args_it: trans = %s reorders every operand into sorted index order (%d permutations of 3 and 4 indices): %s" % (norm_text(trans[0].value), cases, bad is None))
    if bad is not None:
        chk.violation("A-perm", f.key, "transpose-perm", "for operand indices %r the permutation %s gives axes %s instead of the sorted order: tf.transpose(a, perm) puts input axis perm[k] at output position k, so perm[k] must be the position of the k-th sorted index (the inverse permutation is only right for self-inverse reorderings)" % bad, file="tf_pwa/einsum.py", line=trans[0].lineno)


def registered(repo):
    """registry decorator name -> list of (name, Cls)"""
    out = {k: [] for k in REGISTRIES}
    for m in repo.mods.values():
        for c in m.all_classes:
            for d in c.decorators:
                if isinstance(d, ast.Call) and isinstance(d.func, ast.Name) and d.func.id in out:
                    nm = d.args[0].value if d.args and isinstance(d.args[0], ast.Constant) else c.name
                    out[d.func.id].append((nm, c))
    return out


def clause_b(repo, chk, res):
    chk.rule("B-registry", "a strategy name is registered once per registry; every registered amplitude model's pdf reaches the shared helicity summation")
    reg = registered(repo)
    for rname, items in reg.items():
        names = [n for n, _ in items]
        dup = sorted({n for n in names if names.count(n) > 1})
        chk.instance("B-registry", "%s: %d names %s" % (rname, len(names), sorted(names)))
        if len(names) < 2:
            raise AnalysisError("registry %s has only %d registrations" % (rname, len(names)))
        for d in dup:
            cl = [c for n, c in items if n == d]
            chk.violation("B-registry", cl[-1].key, "duplicate:%s:%s" % (rname, d), "strategy name %r is registered %d times in %s (%s): the later class silently replaces the earlier" % (d, len(cl), rname, ", ".join(c.key for c in cl)), file=cl[-1].mod.rel, line=cl[-1].node.lineno)
    # reachability of the shared summation
    callees = {}

    def reach(fn, seen):
        if fn in seen:
            return False
        seen.add(fn)
        for n in walk_local(fn.node):
            if isinstance(n, ast.Call):
                if isinstance(n.func, ast.Attribute) and n.func.attr in SINKS:
                    return True
                cands, how = res.resolve_call(fn, n)
                if how == "byname":
                    continue
                for g in cands:
                    if g.name in SINKS or reach(g, seen):
                        return True
        return False

    for nm, c in reg["register_amp_model"]:
        pdf = c.lookup("pdf")
        if pdf is None:
            raise AnalysisError("amplitude model %s has no pdf" % c.key)
        ok = reach(pdf, set())
        chk.instance("B-registry", "amp_model %r (%s): pdf=%s reaches sum_amp/sum_with_polarization: %s" % (nm, c.name, pdf.key.split("::")[1], ok))
        if not ok:
            chk.violation("B-registry", pdf.key, "no-shared-sum", "pdf of amplitude model %r never reaches DecayGroup.sum_amp / sum_with_polarization: the helicity/polarisation sum is re-implemented or missing" % nm, file=c.mod.rel, line=pdf.lineno)


CACHE_KEYS = {"cached_amp", "cached_angle", "p4"}
# keys every angle computation provides (cal_angle_from_momentum output) - not cache keys
STANDARD_KEYS = {"particle", "decay", "weight", "mass", "extra"}


def clause_c(repo, chk):
    chk.rule("C-cache", "cache keys read by an amplitude model's pdf are written by a registered preprocessor; cache-consuming strategies have a preprocessor of the same name")
    reg = registered(repo)
    written = {}
    for nm, c in reg["register_preprocessor"]:
        keys = set()
        for k in c.mro:
            for f in k.methods.values():
                for n in walk_local(f.node):
                    if isinstance(n, ast.Subscript) and isinstance(n.ctx, ast.Store) and isinstance(n.slice, ast.Constant) and isinstance(n.slice.value, str):
                        keys.add(n.slice.value)
                    if isinstance(n, ast.Dict):
                        for kk in n.keys:
                            if isinstance(kk, ast.Constant) and isinstance(kk.value, str) and isinstance(getattr(n, "ctx", None), type(None)):
                                pass
                    if isinstance(n, ast.Return) and n.value is not None:
                        rv = n.value
                        if isinstance(rv, ast.Name):
                            ds = [x.value for x in walk_local(f.node) if isinstance(x, ast.Assign) and isinstance(x.targets[0], ast.Name) and x.targets[0].id == rv.id]
                            rv = ds[-1] if ds else rv
                        if isinstance(rv, ast.Dict):
                            for kk in rv.keys:
                                if isinstance(kk, ast.Constant) and isinstance(kk.value, str):
                                    keys.add(kk.value)
                        elif isinstance(rv, ast.Call) and isinstance(rv.func, ast.Name) and rv.func.id == "dict":
                            for kw in rv.keywords:
                                if kw.arg:
                                    keys.add(kw.arg)
        written[nm] = keys
    allw = set().union(*written.values()) if written else set()
    pre_names = set(written)
    for nm, c in reg["register_amp_model"]:
        read = set()
        for mname in ("pdf", "get_amp_list", "get_amp_list_part", "cal_angle"):
            f = c.lookup(mname)
            if f is None:
                continue
            for n in walk_local(f.node):
                if isinstance(n, ast.Subscript) and isinstance(n.ctx, ast.Load) and isinstance(n.slice, ast.Constant) and n.slice.value in CACHE_KEYS and norm_text(n.value) in ("data", "x"):
                    read.add(n.slice.value)
                if isinstance(n, ast.Compare) and isinstance(n.left, ast.Constant) and n.left.value in CACHE_KEYS:
                    pass
        hard = {k for k in read}
        ok = hard <= allw
        chk.instance("C-cache", "amp_model %r reads cache keys %s; written by preprocessors %s" % (nm, sorted(read), sorted(k for k in allw if k in CACHE_KEYS)))
        if not ok:
            chk.violation("C-cache", c.key, "key:%s" % ",".join(sorted(hard - allw)), "amplitude model %r reads event key(s) %s that no registered preprocessor writes" % (nm, sorted(hard - allw)), file=c.mod.rel, line=c.node.lineno)
        # a model that *requires* a cache key (unconditional read in pdf) must have a same-named preprocessor writing it
        pdf = c.methods.get("pdf")
        if pdf is not None:
            uncond = set()
            for st in pdf.node.body:
                for n in ast.walk(st) if not isinstance(st, (ast.If, ast.For, ast.While, ast.Try)) else []:
                    if isinstance(n, ast.Subscript) and isinstance(n.ctx, ast.Load) and isinstance(n.slice, ast.Constant) and isinstance(n.slice.value, str) and n.slice.value not in STANDARD_KEYS and norm_text(n.value) == "data":
                        uncond.add(n.slice.value)
            for k in sorted(uncond):
                ok2 = nm in pre_names and k in written[nm]
                chk.instance("C-cache", "amp_model %r requires data[%r]; preprocessor %r writes it: %s" % (nm, k, nm, ok2))
                if not ok2:
                    chk.violation("C-cache", c.key, "pair:%s" % k, "amplitude model %r needs data[%r] but the preprocessor registered under the same name %s" % (nm, k, "does not write it" if nm in pre_names else "does not exist"), file=c.mod.rel, line=c.node.lineno)
    chk.require_count("C-cache", 5)


WRAP = "tf_pwa/experimental/wrap_function.py"


def clause_d(repo, chk):
    """the graph-compiled wrapper binds the flattened tensors of every later call positionally to the structure
    recorded at the first call: the traversals must visit dict entries in an order that does not depend on the
    insertion order of the caller's dicts"""
    chk.rule("D-canon", "wrap_function: _flatten visits dict entries in sorted key order, and the recorded structure is traversed in that same order (_wrap_struct builds it sorted, or _nest sorts): positional binding of tensors to keys is independent of dict insertion order")

    def dict_branch_order(key):
        fn = repo.fn(key)
        arg = fn.node.args.args[0].arg
        for n in walk_local(fn.node):
            if isinstance(n, ast.If) and norm_text(n.test).replace(" ", "") in ("isinstance(%s,dict)" % arg,):
                srcs = []
                for st in n.body:
                    for x in ast.walk(st):
                        if isinstance(x, ast.For):
                            srcs.append(x.iter)
                        elif isinstance(x, ast.comprehension):
                            srcs.append(x.iter)
                if len(srcs) != 1:
                    raise AnalysisError("%s: dict branch has %d iteration sources, one expected" % (key, len(srcs)))
                it = srcs[0]
                if isinstance(it, ast.Name):
                    # keys = sorted(dic.keys()) one statement earlier in the branch
                    ds = [x.value for st2 in n.body for x in ast.walk(st2) if isinstance(x, ast.Assign) and isinstance(x.targets[0], ast.Name) and x.targets[0].id == it.id]
                    if len(ds) == 1:
                        it = ds[0]
                t = norm_text(it).replace(" ", "")
                if isinstance(it, ast.Call) and norm_text(it.func) == "sorted" and len(it.args) == 1 and not it.keywords and norm_text(it.args[0]).replace(" ", "") in (arg, arg + ".keys()", arg + ".items()"):
                    return fn, n, "sorted", t
                if t in (arg, arg + ".keys()", arg + ".items()", arg + ".values()"):
                    return fn, n, "insertion", t
                raise AnalysisError("%s: dict branch iterates over `%s`: neither sorted(...) of the dict nor the dict itself" % (key, t))
        raise AnalysisError("%s: branch `isinstance(%s, dict)` not found" % (key, arg))

    fl = dict_branch_order(WRAP + "::_flatten")
    ws = dict_branch_order(WRAP + "::_wrap_struct")
    ne = dict_branch_order(WRAP + "::_nest")
    for fn, n, kind, t in (fl, ws, ne):
        chk.instance("D-canon", "%s: dict entries visited in %s order (`%s`)" % (fn.qual, kind, t))
    if fl[2] != "sorted":
        chk.violation("D-canon", fl[0].key, "flatten-order", "_flatten visits dict entries in insertion order (`%s`): a later data set whose dicts were filled in another order binds same-shaped tensors to the wrong keys of the recorded structure" % fl[3], file=WRAP, line=fl[1].lineno)
    if ws[2] != "sorted" and ne[2] != "sorted":
        chk.violation("D-canon", ws[0].key, "struct-order", "the recorded structure keeps the insertion order of the first call's dicts (`%s`) and _nest follows it (`%s`), while tensors are flattened in sorted key order" % (ws[3], ne[3]), file=WRAP, line=ws[1].lineno)
    # WrapFun.__call__ uses exactly these helpers
    call = repo.fn(WRAP + "::WrapFun.__call__")
    used = {norm_text(x.func) for x in ast.walk(call.node) if isinstance(x, ast.Call)}
    ok = {"_flatten", "_wrap_struct", "_nest"} <= used
    chk.instance("D-canon", "WrapFun.__call__ flattens with _flatten, records with _wrap_struct, rebuilds with _nest: %s" % ok)
    if not ok:
        raise AnalysisError("WrapFun.__call__ no longer uses _flatten/_wrap_struct/_nest (%s)" % sorted(used))
    chk.require_count("D-canon", 4)


SCOPED = (
    "tf_pwa/amp/amp.py::BaseAmplitudeModel.temp_total_gls_one",  # cached_shape: couplings masked to 1 while the shape part is built
    "tf_pwa/amp/amp.py::CachedShapeAmplitudeModel.pdf",  # cached_shape: chain selection narrowed per chain
)


def clause_e(repo, chk):
    """the cached-shape strategy evaluates parts of the model under a scoped change of model state (coupling masks,
    chain selection); the state must be back on every exit, otherwise this strategy (and every later evaluation)
    differs from eager evaluation"""
    from .c17 import surface_dirty

    chk.rule("E-scope", "the scoped state changes the cached-shape strategy relies on (temp_total_gls_one: mask_factor flags; CachedShapeAmplitudeModel.pdf: chain selection) are undone on every exit, each cell from a snapshot taken before it was written (typestate over the CFG, shared with C17)")
    dirty, nodes = surface_dirty(repo, SCOPED)
    for key in SCOPED:
        mine = [d for d in dirty if d[0] == key]
        chk.oblige("E-scope", "%s: state cells restored on all exits" % key.split("::")[1], not mine)
    for key, cell, exit_kind, has_restore, msg, path, line in dirty:
        chk.violation("E-scope", key, "%s@%s" % (cell, exit_kind), msg, file=key.split("::")[0], line=line, path=path)
    chk.info("E-scope: %d CFG nodes analysed" % nodes)


def run(repo, chk, tier):
    res = Resolver(repo)
    chk.info("not decided: correctness of the custom contraction for every index expression x shape; graph/XLA compilation; numerical equality of strategies")
    clause_a(repo, chk)
    clause_a2(repo, chk)
    clause_b(repo, chk, res)
    clause_c(repo, chk)
    clause_d(repo, chk)
    clause_e(repo, chk)
    # a memoised value that depends on model state makes the cached strategy differ from eager evaluation after an update
    from ..cacheown import check_memo_soundness

    check_memo_soundness(repo, chk)
    # lazily batched data are one of the strategies: a copy of a lazy sample (data_replace) must not write through
    from .c18_copy import check_copy_isolation

    check_copy_isolation(repo, chk)
    from .c18_copy import check_merge_identity

    check_merge_identity(repo, chk)
    # pre-cached per-chain parts are one of the strategies: they must meet the per-chain quantities of the same chains
    from .c05_cachedkey import check_cached_key_pairing, check_cached_shape_selection

    check_cached_key_pairing(repo, chk)
    check_cached_shape_selection(repo, chk)
    from .c03_order import check_selection_order

    check_selection_order(repo, chk)
