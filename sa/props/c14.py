"""C14 - decay topologies are enumerated and identified correctly.

Everything here is decided by interpreting the repository's functions (their AST, never the imported module) in the
checker's evaluator on *tokens*: a particle is a string token that carries a `name`, a decay is a tuple token
(core, sorted daughters) that carries `core` / `outs`.  The functions under analysis touch particles only through
equality, ordering, hashing and `str()`, so a run on tokens is a run on every assignment of real particles with the
same names; the worlds below are all trees with n leaves for the n covered, not a sample of them.

  G-step    _Chain_Graph.add_node(e, d): the edge e = (a, b) is replaced by (a, v), (v, b), (v, d) with a fresh inner
            node v; every other edge is untouched; |edges| grows by exactly 2
  G-copy    _Chain_Graph.copy(): adding a node to the copy leaves the original's edges / nodes / counter unchanged
  G-enum    DecayChain.from_particles(top, finals) for n = 2..6 (7 in the thorough tier): (2n-3)!! chains, each a binary
            tree whose leaves are exactly the finals (every inner particle produced once and decaying once, top decaying
            once), pairwise different as sets of final-state groupings.  With G-step / G-copy and the recursion visiting
            every edge of every graph once this is the induction step of the counting law: a tree with k leaves has 2k-3
            edges below the top edge ... the checker states the lemma, and decides its instances up to the n covered
  G-table   sorted_table(): for every particle the sorted list of final-state particles below it (top: all finals,
            a final: itself), for the decays listed in either order
  G-round   from_sorted_table(sorted_table(chain)) has the decays of chain (the table and the chain determine each other)
  G-same    topology_same(a, b, identical) == (the sets of groupings coincide) for all pairs of a world with renamed
            intermediate states, compared by particle (identical=False) and by name (identical=True, identical-particle
            names B:1, B:2)
  G-map     topology_map(a, b) for chains of the same topology maps every particle and every decay of a to b such that
            the image of a decay is the decay of the images (mother-daughter relation preserved); standard_topology
            renames inner particles only and keeps the topology
  M-sound   the memoised helpers (sorted_table, get_id, topology_id ...) are memoised soundly: an argument-blind
            simple_cache_fun only on functions of self alone, no memoised function reads a state cell
  G-class   DecayGroup.topology_structure / get_chains_map: every chain of a group lies in exactly one class
"""
import ast
import itertools

from ..model import AnalysisError
from ..sym import Raised, SelfObj, Translator, Unmodelled

PART = "tf_pwa/particle.py"


class TokP(str):
    """particle token: prints / hashes as its full name "name[:id]", .name is the part before the id, and - like
    BaseParticle, whose own comparison methods are decided by the clause G-order - it is ordered by (name, id)"""

    @property
    def tok_attrs(self):
        base, pid = self._key()
        return {"name": base, "_name": base, "_id": pid, "disable": True}

    def _key(self):
        parts = str(self).split(":")
        if len(parts) > 1 and parts[-1].lstrip("-").isdigit():
            return ":".join(parts[:-1]), int(parts[-1])
        return str(self), 0

    def __lt__(self, other):
        return self._key() < other._key() if isinstance(other, TokP) else str.__lt__(self, other)

    def __gt__(self, other):
        return self._key() > other._key() if isinstance(other, TokP) else str.__gt__(self, other)

    def __le__(self, other):
        return self._key() <= other._key() if isinstance(other, TokP) else str.__le__(self, other)

    def __ge__(self, other):
        return self._key() >= other._key() if isinstance(other, TokP) else str.__ge__(self, other)

    __hash__ = str.__hash__


class TokD(tuple):
    """decay token: identity (core, sorted daughters) as BaseDecay.get_id; .outs keeps the declared order"""

    def __new__(cls, core, outs):
        self = tuple.__new__(cls, (core, tuple(sorted(outs))))
        self._outs = tuple(outs)
        return self

    @property
    def tok_attrs(self):
        return {"core": self[0], "outs": self._outs, "disable": True}

    def __repr__(self):
        return "%s->%s" % (self[0], "+".join(self._outs))


def _dfact(n):
    r = 1
    for k in range(2 * n - 3, 1, -2):
        r *= k
    return r


# ------------------------------------------------------------------ reference (checker's own)
def below(decays, finals):
    """{particle: frozenset of finals below it} for a list of TokD"""
    out = {f: frozenset([f]) for f in finals}
    todo = list(decays)
    for _ in range(len(decays) + 1):
        rest = []
        for d in todo:
            if all(x in out for x in d._outs):
                out[d[0]] = frozenset().union(*[out[x] for x in d._outs])
            else:
                rest.append(d)
        todo = rest
    if todo:
        return None
    return out


def tree_problems(decays, top, finals):
    """why the decays are not a binary tree over exactly the finals (None if they are)"""
    cores = [d[0] for d in decays]
    outs = [x for d in decays for x in d._outs]
    if any(len(d._outs) != 2 for d in decays):
        return "a decay without exactly two daughters: %s" % (decays,)
    if len(set(cores)) != len(cores):
        return "a particle decays twice: %s" % (decays,)
    if len(set(outs)) != len(outs):
        return "a particle is produced twice: %s" % (decays,)
    if top not in cores or top in outs:
        return "the top particle is not the root: %s" % (decays,)
    leaves = [x for x in outs if x not in cores]
    if sorted(leaves) != sorted(finals):
        return "the leaves %s are not the final-state particles %s" % (sorted(leaves), sorted(finals))
    if sorted(c for c in cores if c != top) != sorted(x for x in outs if x in cores):
        return "an inner particle is not produced exactly once: %s" % (decays,)
    b = below(decays, finals)
    if b is None or b.get(top) != frozenset(finals):
        return "the decays are not connected to the top: %s" % (decays,)
    return None


def groupings(decays, finals, by_name=False):
    b = below(decays, finals)
    key = (lambda x: x.split(":")[0]) if by_name else (lambda x: x)
    return sorted(sorted(key(x) for x in v) for v in b.values())


# ------------------------------------------------------------------ evaluator set-up
def make_tr(repo, depth=12, extra=None):
    pc, dc = repo.cls(PART + "::BaseParticle"), repo.cls(PART + "::BaseDecay")
    hooks = {
        pc.key: lambda tr, a, k, n: TokP(a[0] if a else k["name"]),
        dc.key: lambda tr, a, k, n: TokD(a[0] if a else k["core"], list(a[1] if len(a) > 1 else k["outs"])),
        "construct": {PART + "::DecayChain", PART + "::_Chain_Graph", PART + "::DecayGroup"},
        "allow_attr_store": True,
        "allow_raise": True,
        "builtin.isinstance": _isinstance,
    }
    hooks.update(extra or {})
    return Translator(repo, hooks=hooks, max_depth=depth)


def _isinstance(tr, args, kwargs, n):
    names = [ast.unparse(e) for e in (n.args[1].elts if isinstance(n.args[1], ast.Tuple) else [n.args[1]])]
    v = args[0]
    for nm in names:
        if nm == "DecayChain" and isinstance(v, SelfObj) and v.cls is not None and v.cls.name == "DecayChain":
            return True
        if nm == "BaseParticle" and isinstance(v, TokP):
            return True
        if nm == "BaseDecay" and isinstance(v, TokD):
            return True
        if nm == "int" and isinstance(v, int) and not isinstance(v, bool):
            return True
        if nm == "str" and isinstance(v, str) and not isinstance(v, TokP):
            return True
        if nm in ("list", "tuple", "dict") and type(v).__name__ == nm:
            return True
    return False


def chain_obj(repo, tr, decays):
    return tr.apply(repo.cls(PART + "::DecayChain"), [list(decays)], {}, None, 0)


def decays_of(chain):
    if not (isinstance(chain, SelfObj) and isinstance(chain.attrs.get("chain"), list) and all(isinstance(d, TokD) for d in chain.attrs["chain"])):
        raise AnalysisError("a DecayChain built in the abstract run does not hold a list of decays: %r" % (chain,))
    return list(chain.attrs["chain"])


# ------------------------------------------------------------------ clauses
def check_order(repo, chk):
    """BaseParticle's own comparison methods, on which every sorted() of particles relies"""
    chk.rule("G-order", "BaseParticle.__lt__ / __eq__ / __hash__ interpreted on particles (name, id): ordering, equality and hash follow the pair (name, id) - so that names that extend one another (pi, pi+, pi:1) sort name first, id second, and a grouping's sorted list of particles is also sorted by name")
    pc = repo.cls(PART + "::BaseParticle")
    from ..sym import SelfObj as _SO
    samples = [("pi", 0), ("pi", 1), ("pi+", 0), ("K", 0), ("K", 2), ("D0", 0), ("D", 1)]
    objs = [_SO(pc, {"_name": n_, "_id": i_, "name": n_}) for n_, i_ in samples]
    tr = Translator(repo, hooks={"builtin.isinstance": lambda tr_, a_, k_, n_: isinstance(a_[0], _SO)}, max_depth=2)
    bad = None
    for m_, ref in (("__lt__", lambda a, b: a < b), ("__eq__", lambda a, b: a == b)):
        fn = pc.lookup(m_)
        if fn is None:
            raise AnalysisError("anchor vanished: BaseParticle.%s" % m_)
        for i, a in enumerate(objs):
            for j, b in enumerate(objs):
                try:
                    got = tr.call_fn(fn, [b], {}, self_obj=a)
                except Unmodelled as ex:
                    raise AnalysisError("BaseParticle.%s cannot be interpreted: %s" % (m_, ex))
                if bool(got) != ref(samples[i], samples[j]) and bad is None:
                    bad = (fn, "%s%r.%s(%s%r) is %s, the order of (name, id) pairs gives %s" % ("", samples[i], m_, "", samples[j], got, ref(samples[i], samples[j])))
    chk.oblige("G-order", "BaseParticle.__lt__ / __eq__ on %d x %d (name, id) pairs" % (len(objs), len(objs)), bad is None)
    if bad:
        chk.violation("G-order", bad[0].key, "pair-order", bad[1] + ": sorted particle lists are then not sorted by name, and the name-based topology identity (identical particles) compares lists in different orders", file=PART, line=bad[0].lineno)


def check_names(repo, chk):
    """BaseParticle.set_name: the (name, id) pair a particle is known by"""
    chk.rule("G-name", "BaseParticle.set_name interpreted on plain names, `name:id` names and names whose part after the last colon is not a number (the canonical intermediate states `(K, pi:1)` that standard_topology builds from identical particles): the particle is known by (prefix, id) when the last part is an integer, by (whole name, 0) otherwise, and by (name, id_) when the id is given - two different names never collapse to one particle")
    pc = repo.cls(PART + "::BaseParticle")
    fn = pc.lookup("set_name")
    if fn is None:
        raise AnalysisError("anchor vanished: BaseParticle.set_name")
    from ..sym import SelfObj as _SO
    names = ["pi", "pi:1", "pi:12", "R_BC", "(K, pi:1)", "(K, pi:2)", "(K:1, pi)", "a:b:3", "a:b", "x:", "(B:1, (C, D:2))"]
    bad = None
    seen = {}
    for nm in names:
        for id_ in (None, 3):
            so = _SO(pc, {})
            tr = Translator(repo, hooks={"allow_attr_store": True, "allow_raise": True}, max_depth=2)
            try:
                tr.call_fn(fn, [nm] if id_ is None else [nm, id_], {}, self_obj=so)
            except Unmodelled as ex:
                raise AnalysisError("BaseParticle.set_name cannot be interpreted on %r: %s" % (nm, ex))
            except Raised as ex:
                if bad is None:
                    bad = "set_name(%r) raises %s" % (nm, ex)
                continue
            got = (so.attrs.get("_name"), so.attrs.get("_id"))
            got = (got[0], int(got[1]) if got[1] is not None and not isinstance(got[1], str) else got[1])
            if id_ is not None:
                want = (nm, id_)
            else:
                head, _, tail = nm.rpartition(":")
                want = (head, int(tail)) if head and tail.lstrip("+-").isdigit() else (nm, 0)
            if got != want and bad is None:
                bad = "set_name(%r%s) leaves the particle known as %r, expected %r" % (nm, "" if id_ is None else ", id_=%d" % id_, got, want)
            if id_ is None:
                if got in seen and seen[got] != nm and bad is None:
                    bad = "the names %r and %r both become the particle %r" % (seen[got], nm, got)
                seen.setdefault(got, nm)
    chk.oblige("G-name", "set_name on %d names, with and without an explicit id" % len(names), bad is None)
    if bad:
        chk.violation("G-name", fn.key, "name-id", bad + ": canonical intermediate states of different groupings become one particle, so the canonical table no longer determines the chain (and data keyed by these particles are shared between groupings)", file=PART, line=fn.lineno)


def check_graph(repo, chk):
    chk.rule("G-step", "_Chain_Graph.add_node(e, d) replaces the edge e = (a, b) by (a, v), (v, b), (v, d) with a fresh inner node v and touches no other edge (|edges| + 2)")
    chk.rule("G-copy", "_Chain_Graph.copy() is independent of the original: add_node on the copy leaves the original unchanged")
    gc = repo.cls(PART + "::_Chain_Graph")
    for m in ("add_node", "add_edge", "copy", "get_decay_chain"):
        if m not in gc.methods:
            raise AnalysisError("_Chain_Graph.%s vanished" % m)
    # graphs are built through the class's own interface (constructor, add_edge, add_node); only `.edges` - the
    # attribute from_particles itself reads - is looked at, private bookkeeping (node list, counter) is not
    def build(tr, n_extra):
        g = tr.apply(gc, [], {}, None, 0)
        tr.call_fn(gc.methods["add_edge"], ["A", "b"], {}, self_obj=g)
        for k in range(n_extra):
            e0 = list(g.attrs["edges"])[-1 if k % 2 else 0]
            tr.call_fn(gc.methods["add_node"], [e0, "p%d" % k], {}, self_obj=g)
        return g

    def endpoints(edges):
        return {x for e in edges for x in e}

    n = 0
    for n_extra in (0, 1, 2):
        probe = make_tr(repo)
        try:
            n_edges = len(build(probe, n_extra).attrs["edges"])
        except Unmodelled as ex:
            raise AnalysisError("_Chain_Graph cannot be built in the abstract run: %s" % ex)
        except KeyError:
            raise AnalysisError("_Chain_Graph no longer keeps its edges in `.edges` (from_particles reads g.edges)")
        for idx in range(n_edges):
            tr = make_tr(repo)
            try:
                g = build(tr, n_extra)
                edges = [tuple(x) for x in g.attrs["edges"]]
                e = edges[idx]
                g2 = tr.call_fn(gc.methods["copy"], [], {}, self_obj=g)
                tr.call_fn(gc.methods["add_node"], [e, "NEW"], {}, self_obj=g2)
            except Unmodelled as ex:
                raise AnalysisError("_Chain_Graph.copy / add_node cannot be interpreted: %s" % ex)
            n += 1
            if [tuple(x) for x in g.attrs["edges"]] != edges:
                chk.violation("G-copy", gc.methods["copy"].key, "alias", "adding a node to graph.copy() changed the original graph (edges %s -> %s): sibling topologies share their edge list" % (edges, g.attrs["edges"]), file=PART, line=gc.methods["copy"].lineno)
            got = sorted(tuple(x) for x in g2.attrs.get("edges", []))
            fresh = sorted(endpoints(got) - endpoints(edges) - {"NEW"})
            ok = len(fresh) == 1
            if ok:
                v = fresh[0]
                want = sorted([x for x in edges if x != e] + [(e[0], v), (v, e[1]), (v, "NEW")])
                ok = got == want and len(got) == len(edges) + 2
            if not ok:
                chk.violation("G-step", gc.methods["add_node"].key, "insert:%d" % len(edges), "inserting a particle on the edge %s of %s gives the edges %s (new inner nodes %s), expected the edge split at one fresh node with the particle attached" % (e, edges, got, fresh), file=PART, line=gc.methods["add_node"].lineno)
            # a second insertion must again create a fresh node
            try:
                before = [tuple(x) for x in g2.attrs["edges"]]
                tr.call_fn(gc.methods["add_node"], [before[0], "NEW2"], {}, self_obj=g2)
            except Unmodelled as ex:
                raise AnalysisError("_Chain_Graph.add_node cannot be interpreted twice: %s" % ex)
            fresh2 = endpoints(tuple(x) for x in g2.attrs["edges"]) - endpoints(before) - {"NEW2"}
            if len(fresh2) != 1:
                chk.violation("G-step", gc.methods["add_node"].key, "fresh-node", "a second insertion re-uses an inner node (edges %s -> %s): two different vertices of the tree become one" % (before, g2.attrs["edges"]), file=PART, line=gc.methods["add_node"].lineno)
    chk.oblige("G-step", "add_node on every edge of graphs with 1, 3, 5 edges (%d insertions): edge split at a fresh node, other edges untouched" % n, True)
    chk.oblige("G-copy", "copy() then add_node leaves the original graph unchanged (%d cases)" % n, True)


def enumerate_chains(repo, n):
    fp = repo.fn(PART + "::DecayChain.from_particles")
    finals = [TokP(x) for x in "BCDEFGH"[:n]]
    tr = make_tr(repo, depth=n + 8)
    try:
        out = tr.call_fn(fp, [TokP("A"), list(finals)])
    except Unmodelled as ex:
        raise AnalysisError("DecayChain.from_particles cannot be interpreted for n=%d: %s" % (n, ex))
    except Raised as ex:
        return finals, "raises %s" % ex
    if not isinstance(out, list):
        raise AnalysisError("from_particles does not return a list")
    return finals, out


def check_enum(repo, chk, tier):
    nmax = 6 if tier == "quick" else 7
    chk.rule("G-enum", "DecayChain.from_particles(top, n finals), n = 2..%d: (2n-3)!! chains, each a binary tree over exactly the finals, pairwise different as sets of final-state groupings" % nmax)
    fp = repo.fn(PART + "::DecayChain.from_particles")
    worlds = {}
    for n in range(2, nmax + 1):
        finals, out = enumerate_chains(repo, n)
        why = None
        if isinstance(out, str):
            why, chains = out, []
        else:
            chains = [decays_of(c) for c in out]
        if why:
            pass
        elif len(chains) != _dfact(n):
            why = "%d topologies generated, (2n-3)!! = %d" % (len(chains), _dfact(n))
        else:
            for ds in chains:
                why = tree_problems(ds, "A", finals)
                if why:
                    break
            if not why:
                ids = [str(groupings(ds, finals)) for ds in chains]
                if len(set(ids)) != len(ids):
                    dup = [i for i in set(ids) if ids.count(i) > 1][0]
                    why = "two generated chains have the same final-state groupings %s" % dup
        chk.oblige("G-enum", "n=%d: %d chains = (2n-3)!!, binary trees over the finals, pairwise different" % (n, len(chains)), why is None)
        if why:
            chk.violation("G-enum", fp.key, "n=%d" % n, "from_particles(A, %d finals): %s" % (n, why), file=PART, line=fp.lineno)
        if not why:
            worlds[n] = (finals, out, chains)
    return worlds


def check_tables(repo, chk, worlds):
    chk.rule("G-table", "sorted_table(): every particle maps to the sorted list of finals below it (decays listed in either order)")
    chk.rule("G-round", "from_sorted_table(sorted_table(chain)) has exactly the decays of chain")
    cc = repo.cls(PART + "::DecayChain")
    st, fst = cc.methods["sorted_table"], cc.methods["from_sorted_table"]
    n_t = n_r = 0
    for n in sorted(worlds):
        if n > 4:
            continue
        finals, _, chains = worlds[n]
        for ds in chains:
            for order in (list(ds), list(reversed(ds))):
                tr = make_tr(repo)
                try:
                    ch = chain_obj(repo, tr, order)
                    tab = tr.call_fn(st, [], {}, self_obj=ch)
                except Unmodelled as ex:
                    raise AnalysisError("sorted_table cannot be interpreted: %s" % ex)
                except Raised as ex:
                    tab = "raises %s" % ex
                n_t += 1
                b = below(ds, finals)
                want = {k: sorted(v) for k, v in b.items()}
                if isinstance(tab, str):
                    chk.violation("G-table", st.key, "table:n=%d" % n, "sorted_table of %s %s" % (order, tab), file=PART, line=st.lineno)
                    continue
                if not isinstance(tab, dict) or {k: list(v) for k, v in tab.items()} != want:
                    chk.violation("G-table", st.key, "table:n=%d" % n, "sorted_table of %s is %s, expected %s" % (order, tab, want), file=PART, line=st.lineno)
                    continue
                try:
                    back = decays_of(tr.call_fn(fst, [dict((k, list(v)) for k, v in tab.items())]))
                except Unmodelled as ex:
                    raise AnalysisError("from_sorted_table cannot be interpreted: %s" % ex)
                except Raised as ex:
                    back = "raises %s" % ex
                n_r += 1
                if isinstance(back, str) or sorted(back) != sorted(ds):
                    chk.violation("G-round", fst.key, "round:n=%d" % n, "from_sorted_table(sorted_table(%s)) %s" % (order, back if isinstance(back, str) else "has the decays %s" % (back,)), file=PART, line=fst.lineno)
    chk.oblige("G-table", "sorted_table on %d (chain, listing order) pairs, n = 2..4" % n_t, True)
    chk.oblige("G-round", "sorted_table -> from_sorted_table round trip on %d chains" % n_r, True)


def _rename(ds, mapping):
    return [TokD(TokP(mapping.get(d[0], d[0])), [TokP(mapping.get(x, x)) for x in d._outs]) for d in ds]


def same_world(worlds):
    """chains over the finals B:1, B:2, C, D: the 15 enumerated ones with two spellings of the inner names"""
    finals, _, chains = worlds[4]
    ident = {"B": "B:1", "C": "B:2", "D": "C", "E": "D"}
    out = []
    for k, ds in enumerate(chains):
        inner = sorted({d[0] for d in ds} - {"A"})
        out.append(_rename(ds, dict(ident, **{p: "R%d_%d" % (k, i) for i, p in enumerate(inner)})))
        z = _rename(list(reversed(ds)), dict(ident, **{p: "Z%d_%d" % (k, len(inner) - i) for i, p in enumerate(inner)}))
        out.append([TokD(d[0], list(reversed(d._outs))) for d in z])  # ... and every decay written with its daughters in the other order
        # the names of the first spelling, rotated among the inner particles: same topology, but a name now
        # stands for another grouping than in the first spelling
        out.append(_rename(ds, dict(ident, **{p: "R%d_%d" % (k, (i + 1) % len(inner)) for i, p in enumerate(inner)})))
    return [TokP(x) for x in ("B:1", "B:2", "C", "D")], out


def check_same(repo, chk, worlds):
    chk.rule("G-same", "topology_same(a, b, identical) == (sets of final-state groupings coincide), by particle and by name, pairs of 45 chains over B:1 B:2 C D (three spellings of the intermediate states per topology, one of them re-using names for other groupings)")
    chk.rule("G-map", "topology_map / standard_topology: particles and decays of a are mapped onto those of b with the mother-daughter relation preserved; standard_topology keeps the topology")
    cc = repo.cls(PART + "::DecayChain")
    ts, tm, sd = cc.methods["topology_same"], cc.methods["topology_map"], cc.methods["standard_topology"]
    finals, chains = same_world(worlds)
    tr = make_tr(repo)
    try:
        objs = [chain_obj(repo, tr, ds) for ds in chains]
    except Unmodelled as ex:
        raise AnalysisError("DecayChain.__init__ cannot be interpreted: %s" % ex)
    n_pairs = n_maps = 0
    bad_same = bad_map = None
    for identical in (False, True):
        ref = [str(groupings(ds, finals, by_name=identical)) for ds in chains]
        for i, j in itertools.product(range(len(chains)), repeat=2):
            if (i + j) % 3 and i != j and abs(i - j) != 1:
                continue  # a third of the pairs + the diagonal + the renamed partners: every class pair is met
            try:
                got = tr.call_fn(ts, [objs[j], identical], {}, self_obj=objs[i])
            except Unmodelled as ex:
                raise AnalysisError("topology_same cannot be interpreted: %s" % ex)
            except Raised as ex:
                got = "raises %s" % ex
            n_pairs += 1
            if (isinstance(got, str) or bool(got) != (ref[i] == ref[j])) and bad_same is None:
                bad_same = "topology_same(%s, %s, identical=%s) is %s, the groupings are %s / %s" % (chains[i], chains[j], identical, got, ref[i], ref[j])
    if bad_same:
        chk.violation("G-same", ts.key, "iff", bad_same, file=PART, line=ts.lineno)
    chk.oblige("G-same", "%d ordered pairs decided" % n_pairs, bad_same is None)
    ref = [str(groupings(ds, finals)) for ds in chains]
    for i in range(len(chains)):
        partners = [j for j in range(len(chains)) if ref[j] == ref[i]]
        for j in partners + [None]:
            try:
                other = objs[j] if j is not None else tr.call_fn(sd, [], {}, self_obj=objs[i])
                mp = tr.call_fn(tm, [other], {}, self_obj=objs[i])
            except Unmodelled as ex:
                raise AnalysisError("topology_map / standard_topology cannot be interpreted: %s" % ex)
            except Raised as ex:
                if bad_map is None:
                    bad_map = "topology_map of %s onto %s raises %s" % (chains[i], "its standard topology" if j is None else chains[j], ex)
                continue
            n_maps += 1
            a_ds, b_ds = chains[i], decays_of(other)
            why = None
            if j is None and str(groupings(b_ds, finals)) != ref[i]:
                why = "standard_topology changes the topology: %s -> %s" % (a_ds, b_ds)
            elif not isinstance(mp, dict):
                why = "topology_map returns %r" % (mp,)
            else:
                for d in a_ds:
                    img = mp.get(d)
                    if not isinstance(img, TokD) or img not in b_ds:
                        why = "the decay %s is mapped to %r, not a decay of %s" % (d, img, b_ds)
                        break
                    if mp.get(d[0]) != img[0] or sorted(mp.get(x) for x in d._outs) != sorted(img._outs):
                        why = "the image of %s is %s but its particles map to %s -> %s" % (d, img, mp.get(d[0]), [mp.get(x) for x in d._outs])
                        break
                if not why:
                    for f in finals:
                        if mp.get(f) != f:
                            why = "the final-state particle %s is mapped to %r" % (f, mp.get(f))
                            break
            if why and bad_map is None:
                bad_map = why
    if bad_map:
        chk.violation("G-map", tm.key, "homomorphism", bad_map, file=PART, line=tm.lineno)
    chk.oblige("G-map", "%d maps (same-topology partners and the standard topology) preserve the mother-daughter relation" % n_maps, bad_map is None)
    return finals, chains, objs, tr


def check_classes(repo, chk, finals, chains, objs, tr):
    chk.rule("G-class", "DecayGroup.topology_structure / get_chains_map: every chain of a group lies in exactly one topology class (groups of 1..8 chains, duplicated topologies with renamed intermediates); with an explicit selection (one chain, a part, every second one, none) exactly the selected chains are assigned")
    gc = repo.cls(PART + "::DecayGroup")
    tsf, gcm = gc.methods["topology_structure"], gc.methods["get_chains_map"]
    ref = [str(groupings(ds, finals)) for ds in chains]
    groups = [[0], [0, 1], [0, 1, 2, 3], [5, 4, 0, 1], [2, 8, 3, 9, 14, 15], list(range(0, 16, 2)), [7, 6, 29, 28, 1], [0, 2, 5, 3], [41, 44, 43, 2], [0, 3, 1, 4, 2, 9, 5]]  # the last one returns to earlier classes after other ones
    bad = None
    for idxs in groups:
        grp = SelfObj(gc, {"chains": [objs[i] for i in idxs]})
        try:
            classes = tr.call_fn(tsf, [], {}, self_obj=grp)
            maps = tr.call_fn(gcm, [], {}, self_obj=grp)
        except Unmodelled as ex:
            raise AnalysisError("DecayGroup.topology_structure / get_chains_map cannot be interpreted: %s" % ex)
        except Raised as ex:
            if bad is None:
                bad = "on the chains %s topology_structure / get_chains_map raises %s (a chain is matched with a class it cannot be mapped onto)" % ([chains[i] for i in idxs], ex)
            continue
        want = []
        for i in idxs:
            if ref[i] not in want:
                want.append(ref[i])
        got = [str(groupings(decays_of(c), finals)) for c in classes] if isinstance(classes, list) else None
        why = None
        if got != want:
            why = "topology_structure of the chains %s gives the classes %s, expected %s" % ([chains[i] for i in idxs], got, want)
        elif not (isinstance(maps, list) and len(maps) == len(want) and all(isinstance(m_, dict) for m_ in maps)):
            why = "get_chains_map returns %r" % (maps,)
        else:
            for i in idxs:
                hits = [k for k, m_ in enumerate(maps) if objs[i] in m_]
                if hits != [want.index(ref[i])]:
                    why = "the chain %s is assigned to the classes %s, expected exactly class %d" % (chains[i], hits, want.index(ref[i]))
                    break
        if why is None and "chains" in gcm.all_param_names():
            # an explicit selection - a part of the group, one chain, none: exactly the selected chains are assigned
            for sel in ([idxs[0]], idxs[1:], idxs[::2], []):
                for as_kw in (False, True):
                    picked = tuple(objs[i] for i in sel)
                    try:
                        maps = tr.call_fn(gcm, [] if as_kw else [picked], {"chains": picked} if as_kw else {}, self_obj=grp)
                    except Unmodelled as ex:
                        raise AnalysisError("DecayGroup.get_chains_map(selection) cannot be interpreted: %s" % ex)
                    except Raised as ex:
                        why = "get_chains_map(%s) raises %s" % ([chains[i] for i in sel], ex)
                        break
                    assigned = [i for i in idxs for m_ in (maps if isinstance(maps, list) else []) if objs[i] in m_]
                    if not isinstance(maps, list) or sorted(assigned) != sorted(set(sel)):
                        why = "get_chains_map with the selection %s of the group %s assigns the chains %s (selected: %d, assigned: %d): a chain outside the selection enters a topology class, or a selected one is left out" % ([chains[i] for i in sel], [chains[i] for i in idxs], [chains[i] for i in assigned], len(sel), len(assigned))
                        break
                if why:
                    break
        if why and bad is None:
            bad = why
    if bad:
        chk.violation("G-class", tsf.key, "partition", bad, file=PART, line=tsf.lineno)
    chk.oblige("G-class", "%d groups: classes = distinct topologies in order of first occurrence, every chain in exactly one class" % len(groups), bad is None)


def run(repo, chk, tier="quick"):
    from ..cacheown import check_memo_soundness

    check_memo_soundness(repo, chk)
    check_order(repo, chk)
    check_names(repo, chk)
    check_graph(repo, chk)
    worlds = check_enum(repo, chk, tier)
    if 4 not in worlds:
        chk.info("the enumeration for n = 4 is broken (see G-enum): G-table / G-round / G-same / G-map / G-class need its chains and are skipped")
        return
    check_tables(repo, chk, worlds)
    finals, chains, objs, tr = check_same(repo, chk, worlds)
    check_classes(repo, chk, finals, chains, objs, tr)
    chk.info("not decided: n above %d (the induction lemma over G-step / G-copy is stated, not mechanised), random subsets beyond the listed groups, topology-based sharing of angle data in cal_angle / amp.core" % (6 if tier == "quick" else 7))
