"""C18 clause L4-copy: a copy of lazily evaluated data shares no mutable per-instance table with its original.

LazyCall keeps user-set leaves in `self.extra` (written by __setitem__) and `data_replace` on lazy data is
`copy()` followed by `ret[key] = value`: if copy() hands the original's table to the copy, replacing a leaf of
the copy silently replaces it in the original, and lazily evaluated data no longer have the content of eager data.

Rule (ownership): for every class in tf_pwa/data.py with a `copy` method, every attribute that some method of the
class hierarchy mutates in place (self.X[k] = v, del self.X[k], self.X.update/append/...) is, in copy(), either
not assigned on the new object (it keeps the fresh one its constructor made) or assigned from a copying
expression (.copy(), dict(...), list(...), {**...}, deepcopy, a comprehension) - never the bare `self.X`.
"""
import ast

from ..effects import INPLACE_LIST_METHODS, unwrap_copy
from ..model import AnalysisError, norm_text, walk_local

DATA = "tf_pwa/data.py"


def inplace_attrs(cls):
    """attribute -> (method, line) for in-place mutations of self.<attr> in the class and its bases/subclasses"""
    out = {}
    seen = set()
    todo = list(cls.mro) + list(cls.subclasses)
    for c in todo:
        if c.key in seen:
            continue
        seen.add(c.key)
        for m in c.methods.values():
            for n in walk_local(m.node):
                tgt = None
                if isinstance(n, (ast.Assign, ast.AugAssign, ast.Delete)):
                    ts = n.targets if isinstance(n, (ast.Assign, ast.Delete)) else [n.target]
                    for t in ts:
                        if isinstance(t, ast.Subscript) and isinstance(t.value, ast.Attribute) and isinstance(t.value.value, ast.Name) and t.value.value.id == "self":
                            tgt = t.value.attr
                elif isinstance(n, ast.Call) and isinstance(n.func, ast.Attribute) and n.func.attr in INPLACE_LIST_METHODS and isinstance(n.func.value, ast.Attribute) and isinstance(n.func.value.value, ast.Name) and n.func.value.value.id == "self":
                    tgt = n.func.value.attr
                if tgt:
                    out.setdefault(tgt, (m.key, n.lineno))
    return out


def copy_by_interpretation(repo, chk, cls, cp, mut):
    """copy() interpreted on a symbolic instance: the copy owns its mutable tables, and setting a leaf on the copy
    (what data_replace does) leaves the original untouched.  Returns False if the class cannot be run."""
    from ..sym import SelfObj, Translator, Unmodelled

    keys = {c.key for c in repo.mod(DATA).classes.values()}
    so = SelfObj(cls, {"f": "F", "x": "X", "args": (), "kwargs": {}, "extra": {"w": "W0"}, "batch_size": None, "cached_batch": {}, "cached_file": "file", "name": "n", "prefetch": -1})
    tr = Translator(repo, hooks={"construct": keys, "allow_attr_store": True, "builtin.isinstance": lambda tr_, a_, k_, n_: False}, max_depth=4)
    try:
        ret = tr.call_fn(cp, [], {}, self_obj=so)
        if not isinstance(ret, SelfObj):
            return False
        shared = [a for a in sorted(mut) if isinstance(so.attrs.get(a), (dict, list)) and ret.attrs.get(a) is so.attrs.get(a)]
        lost = [a for a in ("extra",) if a in mut and ret.attrs.get(a) != {"w": "W0"}]
        setter = cls.lookup("__setitem__")
        changed = False
        if setter is not None:
            tr.call_fn(setter, ["w", "W1"], {}, self_obj=ret)
            changed = so.attrs.get("extra") != {"w": "W0"}
    except Unmodelled as e:
        chk.info("L4-copy: %s.copy not interpretable (%s); statement-level rule used" % (cls.name, e))
        return False
    ok = not shared and not lost and not changed
    chk.instance("L4-copy", "%s.copy interpreted: in-place-mutated attributes %s are the copy's own objects, the leaves are carried over, and copy['w'] = W1 leaves the original at W0: %s" % (cls.name, sorted(mut), ok))
    if shared or changed:
        chk.violation("L4-copy", cp.key, "alias:%s" % ",".join(shared or ["extra"]), "copy() hands the original's table(s) %s to the copy: setting a leaf on the copy (data_replace on lazy data) changes the original sample (original leaf after copy['w'] = W1: %s)" % (shared or ["extra"], so.attrs.get("extra")), file=DATA, line=cp.lineno)
    elif lost:
        chk.violation("L4-copy", cp.key, "lost:%s" % ",".join(lost), "copy() does not carry the user-set leaves over: the copy's table is %r" % (ret.attrs.get("extra"),), file=DATA, line=cp.lineno)
    return True


def check_copy_isolation(repo, chk):
    chk.rule("L4-copy", "copy() of a lazy-data class gives the copy its own instance of every attribute the class mutates in place (never the bare self.<attr>): data_replace on the copy cannot change the original")
    mod = repo.mod(DATA)
    n = 0
    for cls in mod.classes.values():
        cp = cls.methods.get("copy")
        if cp is None:
            continue
        mut = inplace_attrs(cls)
        decided = copy_by_interpretation(repo, chk, cls, cp, mut)
        if decided:
            n += len(mut)
            continue
        # name of the new object: the returned name
        rets = [r for r in walk_local(cp.node) if isinstance(r, ast.Return) and r.value is not None]
        if len(rets) != 1 or not isinstance(rets[0].value, ast.Name):
            raise AnalysisError("%s.copy: single `return <name>` expected" % cls.name)
        new = rets[0].value.id
        assigned = {}
        for st in walk_local(cp.node):
            if isinstance(st, ast.Assign):
                for t in st.targets:
                    if isinstance(t, ast.Attribute) and isinstance(t.value, ast.Name) and t.value.id == new:
                        assigned[t.attr] = st
        for attr, (where, line) in sorted(mut.items()):
            st = assigned.get(attr)
            n += 1
            if st is None:
                chk.instance("L4-copy", "%s.copy: `%s` (mutated in place by %s) is not assigned: the copy keeps the fresh object of its constructor" % (cls.name, attr, where.split("::")[1]))
                continue
            v = st.value
            alias = isinstance(v, ast.Attribute) and isinstance(v.value, ast.Name) and v.value.id == "self"
            copied = unwrap_copy(v) is not v or isinstance(v, (ast.Dict, ast.DictComp, ast.ListComp, ast.List)) or (isinstance(v, ast.Call) and norm_text(v.func).split(".")[-1] in ("deepcopy", "dict", "list"))
            chk.instance("L4-copy", "%s.copy: `%s.%s = %s` (attribute mutated in place by %s): %s" % (cls.name, new, attr, norm_text(v), where.split("::")[1], "copy" if copied and not alias else ("ALIAS" if alias else "other")))
            if alias:
                chk.violation("L4-copy", cp.key, "alias:%s" % attr, "copy() assigns `%s.%s = %s`: the copy shares the table that %s mutates in place (line %d), so setting a leaf on the copy (data_replace) changes the original" % (new, attr, norm_text(v), where.split("::")[1], line), file=DATA, line=st.lineno)
            elif not copied:
                raise AnalysisError("%s.copy: `%s.%s = %s` is neither a recognised copy nor the bare attribute" % (cls.name, new, attr, norm_text(v)))
    if n < 2:
        raise AnalysisError("L4-copy: only %d (class, mutated attribute) instances found" % n)
    # data_replace on lazy data goes through copy()
    dr = repo.fn(DATA + "::data_replace")
    uses_copy = any(isinstance(x, ast.Call) and isinstance(x.func, ast.Attribute) and x.func.attr == "copy" for x in walk_local(dr.node))
    chk.instance("L4-copy", "data_replace works on a copy of lazy data (`.copy()` call present): %s" % uses_copy)
    if not uses_copy:
        chk.violation("L4-copy", dr.key, "no-copy", "data_replace no longer copies lazy data before setting the leaf: the caller's sample is modified", file=DATA, line=dr.lineno)


def check_merge_identity(repo, chk):
    """a merged lazy sample is another sample: its on-disk cache identity (cached_file, name) differs from its parts'"""
    from ..model import AnalysisError
    from ..sym import SelfObj, Translator, Unmodelled

    chk.rule("M4-name", "LazyCall.merge interpreted on two lazy samples that share a cache directory: the merged sample's cache identity (cached_file + name, from which as_dataset builds the file name of its tf.data disk cache) differs from that of each part - otherwise the merged data + background sample replays the cache written for the plain data sample (or vice versa), i.e. other events")
    mod = repo.mod(DATA)
    cls = mod.classes.get("LazyCall")
    if cls is None or "merge" not in cls.methods:
        raise AnalysisError("anchor vanished: LazyCall.merge")
    keys = {c.key for c in mod.classes.values()}

    def mk(name, x):
        return SelfObj(cls, {"f": "F", "x": x, "args": (), "kwargs": {}, "extra": {"w": "W_" + name}, "batch_size": None, "cached_batch": {}, "cached_file": "dir/", "name": name, "prefetch": -1})

    a, b = mk("data", "XA"), mk("bg", "XB")
    hooks = {"construct": keys, "allow_attr_store": True, "builtin.isinstance": lambda tr_, a_, k_, n_: False}
    for g in repo.func_by_name.get("data_merge", []):
        hooks[g.key] = lambda tr_, a_, k_, n_: ("merged",) + tuple(str(x) for x in a_)
    try:
        ret = Translator(repo, hooks=hooks, max_depth=4).call_fn(cls.methods["merge"], [b], {}, self_obj=a)
    except Unmodelled as e:
        raise AnalysisError("LazyCall.merge cannot be interpreted: %s" % e)
    if not isinstance(ret, SelfObj):
        raise AnalysisError("LazyCall.merge does not return a lazy sample in the interpretation")
    ident = (ret.attrs.get("cached_file"), ret.attrs.get("name"))
    clash = [p.attrs["name"] for p in (a, b) if (p.attrs["cached_file"], p.attrs["name"]) == ident]
    ok = not clash and isinstance(ident[1], str)
    chk.oblige("M4-name", "merge(data, bg): cache identity %s differs from ('dir/', 'data') and ('dir/', 'bg')" % (ident,), ok)
    if not ok:
        chk.violation("M4-name", cls.methods["merge"].key, "cache-identity", "the merged sample keeps the cache identity %s of its part `%s`: with cached_lazy_call configured, the merged data + background sample and the plain sample read and write the same tf.data cache file, so one of them is served the other's events" % (ident, clash[0] if clash else "?"), file=DATA, line=cls.methods["merge"].lineno)


def check_extra_var_given(repo, chk, rule="X-given"):
    """the per-event extra variables read with the momenta are the ones specified - a value of exactly zero included"""
    import ast as _ast

    import numpy as _np
    import sympy as _sp

    from ..sym import SelfObj, Translator, Unmodelled

    chk.rule(rule, "SimpleData.load_extra_var interpreted on three events with the extra variables weight (default 1), tag (default 7, stored under another key): a number that is given - 2.5, 0.0, 0 - fills the column, a file name / list of files is read through load_weight_file and cut to the events, None or nothing selects the default: the arrays read back are the ones specified (bg_weight: 0.0, data sets tagged from 0)")
    cls = repo.cls("tf_pwa/config_loader/data.py::SimpleData")
    fn = cls.lookup("load_extra_var")
    if fn is None:
        raise AnalysisError("anchor vanished: SimpleData.load_extra_var")

    def isinst(tr, args, kwargs, node):
        kinds_node = node.args[1]
        if isinstance(kinds_node, _ast.Name) and kinds_node.id in getattr(fn.mod, "toplevel_assign", {}):
            kinds_node = fn.mod.toplevel_assign[kinds_node.id]   # a named tuple of types at module level
        kinds = _ast.unparse(kinds_node) if isinstance(kinds_node, _ast.AST) else str(kinds_node)
        v = args[0]
        numeric = (isinstance(v, (int, float)) and not isinstance(v, bool)) or (isinstance(v, _sp.Basic) and v.is_number)
        hit = False
        if "int" in kinds or "float" in kinds:
            hit = hit or numeric
        if "list" in kinds:
            hit = hit or (isinstance(v, list))
        if "str" in kinds:
            hit = hit or isinstance(v, str)
        if "tuple" in kinds:
            hit = hit or (isinstance(v, tuple))
        if "dict" in kinds:
            hit = hit or isinstance(v, dict)
        return hit

    def weight_file(tr, args, kwargs, node):
        src = [a for a in args if not isinstance(a, SelfObj)][0]
        return _np.array([_sp.Symbol("file(%s)[%d]" % (src, i)) for i in range(5)], dtype=object)

    hooks = {"allow_attr_store": True, "allow_raise": True, "concrete_zeros": True, "builtin.isinstance": isinst}
    lw = cls.lookup("load_weight_file")
    if lw is not None:
        hooks[lw.key] = weight_file
    n_ev = 3
    cases = [
        ({}, {"weight": [1, 1, 1], "label": [7, 7, 7]}, "nothing given"),
        ({"weight": None}, {"weight": [1, 1, 1], "label": [7, 7, 7]}, "weight=None"),
        ({"weight": _sp.Rational(5, 2)}, {"weight": [_sp.Rational(5, 2)] * 3, "label": [7, 7, 7]}, "weight=2.5"),
        ({"weight": _sp.Float(0.0)}, {"weight": [0, 0, 0], "label": [7, 7, 7]}, "weight=0.0"),
        ({"weight": _sp.Integer(0), "tag": _sp.Integer(0)}, {"weight": [0, 0, 0], "label": [0, 0, 0]}, "weight=0, tag=0"),
        ({"weight": "w.txt"}, {"weight": ["file(w.txt)[0]", "file(w.txt)[1]", "file(w.txt)[2]"], "label": [7, 7, 7]}, "weight='w.txt'"),
    ]
    bad = None
    for kw, want, label in cases:
        so = SelfObj(cls, {"extra_var": {"weight": {"default": _sp.Integer(1)}, "tag": {"default": _sp.Integer(7), "key": "label"}}})
        tr = Translator(repo, hooks=hooks, max_depth=2)
        try:
            got = tr.call_fn(fn, [_sp.Integer(n_ev)], dict(kw), self_obj=so)
        except Unmodelled as e:
            raise AnalysisError("SimpleData.load_extra_var cannot be interpreted (%s): %s" % (label, e))
        ok = isinstance(got, dict) and sorted(got) == sorted(want)
        if ok:
            for k, w in want.items():
                g = list(_np.asarray(got[k], dtype=object).ravel()) if not isinstance(got[k], (list, tuple)) else list(got[k])
                if len(g) != len(w) or any(_sp.simplify(_sp.sympify(a) - (_sp.Symbol(b) if isinstance(b, str) else _sp.sympify(b))) != 0 for a, b in zip(g, w)):
                    ok = False
                    break
        if not ok and bad is None:
            bad = "%s: the columns read are %s, expected %s" % (label, {k: list(_np.asarray(v, dtype=object).ravel()) for k, v in got.items()} if isinstance(got, dict) else got, want)
    chk.oblige(rule, "load_extra_var returns the specified columns for %d specifications (zeros included)" % len(cases), bad is None)
    if bad:
        chk.violation(rule, fn.key, "given-value", "%s - a value that is given as exactly zero is replaced by the default, so the arrays read back are not the ones specified (a background weight of 0 becomes 1, a data tag 0 becomes the default)" % bad, file="tf_pwa/config_loader/data.py", line=fn.lineno)


def check_keyed_closures(repo, chk, rule="L-late"):
    """a dataset cached under a key is built from a closure that depends on the key, not on per-call object state"""
    import ast as _ast

    from ..model import norm_text as _nt

    chk.rule(rule, "in every method of tf_pwa/data.py that stores an entry in a keyed cache of the object (self.<cache>[<parameter>] = ...), a nested function / lambda handed on from that method (the generator behind a tf.data dataset, a map function) reads no attribute of self that the same method assigns: a closure is evaluated when the dataset is iterated, it then sees the attribute's LATEST value - the entry cached for one batch size would deliver the pieces of another")
    mod = repo.mod("tf_pwa/data.py")
    n = 0
    for f in mod.funcs.values():
        if f.cls is None or "." in f.qual.replace(f.cls.name + ".", "", 1):
            continue
        params = {a.arg for a in f.node.args.args[1:] + f.node.args.kwonlyargs}
        keyed = [t for st in _ast.walk(f.node) if isinstance(st, _ast.Assign) for t in st.targets
                 if isinstance(t, _ast.Subscript) and isinstance(t.value, _ast.Attribute) and isinstance(t.value.value, _ast.Name) and t.value.value.id == "self" and isinstance(t.slice, _ast.Name) and t.slice.id in params]
        if not keyed:
            continue
        n += 1
        inner_ids = set()
        for d in _ast.walk(f.node):
            if d is not f.node and isinstance(d, (_ast.FunctionDef, _ast.Lambda)):
                for x in _ast.walk(d):
                    inner_ids.add(id(x))
        assigned = {}
        for st in _ast.walk(f.node):
            if id(st) in inner_ids:
                continue
            if isinstance(st, (_ast.Assign, _ast.AugAssign)):
                for t in (st.targets if isinstance(st, _ast.Assign) else [st.target]):
                    if isinstance(t, _ast.Attribute) and isinstance(t.value, _ast.Name) and t.value.id == "self":
                        assigned[t.attr] = st
        hits = []
        # direct calls `helper(...)`: a nested function that is only ever called on the spot does not outlive the call
        called_only = set()
        direct = {id(c.func) for c in _ast.walk(f.node) if isinstance(c, _ast.Call)}
        for d in _ast.walk(f.node):
            if d is not f.node and isinstance(d, _ast.FunctionDef):
                uses = [x for x in _ast.walk(f.node) if isinstance(x, _ast.Name) and x.id == d.name and isinstance(x.ctx, _ast.Load)]
                if uses and all(id(x) in direct for x in uses) and not any(isinstance(y, (_ast.Yield, _ast.YieldFrom)) for y in _ast.walk(d)):
                    called_only.add(id(d))
            elif isinstance(d, _ast.Lambda) and id(d) in direct:
                called_only.add(id(d))
        for d in _ast.walk(f.node):
            if d is not f.node and isinstance(d, (_ast.FunctionDef, _ast.Lambda)) and id(d) not in called_only:
                for x in _ast.walk(d):
                    if isinstance(x, _ast.Attribute) and isinstance(x.ctx, _ast.Load) and isinstance(x.value, _ast.Name) and x.value.id == "self" and x.attr in assigned:
                        hits.append((d, x))
        chk.instance(rule, "%s: keyed cache %s, per-call attributes %s, %d read(s) of them inside a nested function" % (f.key, ", ".join(sorted({_nt(t.value) for t in keyed})), sorted(assigned), len(hits)), nontrivial=True)
        for d, x in hits[:1]:
            chk.violation(rule, f.key, "late-read:self.%s" % x.attr, "the nested function `%s` reads self.%s, which %s assigns on every call (line %d), and the object built from it is cached under the key %s: iterating the entry of one key after a call with another key uses the other key's value - lazily evaluated data are cut into pieces that do not match the rest of the batch (events are dropped by zip)" % (getattr(d, "name", "<lambda>"), x.attr, f.qual, assigned[x.attr].lineno, ", ".join(sorted({_nt(t) for t in keyed}))), file="tf_pwa/data.py", line=x.lineno)
    if n < 1:
        raise AnalysisError("%s: no method of tf_pwa/data.py stores into a cache keyed by a parameter (anchor vanished)" % rule)
    chk.require_count(rule, 1)


def check_multifile_reader(repo, chk, rule="R-multi"):
    """momenta spread over several files (each file: a group of particles, all events) are read back particle by particle"""
    import ast as _ast

    import numpy as _np
    import sympy as _sp

    from ..sym import Raised, Translator, Unmodelled

    chk.rule(rule, "load_dat_file interpreted on symbolic file contents - three particles, two and three events, stored as one file (a b c), two files (a | b c), (a b | c) and three files (a | b | c), each file event-major with its own particles: the entry of particle p holds, event by event, the four components that were stored for p (several files mean several GROUPS OF PARTICLES of the same events, not more rows of one table)")
    fn = repo.fn("tf_pwa/data.py::load_dat_file")
    parts = ["a", "b", "c"]
    bad = None
    n = 0
    for n_ev in (2, 3):
        for groups in ([["a", "b", "c"]], [["a"], ["b", "c"]], [["a", "b"], ["c"]], [["a"], ["b"], ["c"]]):
            files = {}
            for gi, grp in enumerate(groups):
                rows = [[_sp.Symbol("%s_e%d_%s" % (p, e, comp)) for comp in "txyz"] for e in range(n_ev) for p in grp]
                files["file%d.dat" % gi] = _np.array(rows, dtype=object)

            def load(tr, d, args, kwargs, node):
                last = d.split(".")[-1]
                if last in ("loadtxt", "load") and args and isinstance(args[0], str) and args[0] in files:
                    return files[args[0]].copy()
                return NotImplemented

            def isinst(tr, args, kwargs, node):
                kinds = _ast.unparse(node.args[1])
                v = args[0]
                if "str" in kinds and isinstance(v, str):
                    return True
                if "Iterable" in kinds or "list" in kinds or "tuple" in kinds:
                    return isinstance(v, (list, tuple)) or ("Iterable" in kinds and isinstance(v, str))
                return False

            hooks = {"numeric_call_first": load, "builtin.isinstance": isinst, "allow_raise": True, "allow_shape": True, "concrete_zeros": True, "stack_as_array": True}
            for g in repo.func_by_name.get("get_config", []):
                hooks[g.key] = lambda tr, args, kwargs, node: "float64"
            tr = Translator(repo, hooks=hooks, max_depth=2)
            names = list(files) if len(files) > 1 else list(files)[0]
            try:
                out = tr.call_fn(fn, [names, list(parts)], {"dtype": "float64"})
            except Unmodelled as e:
                raise AnalysisError("load_dat_file cannot be interpreted (%d events, files %s): %s" % (n_ev, groups, e))
            except Raised as e:
                out = "raises %s" % e
            except (IndexError, ValueError) as e:
                # the interpreted code itself runs out of particles / cannot reshape: what Python would raise
                out = "raises %s: %s" % (type(e).__name__, e)
            n += 1
            why = None
            if not isinstance(out, dict) or sorted(out, key=str) != parts:
                why = "the result is %r" % (out if not isinstance(out, dict) else sorted(out, key=str),)
            else:
                for p in parts:
                    arr = _np.asarray(out[p], dtype=object)
                    want = _np.array([[_sp.Symbol("%s_e%d_%s" % (p, e, comp)) for comp in "txyz"] for e in range(n_ev)], dtype=object)
                    if arr.shape != want.shape or any(a_ != w_ for a_, w_ in zip(arr.reshape(-1), want.reshape(-1))):
                        why = "particle %s gets %s, stored was %s" % (p, arr.tolist() if arr.size <= 12 else arr.reshape(-1)[:8].tolist(), want.tolist() if want.size <= 12 else want.reshape(-1)[:8].tolist())
                        break
            if why and bad is None:
                bad = "%d events in the files %s: %s" % (n_ev, " | ".join(" ".join(g_) for g_ in groups), why)
    chk.oblige(rule, "load_dat_file returns every particle's own momenta for %d (events, file grouping) combinations" % n, bad is None)
    if bad:
        chk.violation(rule, fn.key, "multi-file", "%s - reading momenta back from several files gives the particles each other's momenta (same shapes, same keys: nothing raises)" % bad, file="tf_pwa/data.py", line=fn.lineno)
