"""C18 clause L4-copy: a copy of lazily evaluated data shares no mutable per-instance table with its original.

LazyCall keeps user-set leaves in `self.extra` (written by __setitem__) and `data_replace` on lazy data is
`copy()` followed by `ret[key] = value`: if copy() hands the original's table to the copy, replacing a leaf of
the copy silently replaces it in the original, and lazily evaluated data no longer have the content of eager data.

Rule (ownership): for every class in tf_pwa/data.py with a `copy` method, every attribute that some method of the
class hierarchy mutates in place (self.X[k] = v, del self.X[k], self.X.update/append/...) is, in copy(), either
not assigned on the new object (it keeps the fresh one its constructor made) or assigned from a copying
expression (.copy(), dict(...), list(...), {**...}, deepcopy, a comprehension) - never the bare `self.X`.
"""
import ast

from ..effects import INPLACE_LIST_METHODS, unwrap_copy
from ..model import AnalysisError, norm_text, walk_local

DATA = "tf_pwa/data.py"


def inplace_attrs(cls):
    """attribute -> (method, line) for in-place mutations of self.<attr> in the class and its bases/subclasses"""
    out = {}
    seen = set()
    todo = list(cls.mro) + list(cls.subclasses)
    for c in todo:
        if c.key in seen:
            continue
        seen.add(c.key)
        for m in c.methods.values():
            for n in walk_local(m.node):
                tgt = None
                if isinstance(n, (ast.Assign, ast.AugAssign, ast.Delete)):
                    ts = n.targets if isinstance(n, (ast.Assign, ast.Delete)) else [n.target]
                    for t in ts:
                        if isinstance(t, ast.Subscript) and isinstance(t.value, ast.Attribute) and isinstance(t.value.value, ast.Name) and t.value.value.id == "self":
                            tgt = t.value.attr
                elif isinstance(n, ast.Call) and isinstance(n.func, ast.Attribute) and n.func.attr in INPLACE_LIST_METHODS and isinstance(n.func.value, ast.Attribute) and isinstance(n.func.value.value, ast.Name) and n.func.value.value.id == "self":
                    tgt = n.func.value.attr
                if tgt:
                    out.setdefault(tgt, (m.key, n.lineno))
    return out


def copy_by_interpretation(repo, chk, cls, cp, mut):
    """copy() interpreted on a symbolic instance: the copy owns its mutable tables, and setting a leaf on the copy
    (what data_replace does) leaves the original untouched.  Returns False if the class cannot be run."""
    from ..sym import SelfObj, Translator, Unmodelled

    keys = {c.key for c in repo.mod(DATA).classes.values()}
    so = SelfObj(cls, {"f": "F", "x": "X", "args": (), "kwargs": {}, "extra": {"w": "W0"}, "batch_size": None, "cached_batch": {}, "cached_file": "file", "name": "n", "prefetch": -1})
    tr = Translator(repo, hooks={"construct": keys, "allow_attr_store": True, "builtin.isinstance": lambda tr_, a_, k_, n_: False}, max_depth=4)
    try:
        ret = tr.call_fn(cp, [], {}, self_obj=so)
        if not isinstance(ret, SelfObj):
            return False
        shared = [a for a in sorted(mut) if isinstance(so.attrs.get(a), (dict, list)) and ret.attrs.get(a) is so.attrs.get(a)]
        lost = [a for a in ("extra",) if a in mut and ret.attrs.get(a) != {"w": "W0"}]
        setter = cls.lookup("__setitem__")
        changed = False
        if setter is not None:
            tr.call_fn(setter, ["w", "W1"], {}, self_obj=ret)
            changed = so.attrs.get("extra") != {"w": "W0"}
    except Unmodelled as e:
        chk.info("L4-copy: %s.copy not interpretable (%s); statement-level rule used" % (cls.name, e))
        return False
    ok = not shared and not lost and not changed
    chk.instance("L4-copy", "%s.copy interpreted: in-place-mutated attributes %s are the copy's own objects, the leaves are carried over, and copy['w'] = W1 leaves the original at W0: %s" % (cls.name, sorted(mut), ok))
    if shared or changed:
        chk.violation("L4-copy", cp.key, "alias:%s" % ",".join(shared or ["extra"]), "copy() hands the original's table(s) %s to the copy: setting a leaf on the copy (data_replace on lazy data) changes the original sample (original leaf after copy['w'] = W1: %s)" % (shared or ["extra"], so.attrs.get("extra")), file=DATA, line=cp.lineno)
    elif lost:
        chk.violation("L4-copy", cp.key, "lost:%s" % ",".join(lost), "copy() does not carry the user-set leaves over: the copy's table is %r" % (ret.attrs.get("extra"),), file=DATA, line=cp.lineno)
    return True


def check_copy_isolation(repo, chk):
    chk.rule("L4-copy", "copy() of a lazy-data class gives the copy its own instance of every attribute the class mutates in place (never the bare self.<attr>): data_replace on the copy cannot change the original")
    mod = repo.mod(DATA)
    n = 0
    for cls in mod.classes.values():
        cp = cls.methods.get("copy")
        if cp is None:
            continue
        mut = inplace_attrs(cls)
        decided = copy_by_interpretation(repo, chk, cls, cp, mut)
        if decided:
            n += len(mut)
            continue
        # name of the new object: the returned name
        rets = [r for r in walk_local(cp.node) if isinstance(r, ast.Return) and r.value is not None]
        if len(rets) != 1 or not isinstance(rets[0].value, ast.Name):
            raise AnalysisError("%s.copy: single `return <name>` expected" % cls.name)
        new = rets[0].value.id
        assigned = {}
        for st in walk_local(cp.node):
            if isinstance(st, ast.Assign):
                for t in st.targets:
                    if isinstance(t, ast.Attribute) and isinstance(t.value, ast.Name) and t.value.id == new:
                        assigned[t.attr] = st
        for attr, (where, line) in sorted(mut.items()):
            st = assigned.get(attr)
            n += 1
            if st is None:
                chk.instance("L4-copy", "%s.copy: `%s` (mutated in place by %s) is not assigned: the copy keeps the fresh object of its constructor" % (cls.name, attr, where.split("::")[1]))
                continue
            v = st.value
            alias = isinstance(v, ast.Attribute) and isinstance(v.value, ast.Name) and v.value.id == "self"
            copied = unwrap_copy(v) is not v or isinstance(v, (ast.Dict, ast.DictComp, ast.ListComp, ast.List)) or (isinstance(v, ast.Call) and norm_text(v.func).split(".")[-1] in ("deepcopy", "dict", "list"))
            chk.instance("L4-copy", "%s.copy: `%s.%s = %s` (attribute mutated in place by %s): %s" % (cls.name, new, attr, norm_text(v), where.split("::")[1], "copy" if copied and not alias else ("ALIAS" if alias else "other")))
            if alias:
                chk.violation("L4-copy", cp.key, "alias:%s" % attr, "copy() assigns `%s.%s = %s`: the copy shares the table that %s mutates in place (line %d), so setting a leaf on the copy (data_replace) changes the original" % (new, attr, norm_text(v), where.split("::")[1], line), file=DATA, line=st.lineno)
            elif not copied:
                raise AnalysisError("%s.copy: `%s.%s = %s` is neither a recognised copy nor the bare attribute" % (cls.name, new, attr, norm_text(v)))
    if n < 2:
        raise AnalysisError("L4-copy: only %d (class, mutated attribute) instances found" % n)
    # data_replace on lazy data goes through copy()
    dr = repo.fn(DATA + "::data_replace")
    uses_copy = any(isinstance(x, ast.Call) and isinstance(x.func, ast.Attribute) and x.func.attr == "copy" for x in walk_local(dr.node))
    chk.instance("L4-copy", "data_replace works on a copy of lazy data (`.copy()` call present): %s" % uses_copy)
    if not uses_copy:
        chk.violation("L4-copy", dr.key, "no-copy", "data_replace no longer copies lazy data before setting the leaf: the caller's sample is modified", file=DATA, line=dr.lineno)


def check_merge_identity(repo, chk):
    """a merged lazy sample is another sample: its on-disk cache identity (cached_file, name) differs from its parts'"""
    from ..model import AnalysisError
    from ..sym import SelfObj, Translator, Unmodelled

    chk.rule("M4-name", "LazyCall.merge interpreted on two lazy samples that share a cache directory: the merged sample's cache identity (cached_file + name, from which as_dataset builds the file name of its tf.data disk cache) differs from that of each part - otherwise the merged data + background sample replays the cache written for the plain data sample (or vice versa), i.e. other events")
    mod = repo.mod(DATA)
    cls = mod.classes.get("LazyCall")
    if cls is None or "merge" not in cls.methods:
        raise AnalysisError("anchor vanished: LazyCall.merge")
    keys = {c.key for c in mod.classes.values()}

    def mk(name, x):
        return SelfObj(cls, {"f": "F", "x": x, "args": (), "kwargs": {}, "extra": {"w": "W_" + name}, "batch_size": None, "cached_batch": {}, "cached_file": "dir/", "name": name, "prefetch": -1})

    a, b = mk("data", "XA"), mk("bg", "XB")
    hooks = {"construct": keys, "allow_attr_store": True, "builtin.isinstance": lambda tr_, a_, k_, n_: False}
    for g in repo.func_by_name.get("data_merge", []):
        hooks[g.key] = lambda tr_, a_, k_, n_: ("merged",) + tuple(str(x) for x in a_)
    try:
        ret = Translator(repo, hooks=hooks, max_depth=4).call_fn(cls.methods["merge"], [b], {}, self_obj=a)
    except Unmodelled as e:
        raise AnalysisError("LazyCall.merge cannot be interpreted: %s" % e)
    if not isinstance(ret, SelfObj):
        raise AnalysisError("LazyCall.merge does not return a lazy sample in the interpretation")
    ident = (ret.attrs.get("cached_file"), ret.attrs.get("name"))
    clash = [p.attrs["name"] for p in (a, b) if (p.attrs["cached_file"], p.attrs["name"]) == ident]
    ok = not clash and isinstance(ident[1], str)
    chk.oblige("M4-name", "merge(data, bg): cache identity %s differs from ('dir/', 'data') and ('dir/', 'bg')" % (ident,), ok)
    if not ok:
        chk.violation("M4-name", cls.methods["merge"].key, "cache-identity", "the merged sample keeps the cache identity %s of its part `%s`: with cached_lazy_call configured, the merged data + background sample and the plain sample read and write the same tf.data cache file, so one of them is served the other's events" % (ident, clash[0] if clash else "?"), file=DATA, line=cls.methods["merge"].lineno)
