"""C16 - parameter constraints survive every sequence of updates (necessary conditions).

History-level invariants over interleavings are not statically decidable; decided
are conditions each operation must satisfy on its own:
  (a) ownership         the bookkeeping cells variables / trainable_vars / same_list /
                        complex_vars / bnd_dic are written only inside tf_pwa/variable.py
  (b) one polar reading rp2xy, xy2rp and the three branches of Variable.__call__ interpret
                        a stored (r, i) pair identically: polar => r cos(i) + i r sin(i),
                        Cartesian => r + i*i, with r bound to the `...r` component and the
                        angle to the `...i` component (E6 on the extracted expressions)
  (c) no dropped result an expression statement in variable.py whose value is a call to an
                        effect-free function discards a computed value (std_polar)
  (d) bound transforms  the default Bound formulas map the real line into the bound
                        (interval reasoning on sin in [-1,1], sqrt(x^2+1) >= 1) and the
                        branch table picks the formula that mentions only defined bounds
"""
import ast
import os

import sympy as sp

from ..model import AnalysisError, Repo, norm_text, walk_local, walk_stmt
from ..sym import Translator, Unmodelled, equal

VAR = "tf_pwa/variable.py"
CELLS = {"variables", "trainable_vars", "same_list", "complex_vars", "bnd_dic"}
MUTATORS = {"append", "extend", "remove", "pop", "insert", "clear", "update", "sort", "setdefault", "__setitem__", "__delitem__", "popitem"}


def cell_writes(tree):
    out = []
    for n in ast.walk(tree):
        if isinstance(n, (ast.Assign, ast.AugAssign, ast.Delete, ast.AnnAssign)):
            tg = n.targets if isinstance(n, (ast.Assign, ast.Delete)) else [n.target]
            for t in tg:
                for x in ast.walk(t):
                    if isinstance(x, ast.Attribute) and x.attr in CELLS and isinstance(x.ctx, (ast.Store, ast.Del)) and not (isinstance(x.value, ast.Name) and x.value.id == "self" and False):
                        out.append((x.attr, n))
                    if isinstance(x, ast.Subscript) and isinstance(x.ctx, (ast.Store, ast.Del)) and isinstance(x.value, ast.Attribute) and x.value.attr in CELLS:
                        out.append((x.value.attr, n))
        if isinstance(n, ast.Call) and isinstance(n.func, ast.Attribute) and n.func.attr in MUTATORS and isinstance(n.func.value, ast.Attribute) and n.func.value.attr in CELLS:
            out.append((n.func.value.attr, n))
    return out


def clause_a(repo, chk):
    chk.rule("A-own", "who-may-write: VarsManager's bookkeeping cells are stored / mutated only in tf_pwa/variable.py")
    n_in = len(cell_writes(repo.mod(VAR).tree))
    chk.instance("A-own", "%d writes of %s inside %s" % (n_in, sorted(CELLS), VAR))
    if n_in < 20:
        raise AnalysisError("only %d bookkeeping writes found inside variable.py" % n_in)
    for rel, m in sorted(repo.mods.items()):
        if rel == VAR:
            continue
        for cell, n in cell_writes(m.tree):
            # `self.variables = ...` of an unrelated class that merely has an attribute of that name
            # is still a write through a VarsManager alias unless the receiver is `self` of a class
            # that defines the attribute itself
            recv_self_own = False
            for x in ast.walk(n):
                if isinstance(x, ast.Attribute) and x.attr == cell and isinstance(x.value, ast.Name) and x.value.id == "self":
                    recv_self_own = True
            if recv_self_own:
                chk.info("%s:%d %s stores its own attribute `%s` (not a VarsManager)" % (rel, n.lineno, norm_text(n)[:60], cell))
                continue
            chk.violation("A-own", rel, "%s:%s" % (cell, norm_text(n)[:80]), "bookkeeping cell `%s` of the parameter manager is modified outside tf_pwa/variable.py: `%s`" % (cell, norm_text(n)[:100]), file=rel, line=n.lineno)
    # positive fixture
    here = os.path.join(os.path.dirname(os.path.dirname(os.path.abspath(__file__))), "fixtures", "c16")
    fr = Repo(here)
    got = len(cell_writes(fr.mods["tf_pwa/__init__.py"].tree))
    if got != 4:
        raise AnalysisError("C16 fixture: ownership rule matched %d of 4 planted writes" % got)
    chk.instance("A-own", "fixture: 4 planted foreign writes matched", nontrivial=False)


# --------------------------------------------------------------------------- (b)
def clause_b(repo, chk):
    chk.rule("B-polar", "all readers/writers of a stored complex pair use one convention: polar r*cos(phi) + i*r*sin(phi) with r<-`..r`, phi<-`..i`; Cartesian r + i*phi; xy2rp is (sqrt(x^2+y^2), atan2(y,x))")
    R, PH, dR, dPH, ch = sp.symbols("R PH dR dPH charge", real=True)
    roles = {"r": R, "i": PH, "deltar": dR, "deltai": dPH}
    # 1. suffix order of the name lists
    init = repo.fn("%s::Variable.init_name_list" % VAR)
    orders = []
    for n in ast.walk(init.node):
        if isinstance(n, ast.List) and n.elts and all(isinstance(e, ast.BinOp) and isinstance(e.op, ast.Add) and isinstance(e.right, ast.Constant) for e in n.elts):
            orders.append([e.right.value for e in n.elts])
    orders_by_len = {len(o): o for o in orders}
    if orders_by_len.get(2) != ["r", "i"] or 4 not in orders_by_len:
        raise AnalysisError("Variable.init_name_list: suffix lists changed: %s" % orders)
    chk.instance("B-polar", "name suffix orders: %s" % sorted(orders_by_len.values()))

    call = repo.fn("%s::Variable.__call__" % VAR)
    from ..sym import SelfObj

    vmc = repo.cls("%s::VarsManager" % VAR)

    def stack_hook(tr, d, args, kwargs, n):
        last = d.split(".")[-1]
        if last == "stack" and isinstance(args[0], (list, tuple)) and len(args[0]) == 1:
            return args[0][0]
        if last == "reshape":
            return args[0]
        return NotImplemented

    def read_hook(tr, args, kwargs, n):
        nm = args[1]
        for suf in ("deltar", "deltai", "r", "i"):
            if nm.endswith(suf):
                return roles[suf]
        raise Unmodelled("read of %s" % nm)

    def evaluate(attrs, flag):
        """Variable.__call__ interpreted as a whole on a one-element variable; `flag` is the polar flag of its complex pair"""
        tr = Translator(repo, hooks={"numeric_call": stack_hook, vmc.methods["read"].key: read_hook}, max_depth=2)
        base = attrs["all_name_list"][0]
        for suf in ("deltar", "deltai", "r", "i"):
            if base.endswith(suf):
                base = base[: -len(suf)]
                break
        vm = SelfObj(vmc, {"complex_vars": {base: flag} if flag is not None else {}})
        so = SelfObj(call.cls, dict(attrs, vm=vm))
        try:
            return tr.call_fn(call, [ch], self_obj=so)
        except Unmodelled as e:
            raise AnalysisError("Variable.__call__ not interpretable (%s): %s" % (attrs.get("_label"), e))

    def require(label, got, want, construct):
        import numpy as _np
        if isinstance(got, _np.ndarray) and got.size == 1:
            got = got.reshape(-1)[0]  # a one-component variable evaluated element-wise
        elif isinstance(got, (list, tuple)) and len(got) == 1:
            got = got[0]
        ok, detail = equal(sp.sympify(got), sp.sympify(want))
        if ok is None:
            raise AnalysisError("B-polar normaliser too weak at %s: %s" % (label, detail))
        chk.instance("B-polar", "%s: %s == %s -> %s" % (label, got, want, "ok" if ok else "FAIL"))
        if not ok:
            chk.violation("B-polar", call.key, construct, "%s computes %s but the common convention requires %s (%s)" % (label, got, want, detail), file=VAR, line=call.lineno)

    o4 = orders_by_len[4]
    rho, phi = R + ch * dR, PH + ch * dPH
    cp = {"shape": [sp.Integer(1)], "cp_effect": True, "cplx": True, "name": "A", "all_name_list": ["A_0" + s_ for s_ in o4], "_label": "cp_effect"}
    require("Variable.__call__[cp_effect] polar", evaluate(cp, True), rho * sp.cos(phi) + sp.I * rho * sp.sin(phi), "call:cp:polar")
    require("Variable.__call__[cp_effect] cartesian", evaluate(cp, False), rho + sp.I * phi, "call:cp:rect")
    shaped = {"shape": [sp.Integer(1)], "cp_effect": False, "cplx": True, "name": "A", "all_name_list": ["A_0" + s_ for s_ in orders_by_len[2]], "_label": "shaped complex"}
    require("Variable.__call__[shape,cplx] polar", evaluate(shaped, True), R * sp.cos(PH) + sp.I * R * sp.sin(PH), "call:cplx:polar")
    require("Variable.__call__[shape,cplx] cartesian", evaluate(shaped, False), R + sp.I * PH, "call:cplx:rect")
    require("Variable.__call__[shape,cplx] flag missing -> cartesian", evaluate(shaped, None), R + sp.I * PH, "call:cplx:default")
    scalar = {"shape": [], "cp_effect": False, "cplx": True, "name": "A", "all_name_list": ["A" + s_ for s_ in orders_by_len[2]], "_label": "scalar complex"}
    require("Variable.__call__[scalar] polar", evaluate(scalar, True), R * sp.cos(PH) + sp.I * R * sp.sin(PH), "call:scalar:polar")
    require("Variable.__call__[scalar] cartesian", evaluate(scalar, False), R + sp.I * PH, "call:scalar:rect")
    real = {"shape": [], "cp_effect": False, "cplx": False, "name": "A", "all_name_list": ["Ar"], "_label": "scalar real"}
    require("Variable.__call__[scalar, real] is the stored value", evaluate(real, None), R, "call:scalar:real")
    # rp2xy / xy2rp: the conversion formulas and the flags are decided by the interpretation of clause F-tie
    chk.require_count("B-polar", 9)


# --------------------------------------------------------------------------- (c)
PURE_HEADS = {"np", "numpy", "math", "tf", "sy", "sym", "sympy"}
IMPURE_ATTRS = {"assign", "assign_add", "assign_sub", "append", "extend", "remove", "pop", "insert", "update", "clear", "sort",
                "write", "save", "seed", "setdefault", "warn", "add", "discard"}


def pure_functions(repo, mod):
    """fix-point: functions of `mod` with no stores to attributes/subscripts/globals and only pure calls"""
    fns = list(mod.funcs.values())
    pure = set()
    changed = True

    def is_pure(f):
        for n in walk_local(f.node):
            if isinstance(n, (ast.Global, ast.Nonlocal, ast.Yield, ast.YieldFrom, ast.Raise, ast.With, ast.Delete, ast.Import, ast.ImportFrom)):
                return False
            if isinstance(n, (ast.Attribute, ast.Subscript)) and isinstance(n.ctx, (ast.Store, ast.Del)):
                return False
            if isinstance(n, ast.Call):
                fnn = n.func
                if isinstance(fnn, ast.Name):
                    if fnn.id in ("print", "open", "exec", "eval", "setattr", "input"):
                        return False
                    g = mod.funcs.get(fnn.id)
                    if g is not None and g not in pure:
                        return False
                    if g is None and fnn.id not in ("abs", "float", "int", "len", "min", "max", "sum", "range", "list", "tuple", "complex", "round", "sorted", "zip", "enumerate", "isinstance", "str", "bool"):
                        return False
                elif isinstance(fnn, ast.Attribute):
                    if fnn.attr in IMPURE_ATTRS:
                        return False
                    head = norm_text(fnn).split(".")[0]
                    if head in PURE_HEADS:
                        continue
                    if head == "self" and f.cls is not None:
                        g = f.cls.lookup(fnn.attr)
                        if g is None or g not in pure:
                            return False
                        continue
                    return False
                else:
                    return False
        # must return a value
        return any(isinstance(n, ast.Return) and n.value is not None for n in walk_local(f.node))

    while changed:
        changed = False
        for f in fns:
            if f not in pure and is_pure(f):
                pure.add(f)
                changed = True
    return pure


def dropped_results(repo, mod):
    pure = pure_functions(repo, mod)
    out = []
    for f in mod.funcs.values():
        for n in walk_local(f.node):
            if isinstance(n, ast.Expr) and isinstance(n.value, ast.Call):
                c = n.value
                g = None
                if isinstance(c.func, ast.Name):
                    g = mod.funcs.get(c.func.id)
                elif isinstance(c.func, ast.Attribute) and isinstance(c.func.value, ast.Name) and c.func.value.id in ("self", "cls") and f.cls is not None:
                    g = f.cls.lookup(c.func.attr)
                elif isinstance(c.func, ast.Attribute) and isinstance(c.func.value, ast.Name) and f.cls is not None and c.func.value.id == f.cls.name:
                    g = f.cls.lookup(c.func.attr)
                if g is not None and g in pure:
                    out.append((f, n, g))
    return out, pure


def clause_c(repo, chk):
    chk.rule("C-drop", "no expression statement in tf_pwa/variable.py discards the value of an effect-free function (the computed standardised value must be stored)")
    mod = repo.mod(VAR)
    hits, pure = dropped_results(repo, mod)
    chk.instance("C-drop", "%d effect-free value-returning functions in %s (%s ...); %d discarded calls" % (len(pure), VAR, ", ".join(sorted(p.qual for p in pure))[:120], len(hits)))
    if not any(p.qual == "VarsManager._std_polar_angle" for p in pure):
        raise AnalysisError("VarsManager._std_polar_angle is no longer recognised as an effect-free function")
    for f, n, g in hits:
        chk.violation("C-drop", f.key, "discard:%s" % g.qual, "`%s` computes a value with the effect-free function %s and throws it away; the caller's state is not updated" % (norm_text(n), g.qual), file=VAR, line=n.lineno)
    # std_polar must write the wrapped angle back
    sp_fn = repo.fn("%s::VarsManager.std_polar" % VAR)
    uses = [n for n in walk_local(sp_fn.node) if isinstance(n, ast.Call) and isinstance(n.func, ast.Attribute) and n.func.attr == "_std_polar_angle"]
    stored = False
    for n in walk_local(sp_fn.node):
        if isinstance(n, ast.Call) and isinstance(n.func, ast.Attribute) and n.func.attr == "assign":
            assign_args = list(n.args) + [k_.value for k_ in n.keywords]   # p.assign(x) or p.assign(value=x)
            if any(isinstance(x, ast.Call) and isinstance(x.func, ast.Attribute) and x.func.attr == "_std_polar_angle" for a in assign_args for x in ast.walk(a)):
                stored = True
            # or via a local
            for a in assign_args:
                if isinstance(a, ast.Name):
                    for m in walk_local(sp_fn.node):
                        if isinstance(m, ast.Assign) and isinstance(m.targets[0], ast.Name) and m.targets[0].id == a.id and any(isinstance(x, ast.Call) and isinstance(x.func, ast.Attribute) and x.func.attr == "_std_polar_angle" for x in ast.walk(m.value)):
                            stored = True
    chk.instance("C-drop", "std_polar: wrapped angle from _std_polar_angle is assigned back to the phase variable: %s" % stored)
    if uses and not stored and not hits:
        chk.violation("C-drop", sp_fn.key, "angle-not-stored", "std_polar calls _std_polar_angle but never assigns the wrapped angle", file=VAR, line=sp_fn.lineno)
    if not uses:
        chk.violation("C-drop", sp_fn.key, "angle-not-wrapped", "std_polar no longer wraps the phase into [-pi, pi)", file=VAR, line=sp_fn.lineno)
    # the wrap itself: (p - a) % (b - a) + a
    w = repo.fn("%s::VarsManager._std_polar_angle" % VAR)
    from ..sym import Translator as _T2, Unmodelled as _U2

    P_, A_, B_ = sp.symbols("P_ A_ B_", real=True)
    try:
        val = _T2(repo, hooks={"binop:Mod": lambda tr_, x_, y_: sp.Mod(x_, y_)}, max_depth=1).call_fn(w, [P_, A_, B_])
    except _U2 as e:
        raise AnalysisError("_std_polar_angle not translatable: %s" % e)
    want_w = sp.Mod(P_ - A_, B_ - A_) + A_
    ok = sp.simplify(sp.sympify(val) - want_w) == 0 or all(abs(complex(sp.N((sp.sympify(val) - want_w).subs({P_: pv, A_: -sp.pi, B_: sp.pi})))) < 1e-12 for pv in (sp.Rational(-47, 10), sp.Rational(-1, 3), sp.Rational(22, 7), sp.Rational(71, 10), sp.Integer(-13)))
    r = [n for n in walk_local(w.node) if isinstance(n, ast.Return)][0].value
    d = w.defaults()
    dflt_ok = norm_text(d.get("a")) in ("-np.pi", "-math.pi") and norm_text(d.get("b")) in ("np.pi", "math.pi")
    chk.instance("C-drop", "_std_polar_angle = (p - a) %% (b - a) + a with a=-pi, b=pi: %s" % (ok and dflt_ok))
    if not (ok and dflt_ok):
        chk.violation("C-drop", w.key, "wrap-formula", "the wrap into [a, b) must be (p - a) %% (b - a) + a with a=-pi, b=pi; found %s, defaults %s" % (norm_text(r), {k: norm_text(v) for k, v in d.items()}), file=VAR, line=w.lineno)
    # fixture
    here = os.path.join(os.path.dirname(os.path.dirname(os.path.abspath(__file__))), "fixtures", "c16")
    fr = Repo(here)
    fh, fp = dropped_results(fr, fr.mods["tf_pwa/__init__.py"])
    if [f.qual for f, _, _ in fh] != ["Other.dropped"]:
        raise AnalysisError("C16 fixture: dropped-result rule found %s" % [f.qual for f, _, _ in fh])
    chk.instance("C-drop", "fixture: planted discarded pure call matched, kept twin silent", nontrivial=False)


# --------------------------------------------------------------------------- (d)
def clause_d(repo, chk):
    chk.rule("D-bound", "default Bound formulas map R into the bound: two-sided -> [a,b] (sin in [-1,1]), lower -> [a,inf), upper -> (-inf,b] (sqrt(x^2+1) >= 1); each formula mentions only the bounds that exist")
    init = repo.fn("%s::Bound.__init__" % VAR)
    # Bound.__init__ interpreted for the four (a given?, b given?) combinations (numbers 1 < 2): the default formula text
    from ..sym import Raised, SelfObj, Translator, Unmodelled

    bcls = repo.cls("%s::Bound" % VAR)
    table = {}

    def run_init(av, bv):
        tr = Translator(repo, hooks={"allow_attr_store": True, "allow_raise": True, bcls.methods["get_func"].key: lambda tr_, a_, k_, n_: (None, None, None, None)}, max_depth=2)
        so = SelfObj(bcls, {})
        tr.call_fn(init, [av, bv], self_obj=so)
        return so

    for ca, av in ((None, None), ("set", sp.Integer(1))):
        for cb, bv in ((None, None), ("set", sp.Integer(2))):
            try:
                so = run_init(av, bv)
            except (Unmodelled, Raised) as e:
                raise AnalysisError("Bound.__init__ not interpretable for a=%s, b=%s: %s" % (av, bv, e))
            if not isinstance(so.attrs.get("func"), str):
                raise AnalysisError("Bound.__init__(a=%s, b=%s) does not set a formula text: %r" % (av, bv, so.attrs.get("func")))
            table[(ca, cb)] = so.attrs["func"]
    # a limit of exactly 0 is a limit: the transform chosen for (0, None), (None, 0), (0, 2), (-2, 0) must be the one
    # chosen for non-zero limits of the same kind
    for av, bv, kind in ((sp.Integer(0), None, ("set", None)), (None, sp.Integer(0), (None, "set")), (sp.Integer(0), sp.Integer(2), ("set", "set")), (sp.Integer(-2), sp.Integer(0), ("set", "set"))):
        try:
            so0 = run_init(av, bv)
        except (Unmodelled, Raised) as e:
            raise AnalysisError("Bound.__init__ not interpretable for a=%s, b=%s: %s" % (av, bv, e))
        same = so0.attrs.get("func") == table[kind]
        chk.instance("D-bound", "bound(a=%s, b=%s) uses the transform of its kind `%s`: %s" % (av, bv, table[kind], same))
        if not same:
            chk.violation("D-bound", init.key, "zero-limit:a=%s,b=%s" % (av, bv), "Bound(%s, %s) chooses the transform `%s` instead of `%s`: a limit of exactly 0 is treated as absent, so a transform-based minimiser can cross it" % (av, bv, so0.attrs.get("func"), table[kind]), file=VAR, line=init.lineno)
    # get_func: the limits that enter the transform are the limits given - zero included
    gf = bcls.methods["get_func"]

    def sympy_calls(tr_, d_, args_, kwargs_, n_):
        last_ = d_.split(".")[-1]
        if last_ == "sympify":
            loc_ = kwargs_.get("locals")
            if isinstance(loc_, dict):
                return sp.sympify(args_[0], locals={str(k_): sp.sympify(v_) for k_, v_ in loc_.items()})
            return sp.sympify(args_[0])
        if last_ == "diff":
            return sp.diff(*args_)
        if last_ == "solve":
            return [sp.Symbol("INV")]
        return NotImplemented

    def sympy_methods(tr_, obj_, name_, args_, kwargs_):
        if name_ == "diff":
            return sp.diff(obj_, *args_)
        if name_ == "subs":
            return obj_.subs(*[{sp.Symbol(str(k_)): sp.sympify(v_) for k_, v_ in a_.items()} if isinstance(a_, dict) else a_ for a_ in args_])
        return NotImplemented

    for av, bv in ((sp.Integer(1), sp.Integer(2)), (sp.Integer(0), sp.Integer(2)), (sp.Integer(-2), sp.Integer(0)), (sp.Integer(0), None), (None, sp.Integer(0)), (sp.Float(0.0), sp.Float(2.5)), (None, None)):
        kind = ("set" if av is not None else None, "set" if bv is not None else None)
        so1 = SelfObj(bcls, {"lower": av, "upper": bv, "func": table[kind]})
        tr1 = Translator(repo, hooks={"allow_attr_store": True, "numeric_call": sympy_calls, "sym_method": sympy_methods}, max_depth=2)
        try:
            got = tr1.call_fn(gf, [], self_obj=so1)
        except Unmodelled as e:
            raise AnalysisError("Bound.get_func not interpretable for a=%s, b=%s: %s" % (av, bv, e))
        f_got = got[0] if isinstance(got, tuple) and got else None
        sub = {}
        if av is not None:
            sub[sp.Symbol("a")] = av
        if bv is not None:
            sub[sp.Symbol("b")] = bv
        f_want = sp.sympify(table[kind]).subs(sub)
        try:
            same = f_got is not None and sp.simplify(sp.sympify(f_got) - f_want) == 0
        except (TypeError, sp.SympifyError):
            same = False
        chk.instance("D-bound", "Bound(%s, %s).get_func substitutes the given limits into `%s`: %s" % (av, bv, table[kind], same))
        if not same:
            chk.violation("D-bound", gf.key, "limits:a=%s,b=%s" % (av, bv), "Bound(%s, %s).get_func builds the transform %s, expected %s: a limit of exactly 0 is replaced by the `no limit` stand-in, so the fit coordinate maps outside the bound (and the inverse / slope belong to another interval)" % (av, bv, f_got, f_want), file=VAR, line=gf.lineno)
    # a > b must be rejected
    try:
        run_init(sp.Integer(2), sp.Integer(1))
        guard_by_interpretation = False
    except Raised:
        guard_by_interpretation = True
    except Unmodelled as e:
        raise AnalysisError("Bound.__init__ not interpretable for a > b: %s" % e)
    x, a, b, s, t = sp.symbols("x a b s t", real=True)
    for (ca, cb), text in sorted(table.items(), key=str):
        f = sp.sympify(text, locals={"x": x, "a": a, "b": b})
        used = {str(v) for v in f.free_symbols} - {"x"}
        allowed = {n for n, c in (("a", ca), ("b", cb)) if c == "set"}
        ok_names = used <= allowed
        if ca == "set" and cb == "set":
            g = f.subs(sp.sin(x), s)
            lin = sp.diff(g, s)
            ok = (not g.has(x)) and sp.simplify(g.subs(s, -1) - a) == 0 and sp.simplify(g.subs(s, 1) - b) == 0 and sp.simplify(lin - (b - a) / 2) == 0 and sp.diff(g, s, 2) == 0
            desc = "f(sin=-1)=a, f(sin=1)=b, linear in sin with slope (b-a)/2 >= 0"
        elif ca == "set":
            g = f.subs(sp.sqrt(x ** 2 + 1), t)
            ok = (not g.has(x)) and sp.simplify(g.subs(t, 1) - a) == 0 and sp.simplify(sp.diff(g, t) - 1) == 0
            desc = "f = a + (sqrt(x^2+1) - 1) >= a"
        elif cb == "set":
            g = f.subs(sp.sqrt(x ** 2 + 1), t)
            ok = (not g.has(x)) and sp.simplify(g.subs(t, 1) - b) == 0 and sp.simplify(sp.diff(g, t) + 1) == 0
            desc = "f = b - (sqrt(x^2+1) - 1) <= b"
        else:
            ok = sp.simplify(f - x) == 0
            desc = "identity"
        chk.instance("D-bound", "bound(a=%s,b=%s): %s -> %s, names ok=%s: %s" % (ca, cb, text, desc, ok_names, bool(ok)))
        if not (ok and ok_names):
            chk.violation("D-bound", init.key, "formula:a=%s,b=%s" % (ca, cb), "default transform `%s` for a=%s, b=%s does not map the real line into the bound (%s) or mentions an undefined bound" % (text, ca, cb, desc), file=VAR, line=init.lineno)
    # a > b is rejected
    guard = guard_by_interpretation
    chk.instance("D-bound", "Bound.__init__ rejects a > b: %s" % guard)
    if not guard:
        chk.violation("D-bound", init.key, "order-guard", "Bound no longer rejects lower > upper (the two-sided transform would be decreasing)", file=VAR, line=init.lineno)
    chk.require_count("D-bound", 12)


# --------------------------------------------------------------------------- (e)
def clause_e(repo, chk):
    """bulk re-randomisation never touches a fixed parameter"""
    chk.rule("E-fixed", "VarsManager.refresh_vars interpreted on a small manager: only names in trainable_vars are assigned - also when the tensor of a fixed name carries trainable=True (a fixed parameter tied to a free head shares the head's tensor): a fixed parameter changes only when explicitly assigned")
    fn = repo.fn("%s::VarsManager.refresh_vars" % VAR)
    # interpreted on a small manager: trainable and fixed variables in every group the function treats (complex pair in
    # polar and Cartesian form, initial value as (mu, sigma) / as a number / absent, bounded on either side) - the set of
    # variables that get assigned must be a subset of the trainable ones, and every trainable one with a rule is drawn
    import sympy as sp

    from ..sym import SelfObj, Translator, Unmodelled

    names = ["Ar", "Ai", "Br", "Bi", "Cr", "Ci", "Dr", "Di", "x", "y", "u", "v", "w", "z", "q"]
    var = {n: sp.Symbol("VAR_" + n, real=True) for n in names}
    back = {v: k for k, v in var.items()}
    trainable = ["Ar", "Bi", "Ci", "Dr", "x", "u", "w", "q"]  # Ai, Br, Cr, Di, y, v, z are fixed: every branch sees a fixed and a trainable component
    init_val = {"x": (sp.Integer(1), sp.Rational(1, 10)), "y": (sp.Integer(2), sp.Rational(1, 10)), "u": sp.Rational(1, 2), "v": sp.Rational(3, 2)}
    bounds = {"x": (sp.Integer(0), sp.Integer(2)), "w": (sp.Integer(0), sp.Integer(3)), "z": (sp.Integer(0), sp.Integer(3)), "q": (sp.Integer(1), None), "y": (None, sp.Integer(5))}
    assigned = []

    def sym_method(tr, obj, mname, args, kwargs):
        if mname in ("assign", "assign_add", "assign_sub") and obj in back:
            assigned.append(back[obj])
            return None
        return NotImplemented

    def numeric(tr, d, args, kwargs, n):
        if d.split(".")[-1] in ("uniform", "normal", "chisquare"):
            return sp.Symbol("rnd%d" % len(assigned), positive=True)
        return NotImplemented

    # the `trainable` flag of the underlying tensor: set for the trainable names, and also for a fixed name that is tied
    # to a free head (the tie shares one tensor, whose flag is the head's) - Ai and Br here.  Only trainable_vars says
    # which names the manager may change
    flag_true = set(trainable) | {"Ai", "Br"}

    def attribute(tr_, obj, name, node):
        if obj in back and name in ("trainable", "_trainable"):
            return back[obj] in flag_true
        raise Unmodelled("attribute %s of %r" % (name, obj))

    tr = Translator(repo, hooks={"sym_method": sym_method, "numeric_call": numeric, "allow_attr_store": True, "attribute": attribute}, where_policy=lambda cond, t: True, max_depth=3)
    vm = repo.cls("%s::VarsManager" % VAR)
    so = SelfObj(vm, {"variables": dict(var), "trainable_vars": list(trainable), "complex_vars": {"A": True, "B": False, "C": True, "D": False}, "bnd_dic": {}, "init_val": {}, "dtype": "float64"})
    try:
        tr.call_fn(fn, [dict(init_val), dict(bounds)], self_obj=so)
    except Unmodelled as e:
        raise AnalysisError("refresh_vars not interpretable on the small manager: %s" % e)
    fixed_hit = sorted(set(assigned) - set(trainable))
    chk.instance("E-fixed", "refresh_vars interpreted on 15 variables (8 trainable, 7 fixed; complex pairs, (mu, sigma) / number / no initial value, bounds): assigned %s, fixed ones among them: %s" % (sorted(set(assigned)), fixed_hit or "none"))
    for nme in fixed_hit:
        chk.violation("E-fixed", fn.key, "unguarded:%s" % nme, "refresh_vars assigns the fixed variable `%s` (interpreted on a manager where it is not in trainable_vars): a fixed parameter is silently re-randomised" % nme, file=VAR, line=fn.lineno)
    missing = sorted(set(trainable) - set(assigned))
    if len(set(assigned)) < 4:
        raise AnalysisError("refresh_vars: only %s assigned in the interpretation" % sorted(set(assigned)))


# --------------------------------------------------------------------------- (f)
def clause_f(repo, chk):
    """coordinate switches flag every member of a tie group; interpreted on a small manager"""
    import sympy as sp

    from ..sym import SelfObj, Translator, Unmodelled, equal

    chk.rule("F-tie", "rp2xy / xy2rp, interpreted on a manager with the tie groups [A, B, C] and [D, E] (called for the head, a middle member and a single variable): the pair is rewritten as (r cos phi, r sin phi) resp. (sqrt(x^2+y^2), atan2(y, x)) and the polar flag of every member of the tie group of `name` - and of no other variable - takes the new value")
    vm = repo.cls("%s::VarsManager" % VAR)
    for fname, flag in (("rp2xy", False), ("xy2rp", True)):
        fn = vm.methods.get(fname)
        if fn is None:
            raise AnalysisError("anchor vanished: VarsManager.%s" % fname)
        bad = []
        for name in ("A", "B", "D", "F"):
            cv = {k: (not flag) for k in "ABCDEF"}
            var = {}
            for k in "ABCDEF":
                var[k + "r"] = sp.Symbol("V_%sr" % k, positive=True)
                var[k + "i"] = sp.Symbol("V_%si" % k, real=True)
            back = {v: k for k, v in var.items()}
            assigned = {}

            def sym_method(tr, obj, mname, args, kwargs, assigned=assigned, back=back):
                if mname == "assign" and obj in back:
                    assigned[back[obj]] = args[0]
                    return None
                return NotImplemented

            tr = Translator(repo, hooks={"sym_method": sym_method, "allow_attr_store": True}, max_depth=2)
            so = SelfObj(vm, {"variables": dict(var), "complex_vars": cv, "same_list": [["A", "B", "C"], ["D", "E"]]})
            try:
                tr.call_fn(fn, [name], self_obj=so)
            except Unmodelled as e:
                raise AnalysisError("VarsManager.%s not interpretable on the small manager: %s" % (fname, e))
            group = {"A": "ABC", "B": "ABC", "D": "DE", "F": "F"}[name]
            want = {k: (flag if k in group else (not flag)) for k in "ABCDEF"}
            got = {k: cv[k] for k in "ABCDEF"}
            if got != want:
                bad.append(("tie-flag", "%s(%r): polar flags become %s, expected %s (tie groups [A,B,C], [D,E])" % (fname, name, got, want)))
            r0, p0 = var[name + "r"], var[name + "i"]
            if fname == "rp2xy":
                exp = {name + "r": r0 * sp.cos(p0), name + "i": r0 * sp.sin(p0)}
            else:
                exp = {name + "r": sp.sqrt(r0 ** 2 + p0 ** 2), name + "i": sp.atan2(p0, r0)}
            if set(assigned) != set(exp) or any(equal(sp.sympify(assigned[k]), exp[k])[0] is not True for k in exp if k in assigned):
                bad.append(("convert", "%s(%r): stores %s, expected %s" % (fname, name, {k: str(v) for k, v in assigned.items()}, {k: str(v) for k, v in exp.items()})))
        chk.instance("F-tie", "%s on 4 names: flags of the whole tie group and only of it, pair converted: %s" % (fname, not bad))
        seen = set()
        for kind, msg in bad:
            if kind in seen:
                continue
            seen.add(kind)
            chk.violation("F-tie", fn.key, kind, msg + (": a tied variable keeps the old flag and is read in the wrong coordinate system" if kind == "tie-flag" else ""), file=VAR, line=fn.lineno)
    chk.require_count("F-tie", 2)


# --------------------------------------------------------------------------- (g), (h): round-3 seeds
def clause_g(repo, chk):
    """remove_bound() removes every bound - also the bound of a tied, non-head variable"""
    from ..sym import SelfObj, Translator, Unmodelled

    chk.rule("G-unbound", "remove_bound(), interpreted on a manager with bounds on an untied variable, on the head and on a non-head member of a tie group and on a name that is no variable: bnd_dic is empty afterwards and the removed bounds are returned")
    vm = repo.cls("%s::VarsManager" % VAR)
    fn = vm.methods.get("remove_bound")
    if fn is None or "_remove_bound" not in vm.methods:
        raise AnalysisError("anchor vanished: VarsManager.remove_bound / _remove_bound")
    import sympy as sp
    var = {k: sp.Symbol("V_" + k, real=True) for k in ("a", "b", "c", "u")}
    bnd = {"u": "bound-u", "a": "bound-a", "c": "bound-c", "ghost": "bound-ghost"}
    tr = Translator(repo, hooks={"allow_attr_store": True, vm.methods["get"].key: lambda tr_, a_, k_, n_: sp.Symbol("value")}, max_depth=3)
    so = SelfObj(vm, {"variables": dict(var), "bnd_dic": dict(bnd), "same_list": [["a", "b", "c"]], "trainable_vars": ["a", "u"], "pre_trans": {}})
    try:
        ret = tr.call_fn(fn, [], self_obj=so)
    except Unmodelled as e:
        raise AnalysisError("VarsManager.remove_bound not interpretable on the small manager: %s" % e)
    left = sorted(so.attrs["bnd_dic"])
    ok = not left and ret == bnd
    chk.oblige("G-unbound", "remove_bound on {u, head a, tied c, ghost}: bounds left %s, returned %s" % (left or "none", sorted(ret) if isinstance(ret, dict) else ret), ok)
    if left:
        chk.violation("G-unbound", vm.methods["_remove_bound"].key, "left:" + ",".join(left), "after remove_bound() the bound(s) of %s are still in bnd_dic (tie group [a, b, c], bounds on u, a, c and a non-variable): a stale bound keeps transforming the parameter in every later read / fit" % left, file=VAR, line=vm.methods["_remove_bound"].lineno)
    elif ret != bnd:
        chk.violation("G-unbound", fn.key, "returned", "remove_bound() returns %r instead of the removed bounds (callers restore them after the fit)" % (ret,), file=VAR, line=fn.lineno)


def clause_setbound(repo, chk):
    """set_bound installs the requested range, also over an existing one (shared with C08: every fit driver calls it)"""
    import sympy as sp

    from ..sym import SelfObj, Translator, Unmodelled
    chk.rule("G-bound", "set_bound({name: (lo, hi)}), interpreted on a manager that already holds a bound for one of the names, for overwrite False and True: afterwards bnd_dic[name] is the Bound built from the requested (lo, hi) for every name, untouched for others (a stale range would be used by every later fit)")
    vm = repo.cls("%s::VarsManager" % VAR)
    fn = vm.methods.get("set_bound")
    bcls = repo.cls("%s::Bound" % VAR)
    if fn is None:
        raise AnalysisError("anchor vanished: VarsManager.set_bound")
    lo1, hi1, lo2, hi2 = sp.symbols("lo1 hi1 lo2 hi2", real=True)
    for overwrite in (False, True):
        so = SelfObj(vm, {"variables": {"a": sp.Symbol("Va"), "b": sp.Symbol("Vb"), "c": sp.Symbol("Vc")}, "bnd_dic": {"a": ("Bound", "old-a"), "c": ("Bound", "old-c")}, "same_list": [["b", "c"]], "trainable_vars": ["a", "b"]})
        hooks = {bcls.key: lambda tr_, a_, k_, n_: ("Bound", (tuple(a_) + tuple(k_[x] for x in ("a", "b") if x in k_))[:2]), "allow_attr_store": True, vm.methods["get"].key: lambda tr_, a_, k_, n_: sp.Symbol("value")}
        tr = Translator(repo, hooks=hooks, max_depth=2)
        try:
            tr.call_fn(fn, [{"a": (lo1, hi1), "b": (lo2, hi2)}], {"overwrite": overwrite}, self_obj=so)
        except Unmodelled as e:
            raise AnalysisError("VarsManager.set_bound not interpretable on the small manager: %s" % e)
        got = so.attrs["bnd_dic"]
        want = {"a": ("Bound", (lo1, hi1)), "b": ("Bound", (lo2, hi2)), "c": ("Bound", "old-c")}
        ok = got == want
        chk.oblige("G-bound", "set_bound({a: (lo1, hi1), b: (lo2, hi2)}, overwrite=%s) with an old bound on a: a and b carry the requested ranges, c keeps its own" % overwrite, ok)
        if not ok:
            stale = [k for k in ("a", "b") if got.get(k) != want[k]]
            chk.violation("G-bound", fn.key, "installed:overwrite=%s" % overwrite, "after set_bound(..., overwrite=%s) the bound table is %s: %s do(es) not carry the requested range - a fit that asks for a new range keeps fitting inside the old one and can return a point outside the requested bounds" % (overwrite, got, stale or sorted(set(got) ^ set(want))), file=VAR, line=fn.lineno)


def clause_pairs(repo, chk):
    """reader / writer partners of VarsManager agree on the coordinate they use by default"""
    chk.rule("E-pair", "the reader / writer partners of VarsManager - (get, set) and (get_all_val, set_all) - have the same default for `val_in_fit`: writing back what was read with default arguments is the identity also for bounded parameters")
    vm = repo.cls("%s::VarsManager" % VAR)
    from ..model import const_value
    for r_, w_ in (("get", "set"), ("get_all_val", "set_all")):
        fr, fw = vm.methods.get(r_), vm.methods.get(w_)
        if fr is None or fw is None:
            raise AnalysisError("anchor vanished: VarsManager.%s / %s" % (r_, w_))
        dr, dw = fr.defaults().get("val_in_fit"), fw.defaults().get("val_in_fit")
        if dr is None or dw is None:
            raise AnalysisError("VarsManager.%s / %s lost the val_in_fit option" % (r_, w_))
        if not isinstance(const_value(dr), bool) or not isinstance(const_value(dw), bool):
            raise AnalysisError("VarsManager.%s / %s: the default of val_in_fit is not a literal True / False (%s / %s)" % (r_, w_, norm_text(dr), norm_text(dw)))
        ok = const_value(dr) == const_value(dw)
        chk.oblige("E-pair", "%s(val_in_fit=%s) / %s(val_in_fit=%s)" % (r_, norm_text(dr), w_, norm_text(dw)), ok)
        if not ok:
            chk.violation("E-pair", fr.key, "default:%s/%s" % (r_, w_), "%s reads with val_in_fit=%s by default but %s writes with val_in_fit=%s: vm.%s(vm.%s()) moves every bounded parameter through the bound transform" % (r_, norm_text(dr), w_, norm_text(dw), w_, r_), file=VAR, line=fr.lineno)


def clause_h(repo, chk):
    """set_same: one shared variable, one group, and the group is free only if every part was free"""
    import sympy as sp

    from ..sym import SelfObj, Translator, Unmodelled

    chk.rule("H-tiefix", "set_same(names), interpreted on a manager with the tie [a, b], a fixed c, a free d and the fixed tie [e, f] for nine argument lists: afterwards every member of the merged group is bound to one variable, the group is listed once in same_list, and trainable_vars holds exactly one member of the group if every merged part was free and none if any part was fixed; other variables are untouched")
    vm = repo.cls("%s::VarsManager" % VAR)
    fn = vm.methods.get("set_same")
    if fn is None:
        raise AnalysisError("anchor vanished: VarsManager.set_same")
    cases = [["b", "c"], ["c", "b"], ["a", "c"], ["c", "a"], ["b", "d"], ["d", "a"], ["d", "g"], ["a", "e"], ["f", "d"]]
    bad = []
    for names in cases:
        var = {k: sp.Symbol("V_" + k, real=True) for k in "abcdefgh"}
        var["b"], var["f"] = var["a"], var["e"]  # members of an existing tie already share their variable
        groups0 = [["a", "b"], ["e", "f"]]
        train0 = ["a", "d", "g", "h"]  # b, f: tied non-heads; c fixed; e: head of a fixed tie
        so = SelfObj(vm, {"variables": dict(var), "same_list": [list(g) for g in groups0], "trainable_vars": list(train0), "complex_vars": {}, "bnd_dic": {}})
        # a variable object is truthy iff its value is non-zero: the fixed ones sit at 0.0 (a legitimate value to fix
        # at), the free ones at non-zero values - code that asks for the truth of a variable gets that answer
        zero_valued = {var["c"], var["e"]}
        tr = Translator(repo, hooks={"allow_attr_store": True}, max_depth=3, where_policy=lambda v_, tr_: (v_ not in zero_valued) if isinstance(v_, sp.Symbol) else None)
        try:
            tr.call_fn(fn, [list(names)], self_obj=so)
        except Unmodelled as e:
            raise AnalysisError("VarsManager.set_same not interpretable on the small manager (%s): %s" % (names, e))
        part = lambda x: next((g for g in groups0 if x in g), [x])
        merged = []
        for x in names:
            for y in part(x):
                if y not in merged:
                    merged.append(y)
        free = all((part(x)[0] in train0) for x in names)
        V, T, S = so.attrs["variables"], so.attrs["trainable_vars"], so.attrs["same_list"]
        in_t = [x for x in merged if x in T]
        why = None
        if len({V[x] for x in merged}) != 1:
            why = "the members %s are bound to %d different variables" % (merged, len({V[x] for x in merged}))
        elif [sorted(g) for g in S if set(g) & set(merged)] != [sorted(merged)]:
            why = "same_list holds %s for the merged group %s" % ([g for g in S if set(g) & set(merged)], merged)
        elif free and len(in_t) != 1:
            why = "all merged parts were free but %d members (%s) are trainable afterwards" % (len(in_t), in_t)
        elif not free and in_t:
            why = "a merged part was fixed but %s stay(s) trainable: the fixed parameter moves with the fit" % in_t
        elif sorted(x for x in T if x not in merged) != sorted(x for x in train0 if x not in merged) or len(set(T)) != len(T):
            why = "trainable_vars of the other variables changed: %s" % (T,)
        elif any(V[x] != var[x] for x in var if x not in merged):
            why = "a variable outside the group was rebound"
        if why:
            bad.append((tuple(names), why))
    chk.oblige("H-tiefix", "set_same on %d argument lists: one variable, one group, trainable iff every part was free" % len(cases), not bad)
    for names, why in bad[:3]:
        chk.violation("H-tiefix", fn.key, "case:" + "+".join(names), "set_same(%s) on ties [a, b] (free), [e, f] (fixed), fixed c, free d, g: %s" % (list(names), why), file=VAR, line=fn.lineno)


def clause_getmask(repo, chk):
    """VarsManager.get returns what is stored, whatever mask is in force"""
    import sympy as sp

    from ..sym import SelfObj, Translator, Unmodelled
    vmc = repo.cls("%s::VarsManager" % VAR)
    bcls = repo.cls("%s::Bound" % VAR)
    fn = vmc.methods.get("get")
    if fn is None:
        raise AnalysisError("anchor vanished: VarsManager.get")
    chk.rule("E-getmask", "VarsManager.get(name, val_in_fit) interpreted on a manager where a temporary mask (mask_params) overrides the variable: the stored value comes back (the fit coordinate of the stored value if the variable carries a range and val_in_fit is set), never the mask - a save / restore through get and set (temp_params, get_all_val / set_all) must not freeze the mask into the parameter")
    a, b = sp.symbols("theta_a theta_b", real=True)
    mask = sp.Symbol("MASK", real=True)
    fit = sp.Function("fit_coordinate")
    hooks = {"allow_attr_store": True, "numeric_call_first": lambda tr_, d_, args, kwargs, n: (args[0] if d_.split(".")[-1] in ("stop_gradient", "cast") and args else NotImplemented)}
    if "get_y2x" in bcls.methods:
        hooks[bcls.methods["get_y2x"].key] = lambda tr_, args, kwargs, node: fit(sp.sympify(args[-1]))
    for bounded in (False, True):
        for vif in (True, False):
            vm = SelfObj(vmc, {"variables": {"a": a, "b": b}, "trainable_vars": ["a", "b"], "bnd_dic": ({"a": SelfObj(bcls, {})} if bounded else {}), "pre_trans": {}, "mask_vars": {"a": mask}, "complex_vars": {}, "same_list": []})
            tr = Translator(repo, hooks=hooks, max_depth=3)
            try:
                out = tr.call_fn(fn, ["a"], {"val_in_fit": vif}, self_obj=vm)
            except Unmodelled as e:
                raise AnalysisError("VarsManager.get cannot be interpreted: %s" % e)
            want = fit(a) if (bounded and vif) else a
            ok = sp.simplify(sp.sympify(out) - want) == 0
            chk.oblige("E-getmask", "get('a', val_in_fit=%s) with a masked%s == %s" % (vif, " and bounded" if bounded else "", want), ok)
            if not ok:
                chk.violation("E-getmask", fn.key, "mask:%s:%s" % (bounded, vif), "get('a', val_in_fit=%s) returns %s while a mask is in force (stored value theta_a%s): code that saves parameters with get and writes them back stores the mask permanently" % (vif, out, ", range registered" if bounded else ""), file=VAR, line=fn.lineno)


def clause_apply_order(repo, chk):
    """the configuration applies fix / free before the ties: set_fix on a parameter that is already a follower of a tie
    group only warns ("fixed already") and leaves the head - i.e. the shared storage - trainable"""
    LOADER = "tf_pwa/config_loader/config_loader.py"
    fn = repo.fn(LOADER + "::ConfigLoader.add_constraints")
    chk.rule("O-apply", "ConfigLoader.add_constraints applies fix_var and free_var before var_equal (the order the property quantifies over: create, fix/free, tie, bound): VarsManager.set_same carries an existing fix over to the whole group, whereas set_fix on a follower of an existing tie only warns and the group stays free")
    order = [norm_text(c.func).split(".")[-1] for st in fn.node.body for c in ast.walk(st) if isinstance(c, ast.Call) and isinstance(c.func, ast.Attribute) and c.func.attr.startswith("add_") and c.func.attr.endswith("_constraints")]
    need = ("add_fix_var_constraints", "add_free_var_constraints", "add_var_equal_constraints")
    if any(n_ not in order for n_ in need):
        raise AnalysisError("ConfigLoader.add_constraints no longer calls %s in its own body: the order of fix / free / tie cannot be read off" % [n_ for n_ in need if n_ not in order])
    ok = order.index("add_var_equal_constraints") > max(order.index("add_fix_var_constraints"), order.index("add_free_var_constraints"))
    chk.oblige("O-apply", "add_constraints applies %s" % " -> ".join(x[4:-12] for x in order), ok)
    if not ok:
        chk.violation("O-apply", fn.key, "tie-before-fix", "add_constraints applies %s: var_equal runs before fix_var / free_var, so fixing a parameter that is not the first name of its var_equal list only warns `fixed already` and the tied group stays trainable - a `fixed` parameter is re-drawn by reinit_params and floated by the fit" % " -> ".join(x[4:-12] for x in order), file=LOADER, line=fn.lineno)


def run(repo, chk, tier):
    from ..cacheown import check_persistent_state

    check_persistent_state(repo, chk, ["tf_pwa/variable.py"])
    chk.assume("history-level invariants (sequences of operations) are not decided; each clause is a necessary condition on a single operation")
    clause_a(repo, chk)
    clause_b(repo, chk)
    clause_c(repo, chk)
    clause_d(repo, chk)
    clause_e(repo, chk)
    clause_f(repo, chk)
    clause_g(repo, chk)
    clause_setbound(repo, chk)
    clause_pairs(repo, chk)
    clause_apply_order(repo, chk)
    clause_getmask(repo, chk)
    clause_setall(repo, chk)
    clause_h(repo, chk)
    # tied parameters stay equal through the post-fit standardisation; bounded parameters get the bound transform's own
    # slopes in every wrapper (shared with C08 / C07)
    from .c07 import check_transform_wrappers, clause_b as bound_chain
    from .c08 import clause_std

    clause_std(repo, chk)
    check_transform_wrappers(repo, chk)
    bound_chain(repo, chk)


def clause_setall(repo, chk, rule="V-setall"):
    """every value handed to set_all is written - zero included"""
    from ..sym import SelfObj, Translator, Unmodelled

    chk.rule(rule, "VarsManager.set_all interpreted with `set` as a recorder, for a dictionary and for a list of values that contain 0.0 and 0 (a coupling switched off, a phase of zero, a parameter at a bound of 0) and for both values of val_in_fit: every (name, value) handed in is written once, in order, with the flag passed on - a value of exactly zero is a value like any other")
    vm = repo.cls("%s::VarsManager" % VAR)
    fn = vm.methods.get("set_all")
    st = vm.methods.get("set")
    if fn is None or st is None:
        raise AnalysisError("anchor vanished: VarsManager.set_all / set")
    names = ["a", "b", "c", "d"]
    vals = [sp.Rational(3, 2), sp.Float(0.0), sp.Integer(0), sp.Integer(-2)]
    bad = None
    n = 0
    for as_dict in (True, False):
        for flag in (False, True):
            written = []

            def rec(tr_, args_, kwargs_, node_):
                b_ = Translator.bound_args(st, args_, kwargs_)
                written.append((b_.get("name"), b_.get("value"), bool(b_.get("val_in_fit", True))))
                return None

            so = SelfObj(vm, {"trainable_vars": list(names), "variables": {k: sp.Symbol("V_" + k) for k in names}, "bnd_dic": {}, "pre_trans": {}, "complex_vars": {}})
            tr = Translator(repo, hooks={"allow_attr_store": True, st.key: rec}, max_depth=2)
            arg = dict(zip(names, vals)) if as_dict else list(vals)
            try:
                tr.call_fn(fn, [arg], {"val_in_fit": flag}, self_obj=so)
            except Unmodelled as e:
                raise AnalysisError("VarsManager.set_all cannot be interpreted (%s, val_in_fit=%s): %s" % ("dict" if as_dict else "list", flag, e))
            n += 1
            want = [(k, v, flag) for k, v in zip(names, vals)]
            got = [(k, v, f_) for k, v, f_ in written]
            if (len(got) != len(want) or any(g[0] != w[0] or sp.sympify(g[1]) != w[1] or g[2] != w[2] for g, w in zip(got, want))) and bad is None:
                bad = "set_all(%s, val_in_fit=%s) writes %s, expected %s" % ("{a: 3/2, b: 0.0, c: 0, d: -2}" if as_dict else "[3/2, 0.0, 0, -2]", flag, got, want)
    chk.oblige(rule, "set_all writes every value handed in (dict / list, val_in_fit on / off; zeros included): %d calls" % n, bad is None)
    if bad:
        chk.violation(rule, fn.key, "skipped-value", "%s - a parameter given as exactly zero keeps its old value: the model does not hold the parameters it was given (set_params, loading a result file, the write-back of a minimiser)" % bad, file=VAR, line=fn.lineno)
