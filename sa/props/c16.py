"""C16 - parameter constraints survive every sequence of updates (necessary conditions).

History-level invariants over interleavings are not statically decidable; decided
are conditions each operation must satisfy on its own:
  (a) ownership         the bookkeeping cells variables / trainable_vars / same_list /
                        complex_vars / bnd_dic are written only inside tf_pwa/variable.py
  (b) one polar reading rp2xy, xy2rp and the three branches of Variable.__call__ interpret
                        a stored (r, i) pair identically: polar => r cos(i) + i r sin(i),
                        Cartesian => r + i*i, with r bound to the `...r` component and the
                        angle to the `...i` component (E6 on the extracted expressions)
  (c) no dropped result an expression statement in variable.py whose value is a call to an
                        effect-free function discards a computed value (std_polar)
  (d) bound transforms  the default Bound formulas map the real line into the bound
                        (interval reasoning on sin in [-1,1], sqrt(x^2+1) >= 1) and the
                        branch table picks the formula that mentions only defined bounds
"""
import ast
import os

import sympy as sp

from ..model import AnalysisError, Repo, norm_text, walk_local, walk_stmt
from ..sym import Translator, Unmodelled, equal

VAR = "tf_pwa/variable.py"
CELLS = {"variables", "trainable_vars", "same_list", "complex_vars", "bnd_dic"}
MUTATORS = {"append", "extend", "remove", "pop", "insert", "clear", "update", "sort", "setdefault", "__setitem__", "__delitem__", "popitem"}


def cell_writes(tree):
    out = []
    for n in ast.walk(tree):
        if isinstance(n, (ast.Assign, ast.AugAssign, ast.Delete, ast.AnnAssign)):
            tg = n.targets if isinstance(n, (ast.Assign, ast.Delete)) else [n.target]
            for t in tg:
                for x in ast.walk(t):
                    if isinstance(x, ast.Attribute) and x.attr in CELLS and isinstance(x.ctx, (ast.Store, ast.Del)) and not (isinstance(x.value, ast.Name) and x.value.id == "self" and False):
                        out.append((x.attr, n))
                    if isinstance(x, ast.Subscript) and isinstance(x.ctx, (ast.Store, ast.Del)) and isinstance(x.value, ast.Attribute) and x.value.attr in CELLS:
                        out.append((x.value.attr, n))
        if isinstance(n, ast.Call) and isinstance(n.func, ast.Attribute) and n.func.attr in MUTATORS and isinstance(n.func.value, ast.Attribute) and n.func.value.attr in CELLS:
            out.append((n.func.value.attr, n))
    return out


def clause_a(repo, chk):
    chk.rule("A-own", "who-may-write: VarsManager's bookkeeping cells are stored / mutated only in tf_pwa/variable.py")
    n_in = len(cell_writes(repo.mod(VAR).tree))
    chk.instance("A-own", "%d writes of %s inside %s" % (n_in, sorted(CELLS), VAR))
    if n_in < 20:
        raise AnalysisError("only %d bookkeeping writes found inside variable.py" % n_in)
    for rel, m in sorted(repo.mods.items()):
        if rel == VAR:
            continue
        for cell, n in cell_writes(m.tree):
            # `self.variables = ...` of an unrelated class that merely has an attribute of that name
            # is still a write through a VarsManager alias unless the receiver is `self` of a class
            # that defines the attribute itself
            recv_self_own = False
            for x in ast.walk(n):
                if isinstance(x, ast.Attribute) and x.attr == cell and isinstance(x.value, ast.Name) and x.value.id == "self":
                    recv_self_own = True
            if recv_self_own:
                chk.info("%s:%d %s stores its own attribute `%s` (not a VarsManager)" % (rel, n.lineno, norm_text(n)[:60], cell))
                continue
            chk.violation("A-own", rel, "%s:%s" % (cell, norm_text(n)[:80]), "bookkeeping cell `%s` of the parameter manager is modified outside tf_pwa/variable.py: `%s`" % (cell, norm_text(n)[:100]), file=rel, line=n.lineno)
    # positive fixture
    here = os.path.join(os.path.dirname(os.path.dirname(os.path.abspath(__file__))), "fixtures", "c16")
    fr = Repo(here)
    got = len(cell_writes(fr.mods["tf_pwa/__init__.py"].tree))
    if got != 4:
        raise AnalysisError("C16 fixture: ownership rule matched %d of 4 planted writes" % got)
    chk.instance("A-own", "fixture: 4 planted foreign writes matched", nontrivial=False)


# --------------------------------------------------------------------------- (b)
def clause_b(repo, chk):
    chk.rule("B-polar", "all readers/writers of a stored complex pair use one convention: polar r*cos(phi) + i*r*sin(phi) with r<-`..r`, phi<-`..i`; Cartesian r + i*phi; xy2rp is (sqrt(x^2+y^2), atan2(y,x))")
    R, PH, dR, dPH, ch = sp.symbols("R PH dR dPH charge", real=True)
    roles = {"r": R, "i": PH, "deltar": dR, "deltai": dPH}
    # 1. suffix order of the name lists
    init = repo.fn("%s::Variable.init_name_list" % VAR)
    orders = []
    for n in ast.walk(init.node):
        if isinstance(n, ast.List) and n.elts and all(isinstance(e, ast.BinOp) and isinstance(e.op, ast.Add) and isinstance(e.right, ast.Constant) for e in n.elts):
            orders.append([e.right.value for e in n.elts])
    orders_by_len = {len(o): o for o in orders}
    if orders_by_len.get(2) != ["r", "i"] or 4 not in orders_by_len:
        raise AnalysisError("Variable.init_name_list: suffix lists changed: %s" % orders)
    chk.instance("B-polar", "name suffix orders: %s" % sorted(orders_by_len.values()))

    call = repo.fn("%s::Variable.__call__" % VAR)

    def stack_hook(tr, d, args, kwargs, n):
        last = d.split(".")[-1]
        if last == "stack" and isinstance(args[0], (list, tuple)) and len(args[0]) == 1:
            return args[0][0]
        return NotImplemented

    def analyse_block(stmts, var_list, label):
        tr = Translator(repo, hooks={"numeric_call": stack_hook})
        env = {"var": var_list, "charge": ch}
        found = {}
        for st in stmts:
            if not isinstance(st, ast.Assign):
                continue
            try:
                tr.exec_stmt(st, env, call.mod, 0)
            except Unmodelled:
                continue
            if isinstance(st.value, ast.Call) and norm_text(st.value.func).endswith("complex") and isinstance(st.targets[0], ast.Name):
                found[st.targets[0].id] = env[st.targets[0].id]
        return found, env

    def require(label, got, want, construct):
        ok, detail = equal(sp.sympify(got), sp.sympify(want))
        if ok is None:
            raise AnalysisError("B-polar normaliser too weak at %s: %s" % (label, detail))
        chk.instance("B-polar", "%s: %s == %s -> %s" % (label, got, want, "ok" if ok else "FAIL"))
        if not ok:
            chk.violation("B-polar", call.key if "call" in construct else "%s::VarsManager.%s" % (VAR, construct.split(":")[0]), construct,
                          "%s computes %s but the common convention requires %s (%s)" % (label, got, want, detail), file=VAR, line=call.lineno)

    # 2. Variable.__call__: find the three branches
    top = [s for s in call.node.body if isinstance(s, ast.If)]
    if not top:
        raise AnalysisError("Variable.__call__: top-level if on self.shape not found")
    shaped = top[0]
    inner = [s for s in shaped.body if isinstance(s, ast.If)]
    if not inner or "cp_effect" not in norm_text(inner[0].test):
        raise AnalysisError("Variable.__call__: cp_effect branch not found")
    cp_body = inner[0].body
    cplx_if = inner[0].orelse[0] if inner[0].orelse and isinstance(inner[0].orelse[0], ast.If) else None
    if cplx_if is None or "cplx" not in norm_text(cplx_if.test):
        raise AnalysisError("Variable.__call__: shaped cplx branch not found")
    # cp_effect branch: var = one element group [r, deltar, i, deltai]
    o4 = orders_by_len[4]
    found, env = analyse_block(cp_body, [roles[s] for s in o4], "cp")
    where = [s for s in cp_body if isinstance(s, ast.Assign) and isinstance(s.value, ast.Call) and norm_text(s.value.func).endswith("where")]
    if len(found) != 2 or not where:
        raise AnalysisError("Variable.__call__ cp_effect branch: expected two tf.complex values and a tf.where, found %s" % sorted(found))
    pol, rect = norm_text(where[0].value.args[1]), norm_text(where[0].value.args[2])
    rho, phi = R + ch * dR, PH + ch * dPH
    require("Variable.__call__[cp_effect] polar", found[pol], rho * sp.cos(phi) + sp.I * rho * sp.sin(phi), "call:cp:polar")
    require("Variable.__call__[cp_effect] cartesian", found[rect], rho + sp.I * phi, "call:cp:rect")
    # shaped complex branch
    found, env = analyse_block(cplx_if.body, [roles[s] for s in orders_by_len[2]], "cplx")
    where = [s for s in cplx_if.body if isinstance(s, ast.Assign) and isinstance(s.value, ast.Call) and norm_text(s.value.func).endswith("where")]
    if len(found) != 2 or not where:
        raise AnalysisError("Variable.__call__ shaped complex branch: expected two tf.complex values and a tf.where")
    pol, rect = norm_text(where[0].value.args[1]), norm_text(where[0].value.args[2])
    require("Variable.__call__[shape,cplx] polar", found[pol], R * sp.cos(PH) + sp.I * R * sp.sin(PH), "call:cplx:polar")
    require("Variable.__call__[shape,cplx] cartesian", found[rect], R + sp.I * PH, "call:cplx:rect")
    # scalar branch
    scalar = shaped.orelse
    sc_if = [s for s in scalar if isinstance(s, ast.If) and "cplx" in norm_text(s.test)]
    if not sc_if:
        raise AnalysisError("Variable.__call__: scalar cplx branch not found")
    pol_if = [s for s in sc_if[0].body if isinstance(s, ast.If) and "complex_vars" in norm_text(s.test)]
    if not pol_if:
        raise AnalysisError("Variable.__call__: scalar polar test not found")
    f1, _ = analyse_block(pol_if[0].body, [R, PH], "scalar-polar")
    f2, _ = analyse_block(pol_if[0].orelse, [R, PH], "scalar-rect")
    if len(f1) != 1 or len(f2) != 1:
        raise AnalysisError("Variable.__call__ scalar branch: tf.complex values not found")
    require("Variable.__call__[scalar] polar", list(f1.values())[0], R * sp.cos(PH) + sp.I * R * sp.sin(PH), "call:scalar:polar")
    require("Variable.__call__[scalar] cartesian", list(f2.values())[0], R + sp.I * PH, "call:scalar:rect")

    # 3. rp2xy / xy2rp
    def coord(fname):
        fn = repo.fn("%s::VarsManager.%s" % (VAR, fname))
        loads, stores, flag = {}, {}, None
        tr = Translator(repo)
        env = {}
        for st in fn.node.body:
            if isinstance(st, ast.Assign) and isinstance(st.targets[0], ast.Name) and isinstance(st.value, ast.Subscript) and norm_text(st.value.value) == "self.variables":
                suf = st.value.slice.right.value if isinstance(st.value.slice, ast.BinOp) and isinstance(st.value.slice.right, ast.Constant) else None
                sym = {"r": sp.Symbol("A", real=True), "i": sp.Symbol("B", real=True)}.get(suf)
                if sym is None:
                    raise AnalysisError("%s: unexpected component %s" % (fname, norm_text(st.value)))
                env[st.targets[0].id] = sym
                loads[st.targets[0].id] = suf
            elif isinstance(st, ast.Assign) and isinstance(st.targets[0], ast.Name):
                try:
                    tr.exec_stmt(st, env, fn.mod, 0)
                except Unmodelled:
                    pass
            elif isinstance(st, ast.Expr) and isinstance(st.value, ast.Call) and isinstance(st.value.func, ast.Attribute) and st.value.func.attr == "assign":
                tgt = st.value.func.value
                if isinstance(tgt, ast.Subscript) and norm_text(tgt.value) == "self.variables":
                    suf = tgt.slice.right.value
                    stores[suf] = tr.eval(st.value.args[0], env, fn.mod, 0)
            elif isinstance(st, ast.Assign) and isinstance(st.targets[0], ast.Subscript) and norm_text(st.targets[0].value) == "self.complex_vars":
                flag = norm_text(st.value)
        return fn, stores, flag

    A, B = sp.Symbol("A", real=True), sp.Symbol("B", real=True)
    fn, st, flag = coord("rp2xy")
    for suf, want, lab in (("r", A * sp.cos(B), "x = r cos(phi) stored in `..r`"), ("i", A * sp.sin(B), "y = r sin(phi) stored in `..i`")):
        ok, d = equal(st.get(suf, sp.nan), want)
        chk.instance("B-polar", "rp2xy: %s -> %s" % (lab, bool(ok)))
        if not ok:
            chk.violation("B-polar", fn.key, "rp2xy:%s" % suf, "rp2xy stores %s into the `..%s` component, the convention requires %s" % (st.get(suf), suf, want), file=VAR, line=fn.lineno)
    if flag != "False":
        chk.violation("B-polar", fn.key, "rp2xy:flag", "rp2xy must mark the variable Cartesian (complex_vars[name] = False), it sets %s" % flag, file=VAR, line=fn.lineno)
    fn, st, flag = coord("xy2rp")
    for suf, want, lab in (("r", sp.sqrt(A * A + B * B), "r = sqrt(x^2+y^2) stored in `..r`"), ("i", sp.atan2(B, A), "phi = atan2(y, x) stored in `..i`")):
        ok, d = equal(st.get(suf, sp.nan), want)
        chk.instance("B-polar", "xy2rp: %s -> %s" % (lab, bool(ok)))
        if not ok:
            chk.violation("B-polar", fn.key, "xy2rp:%s" % suf, "xy2rp stores %s into the `..%s` component, the convention requires %s" % (st.get(suf), suf, want), file=VAR, line=fn.lineno)
    if flag != "True":
        chk.violation("B-polar", fn.key, "xy2rp:flag", "xy2rp must mark the variable polar (complex_vars[name] = True), it sets %s" % flag, file=VAR, line=fn.lineno)
    chk.require_count("B-polar", 11)


# --------------------------------------------------------------------------- (c)
PURE_HEADS = {"np", "numpy", "math", "tf", "sy", "sym", "sympy"}
IMPURE_ATTRS = {"assign", "assign_add", "assign_sub", "append", "extend", "remove", "pop", "insert", "update", "clear", "sort",
                "write", "save", "seed", "setdefault", "warn", "add", "discard"}


def pure_functions(repo, mod):
    """fix-point: functions of `mod` with no stores to attributes/subscripts/globals and only pure calls"""
    fns = list(mod.funcs.values())
    pure = set()
    changed = True

    def is_pure(f):
        for n in walk_local(f.node):
            if isinstance(n, (ast.Global, ast.Nonlocal, ast.Yield, ast.YieldFrom, ast.Raise, ast.With, ast.Delete, ast.Import, ast.ImportFrom)):
                return False
            if isinstance(n, (ast.Attribute, ast.Subscript)) and isinstance(n.ctx, (ast.Store, ast.Del)):
                return False
            if isinstance(n, ast.Call):
                fnn = n.func
                if isinstance(fnn, ast.Name):
                    if fnn.id in ("print", "open", "exec", "eval", "setattr", "input"):
                        return False
                    g = mod.funcs.get(fnn.id)
                    if g is not None and g not in pure:
                        return False
                    if g is None and fnn.id not in ("abs", "float", "int", "len", "min", "max", "sum", "range", "list", "tuple", "complex", "round", "sorted", "zip", "enumerate", "isinstance", "str", "bool"):
                        return False
                elif isinstance(fnn, ast.Attribute):
                    if fnn.attr in IMPURE_ATTRS:
                        return False
                    head = norm_text(fnn).split(".")[0]
                    if head in PURE_HEADS:
                        continue
                    if head == "self" and f.cls is not None:
                        g = f.cls.lookup(fnn.attr)
                        if g is None or g not in pure:
                            return False
                        continue
                    return False
                else:
                    return False
        # must return a value
        return any(isinstance(n, ast.Return) and n.value is not None for n in walk_local(f.node))

    while changed:
        changed = False
        for f in fns:
            if f not in pure and is_pure(f):
                pure.add(f)
                changed = True
    return pure


def dropped_results(repo, mod):
    pure = pure_functions(repo, mod)
    out = []
    for f in mod.funcs.values():
        for n in walk_local(f.node):
            if isinstance(n, ast.Expr) and isinstance(n.value, ast.Call):
                c = n.value
                g = None
                if isinstance(c.func, ast.Name):
                    g = mod.funcs.get(c.func.id)
                elif isinstance(c.func, ast.Attribute) and isinstance(c.func.value, ast.Name) and c.func.value.id in ("self", "cls") and f.cls is not None:
                    g = f.cls.lookup(c.func.attr)
                elif isinstance(c.func, ast.Attribute) and isinstance(c.func.value, ast.Name) and f.cls is not None and c.func.value.id == f.cls.name:
                    g = f.cls.lookup(c.func.attr)
                if g is not None and g in pure:
                    out.append((f, n, g))
    return out, pure


def clause_c(repo, chk):
    chk.rule("C-drop", "no expression statement in tf_pwa/variable.py discards the value of an effect-free function (the computed standardised value must be stored)")
    mod = repo.mod(VAR)
    hits, pure = dropped_results(repo, mod)
    chk.instance("C-drop", "%d effect-free value-returning functions in %s (%s ...); %d discarded calls" % (len(pure), VAR, ", ".join(sorted(p.qual for p in pure))[:120], len(hits)))
    if not any(p.qual == "VarsManager._std_polar_angle" for p in pure):
        raise AnalysisError("VarsManager._std_polar_angle is no longer recognised as an effect-free function")
    for f, n, g in hits:
        chk.violation("C-drop", f.key, "discard:%s" % g.qual, "`%s` computes a value with the effect-free function %s and throws it away; the caller's state is not updated" % (norm_text(n), g.qual), file=VAR, line=n.lineno)
    # std_polar must write the wrapped angle back
    sp_fn = repo.fn("%s::VarsManager.std_polar" % VAR)
    uses = [n for n in walk_local(sp_fn.node) if isinstance(n, ast.Call) and isinstance(n.func, ast.Attribute) and n.func.attr == "_std_polar_angle"]
    stored = False
    for n in walk_local(sp_fn.node):
        if isinstance(n, ast.Call) and isinstance(n.func, ast.Attribute) and n.func.attr == "assign":
            if any(isinstance(x, ast.Call) and isinstance(x.func, ast.Attribute) and x.func.attr == "_std_polar_angle" for a in n.args for x in ast.walk(a)):
                stored = True
            # or via a local
            for a in n.args:
                if isinstance(a, ast.Name):
                    for m in walk_local(sp_fn.node):
                        if isinstance(m, ast.Assign) and isinstance(m.targets[0], ast.Name) and m.targets[0].id == a.id and any(isinstance(x, ast.Call) and isinstance(x.func, ast.Attribute) and x.func.attr == "_std_polar_angle" for x in ast.walk(m.value)):
                            stored = True
    chk.instance("C-drop", "std_polar: wrapped angle from _std_polar_angle is assigned back to the phase variable: %s" % stored)
    if uses and not stored and not hits:
        chk.violation("C-drop", sp_fn.key, "angle-not-stored", "std_polar calls _std_polar_angle but never assigns the wrapped angle", file=VAR, line=sp_fn.lineno)
    if not uses:
        chk.violation("C-drop", sp_fn.key, "angle-not-wrapped", "std_polar no longer wraps the phase into [-pi, pi)", file=VAR, line=sp_fn.lineno)
    # the wrap itself: (p - a) % (b - a) + a
    w = repo.fn("%s::VarsManager._std_polar_angle" % VAR)
    r = [n for n in walk_local(w.node) if isinstance(n, ast.Return)][0].value
    ok = (isinstance(r, ast.BinOp) and isinstance(r.op, ast.Add) and isinstance(r.left, ast.BinOp) and isinstance(r.left.op, ast.Mod)
          and norm_text(r.left.left) == "p - a" and norm_text(r.left.right) == "b - a" and norm_text(r.right) == "a") or \
         (isinstance(r, ast.BinOp) and isinstance(r.op, ast.Add) and norm_text(r.left) == "a" and isinstance(r.right, ast.BinOp) and isinstance(r.right.op, ast.Mod)
          and norm_text(r.right.left) == "p - a" and norm_text(r.right.right) == "b - a")
    d = w.defaults()
    dflt_ok = norm_text(d.get("a")) in ("-np.pi", "-math.pi") and norm_text(d.get("b")) in ("np.pi", "math.pi")
    chk.instance("C-drop", "_std_polar_angle = (p - a) %% (b - a) + a with a=-pi, b=pi: %s" % (ok and dflt_ok))
    if not (ok and dflt_ok):
        chk.violation("C-drop", w.key, "wrap-formula", "the wrap into [a, b) must be (p - a) %% (b - a) + a with a=-pi, b=pi; found %s, defaults %s" % (norm_text(r), {k: norm_text(v) for k, v in d.items()}), file=VAR, line=w.lineno)
    # fixture
    here = os.path.join(os.path.dirname(os.path.dirname(os.path.abspath(__file__))), "fixtures", "c16")
    fr = Repo(here)
    fh, fp = dropped_results(fr, fr.mods["tf_pwa/__init__.py"])
    if [f.qual for f, _, _ in fh] != ["Other.dropped"]:
        raise AnalysisError("C16 fixture: dropped-result rule found %s" % [f.qual for f, _, _ in fh])
    chk.instance("C-drop", "fixture: planted discarded pure call matched, kept twin silent", nontrivial=False)


# --------------------------------------------------------------------------- (d)
def clause_d(repo, chk):
    chk.rule("D-bound", "default Bound formulas map R into the bound: two-sided -> [a,b] (sin in [-1,1]), lower -> [a,inf), upper -> (-inf,b] (sqrt(x^2+1) >= 1); each formula mentions only the bounds that exist")
    init = repo.fn("%s::Bound.__init__" % VAR)
    # walk the if-tree on `a is None` / `b is None`
    table = {}

    def walk(stmts, cond):
        for st in stmts:
            if isinstance(st, ast.If):
                t = norm_text(st.test)
                if t in ("a is None", "b is None"):
                    v = t[0]
                    walk(st.body, dict(cond, **{v: None}))
                    walk(st.orelse, dict(cond, **{v: "set"}))
                elif t == "func":
                    walk(st.orelse, cond)
            elif isinstance(st, ast.Assign) and norm_text(st.targets[0]) == "self.func" and isinstance(st.value, ast.Constant):
                table[(cond.get("a"), cond.get("b"))] = st.value.value

    walk(init.node.body, {})
    if len(table) != 4:
        raise AnalysisError("Bound.__init__: default formula table has %d entries: %s" % (len(table), table))
    x, a, b, s, t = sp.symbols("x a b s t", real=True)
    for (ca, cb), text in sorted(table.items(), key=str):
        f = sp.sympify(text, locals={"x": x, "a": a, "b": b})
        used = {str(v) for v in f.free_symbols} - {"x"}
        allowed = {n for n, c in (("a", ca), ("b", cb)) if c == "set"}
        ok_names = used <= allowed
        if ca == "set" and cb == "set":
            g = f.subs(sp.sin(x), s)
            lin = sp.diff(g, s)
            ok = (not g.has(x)) and sp.simplify(g.subs(s, -1) - a) == 0 and sp.simplify(g.subs(s, 1) - b) == 0 and sp.simplify(lin - (b - a) / 2) == 0 and sp.diff(g, s, 2) == 0
            desc = "f(sin=-1)=a, f(sin=1)=b, linear in sin with slope (b-a)/2 >= 0"
        elif ca == "set":
            g = f.subs(sp.sqrt(x ** 2 + 1), t)
            ok = (not g.has(x)) and sp.simplify(g.subs(t, 1) - a) == 0 and sp.simplify(sp.diff(g, t) - 1) == 0
            desc = "f = a + (sqrt(x^2+1) - 1) >= a"
        elif cb == "set":
            g = f.subs(sp.sqrt(x ** 2 + 1), t)
            ok = (not g.has(x)) and sp.simplify(g.subs(t, 1) - b) == 0 and sp.simplify(sp.diff(g, t) + 1) == 0
            desc = "f = b - (sqrt(x^2+1) - 1) <= b"
        else:
            ok = sp.simplify(f - x) == 0
            desc = "identity"
        chk.instance("D-bound", "bound(a=%s,b=%s): %s -> %s, names ok=%s: %s" % (ca, cb, text, desc, ok_names, bool(ok)))
        if not (ok and ok_names):
            chk.violation("D-bound", init.key, "formula:a=%s,b=%s" % (ca, cb), "default transform `%s` for a=%s, b=%s does not map the real line into the bound (%s) or mentions an undefined bound" % (text, ca, cb, desc), file=VAR, line=init.lineno)
    # a > b is rejected
    guard = any(isinstance(n, ast.If) and "a > b" in norm_text(n.test) and any(isinstance(x_, ast.Raise) for x_ in n.body) for n in walk_local(init.node))
    chk.instance("D-bound", "Bound.__init__ rejects a > b: %s" % guard)
    if not guard:
        chk.violation("D-bound", init.key, "order-guard", "Bound no longer rejects lower > upper (the two-sided transform would be decreasing)", file=VAR, line=init.lineno)
    chk.require_count("D-bound", 5)


# --------------------------------------------------------------------------- (e)
def clause_e(repo, chk):
    """bulk re-randomisation never touches a fixed parameter"""
    chk.rule("E-fixed", "in VarsManager.refresh_vars every assignment to self.variables[name] is guarded by `name in self.trainable_vars` (if-test, continue-guard, or a loop over the trainable names): a fixed parameter changes only when explicitly assigned")
    fn = repo.fn("%s::VarsManager.refresh_vars" % VAR)
    from ..model import parent_map

    pm = parent_map(fn.node)
    n_assign = 0
    for n in walk_local(fn.node):
        if not (isinstance(n, ast.Call) and isinstance(n.func, ast.Attribute) and n.func.attr in ("assign", "assign_add", "assign_sub")):
            continue
        tgt = n.func.value
        if not (isinstance(tgt, ast.Subscript) and norm_text(tgt.value) == "self.variables"):
            continue
        n_assign += 1
        key = norm_text(tgt.slice)
        guarded = None
        cur = n
        while cur in pm and guarded is None:
            par = pm[cur]
            if isinstance(par, ast.If) and cur in par.body:
                t = par.test
                for x in ast.walk(t):
                    if isinstance(x, ast.Compare) and len(x.ops) == 1 and isinstance(x.ops[0], ast.In) and norm_text(x.left) == key and norm_text(x.comparators[0]) == "self.trainable_vars":
                        guarded = "if %s" % norm_text(t)
            if isinstance(par, (ast.For,)) and cur in par.body:
                if norm_text(par.target) == key and "self.trainable_vars" in norm_text(par.iter) and ("&" in norm_text(par.iter) or norm_text(par.iter) == "self.trainable_vars"):
                    guarded = "for %s in %s" % (key, norm_text(par.iter))
                else:
                    # continue-guard earlier in the same loop body
                    idx = par.body.index(cur) if cur in par.body else None
                    for st in par.body[: idx if idx is not None else 0]:
                        if isinstance(st, ast.If) and len(st.body) == 1 and isinstance(st.body[0], ast.Continue):
                            tt = st.test
                            if isinstance(tt, ast.Compare) and len(tt.ops) == 1 and isinstance(tt.ops[0], ast.NotIn) and norm_text(tt.left) == key and norm_text(tt.comparators[0]) == "self.trainable_vars":
                                guarded = "continue-guard `%s`" % norm_text(tt)
            cur = par
        chk.instance("E-fixed", "refresh_vars: `%s` guarded by %s" % (norm_text(n)[:70], guarded or "NOTHING"))
        if guarded is None:
            chk.violation("E-fixed", fn.key, "unguarded:%s" % key, "`%s` re-draws self.variables[%s] without checking that %s is trainable: a fixed parameter is silently re-randomised" % (norm_text(n)[:80], key, key), file=VAR, line=n.lineno)
    if n_assign < 6:
        raise AnalysisError("refresh_vars: only %d variable assignments found" % n_assign)


# --------------------------------------------------------------------------- (f)
def clause_f(repo, chk):
    """coordinate switches flag every member of a tie group"""
    chk.rule("F-tie", "rp2xy and xy2rp propagate the polar flag to every member of the tie group of `name` (inner loop over the whole group, no break inside it) with the same value they set for `name`")
    shapes = {}
    for fname, flag in (("rp2xy", "False"), ("xy2rp", "True")):
        fn = repo.fn("%s::VarsManager.%s" % (VAR, fname))
        loops = [n for n in fn.node.body if isinstance(n, ast.For) and "same_list" in norm_text(n.iter)]
        if len(loops) != 1:
            raise AnalysisError("%s: tie-group loop not found" % fname)
        lp = loops[0]
        grp = norm_text(lp.target)
        ok = False
        why = "no `if name in <group>` test"
        for st in lp.body:
            if isinstance(st, ast.If) and norm_text(st.test) == "name in %s" % grp:
                inner = [x for x in st.body if isinstance(x, ast.For)]
                brk_outer = any(isinstance(x, ast.Break) for x in st.body)
                if len(inner) == 1 and norm_text(inner[0].iter) == grp:
                    iv = norm_text(inner[0].target)
                    body = inner[0].body
                    only_assign = len(body) == 1 and isinstance(body[0], ast.Assign) and norm_text(body[0].targets[0]) == "self.complex_vars[%s]" % iv and norm_text(body[0].value) == flag
                    no_break = not any(isinstance(x, (ast.Break, ast.Continue, ast.Return)) for b in body for x in ast.walk(b)) and not inner[0].orelse
                    ok = only_assign and no_break
                    why = "inner loop body must be exactly `self.complex_vars[%s] = %s` without break/continue" % (iv, flag)
                else:
                    why = "no inner loop over the whole tie group"
        own = [n for n in fn.node.body if isinstance(n, ast.Assign) and norm_text(n.targets[0]) == "self.complex_vars[name]"]
        own_ok = bool(own) and norm_text(own[0].value) == flag
        chk.instance("F-tie", "%s: flag %s set for `name`: %s; propagated to the whole tie group: %s" % (fname, flag, own_ok, ok))
        if not (ok and own_ok):
            chk.violation("F-tie", fn.key, "tie-flag", "%s must flag every member of the tie group of `name` as %s (%s)" % (fname, "polar" if flag == "True" else "Cartesian", why), file=VAR, line=lp.lineno)


def run(repo, chk, tier):
    chk.assume("history-level invariants (sequences of operations) are not decided; each clause is a necessary condition on a single operation")
    clause_a(repo, chk)
    clause_b(repo, chk)
    clause_c(repo, chk)
    clause_d(repo, chk)
    clause_e(repo, chk)
    clause_f(repo, chk)
