"""D-acos: an inverse cosine / sine in the angle geometry is taken of a value clipped into [-1, 1].

The cosine of an angle between two unit vectors is computed as a dot product; rounding puts it a few ulp outside
[-1, 1] exactly when the vectors are (anti)parallel - collinear decays, a daughter along the z axis - and acos then
returns NaN, which the amplitude carries into the density.  (A two-argument arctangent has no such edge.)  Rule: in
tf_pwa/angle.py and tf_pwa/cal_angle.py the argument of every acos / asin is, on every assignment that reaches it, the
result of clip_by_value(<x>, -1, 1) or of a minimum / maximum pair with those limits."""
import ast

from ..model import AnalysisError, const_value, norm_text

FILES = ["tf_pwa/angle.py", "tf_pwa/cal_angle.py"]


def _callee_name(node):
    return node.func.attr if isinstance(node.func, ast.Attribute) else (node.func.id if isinstance(node.func, ast.Name) else "")


def _is_clip(node, repo=None, depth=0):
    """the expression is a clip into [-1, 1]: clip_by_value / np.clip with two limits (numeric limits must lie in
    [-1, 1]; limits given as tensors / named constants are accepted), a minimum / maximum pair, or a call of a repo
    helper whose returned expression is one"""
    if not isinstance(node, ast.Call):
        return False
    name = _callee_name(node)
    if name in ("clip_by_value", "clip"):
        lims = list(node.args[1:3]) + [k.value for k in node.keywords if k.arg in ("clip_value_min", "clip_value_max", "a_min", "a_max", "min", "max")]
        if len(lims) != 2:
            return False
        nums = [const_value(x) for x in lims]
        nums = [x for x in nums if isinstance(x, (int, float))]
        return all(-1 <= x <= 1 for x in nums)
    if name in ("minimum", "maximum") and len(node.args) == 2:
        other = {"minimum": "maximum", "maximum": "minimum"}[name]
        inner = [a for a in node.args if isinstance(a, ast.Call) and _callee_name(a) == other]
        if inner:
            nums = [const_value(a) for a in list(node.args) + list(inner[0].args)]
            nums = [x for x in nums if isinstance(x, (int, float))]
            return all(-1 <= x <= 1 for x in nums)
    if repo is not None and depth < 2:
        for g in repo.func_by_name.get(name, []):
            rets = [r.value for r in ast.walk(g.node) if isinstance(r, ast.Return) and r.value is not None]
            if rets and all(_resolves_clipped(r, g.node, repo, getattr(r, "lineno", 10 ** 9), depth + 1)[0] for r in rets):
                return True
    return False


def _clipped_expr(expr, fn_node, repo, depth=0, seen=None):
    """the value of `expr` passed through a clip: it is one, or a name all of whose definitions in the function are
    (Assign / AnnAssign / walrus; a name defined from another clipped name counts)"""
    seen = set() if seen is None else seen
    if _is_clip(expr, repo, depth):
        return True
    if isinstance(expr, ast.Name) and expr.id not in seen:
        seen.add(expr.id)
        defs = []
        for st in ast.walk(fn_node):
            if isinstance(st, ast.Assign):
                for t in st.targets:
                    if isinstance(t, ast.Name) and t.id == expr.id:
                        defs.append(st.value)
                    elif isinstance(t, (ast.Tuple, ast.List)) and isinstance(st.value, (ast.Tuple, ast.List)) and len(t.elts) == len(st.value.elts):
                        for te, ve in zip(t.elts, st.value.elts):
                            if isinstance(te, ast.Name) and te.id == expr.id:
                                defs.append(ve)
            elif isinstance(st, ast.AnnAssign) and isinstance(st.target, ast.Name) and st.target.id == expr.id and st.value is not None:
                defs.append(st.value)
            elif isinstance(st, ast.NamedExpr) and isinstance(st.target, ast.Name) and st.target.id == expr.id:
                defs.append(st.value)
        return ("%LAST%", defs)
    return False


def _resolves_clipped(arg, fn_node, repo, lineno, depth=0):
    """(ok, reason): straight-line code - the last definition before `lineno` decides; it may itself be a name"""
    why = "the argument `%s` is not clipped" % norm_text(arg)[:50]
    if _is_clip(arg, repo, depth):
        return True, why
    cur, hops = arg, 0
    while isinstance(cur, ast.Name) and hops < 4:
        hops += 1
        r = _clipped_expr(cur, fn_node, repo, depth)
        if r is True:
            return True, why
        if not (isinstance(r, tuple) and r[1]):
            break
        before = [d for d in r[1] if getattr(d, "lineno", 0) < lineno] or r[1]
        last = max(before, key=lambda d_: getattr(d_, "lineno", 0))
        why = "`%s` is last assigned `%s` (line %d) before the call" % (cur.id, norm_text(last)[:50], getattr(last, "lineno", 0))
        if _is_clip(last, repo, depth):
            return True, why
        cur = last
    return False, why


def check_acos_domain(repo, chk, rule="D-acos"):
    chk.rule(rule, "in tf_pwa/angle.py and tf_pwa/cal_angle.py the argument of every acos / asin is clipped into [-1, 1] (clip_by_value(x, -1, 1) or a minimum / maximum pair) on every assignment that reaches the call: a cosine computed as a dot product of unit vectors leaves the interval by rounding exactly for collinear configurations, and acos then puts NaN into the helicity angle and the density")
    n_calls = n_fn = 0
    for rel in FILES:
        m = repo.mod(rel)
        for f in m.funcs.values():
            calls = [c for c in ast.walk(f.node) if isinstance(c, ast.Call) and (c.func.attr if isinstance(c.func, ast.Attribute) else getattr(c.func, "id", "")) in ("acos", "asin", "arccos", "arcsin") and c.args]
            if not calls:
                continue
            n_fn += 1
            for c in calls:
                n_calls += 1
                arg = c.args[0]
                ok, why = _resolves_clipped(arg, f.node, repo, c.lineno)
                chk.oblige(rule, "%s line %d: `%s` takes a clipped argument" % (f.qual, c.lineno, norm_text(c)[:50]), ok)
                if not ok:
                    chk.violation(rule, f.key, "unclipped:%s" % norm_text(c)[:40], "`%s`: %s - for (anti)parallel unit vectors the dot product exceeds 1 in magnitude by rounding and the angle becomes NaN (the density of a collinear / on-axis event is not finite)" % (norm_text(c)[:60], why), file=rel, line=c.lineno)
    if n_calls < 1:
        # the anchor: SU2M.get_euler_angle extracts beta with an arc cosine; if it no longer does, the rule has no instance
        chk.instance(rule, "no acos / asin left in %s" % ", ".join(FILES), nontrivial=False)
    else:
        chk.instance(rule, "%d inverse-trigonometric calls in %d functions" % (n_calls, n_fn), nontrivial=False)
