"""C05 clause E-einsum: the hand-written contraction returns the reference contraction.

tensor_einsum_reduce_sum(expr, *operands, order=...) is interpreted as a whole on small symbolic tensors (every
dimension of size 2, every element a free symbol) and compared, element by element, with the contraction the expression
denotes (the checker's own loop over all index values).  The cases cover what the planner can hand it: operands whose
index strings are in and out of the planner's order, pairs of indices that the planner ranks EQUAL (it can - the rank
depends on set iteration order) carried by one operand in alphabetical and by another in reverse alphabetical order,
summed and kept indices in every position.  The routine returns its axes in the planner's order, so the output string of
each case is written in that order."""
import itertools

import numpy as np
import sympy as sp

from ..model import AnalysisError
from ..sym import Translator, Unmodelled

EIN = "tf_pwa/einsum.py"

CASES = [
    # (inputs, order) - the output keeps the listed letters, in planner order
    ("bxa,bya,yax", {"b": 0, "x": 1, "y": 1, "a": 2}, "ba"),     # x, y ranked equal; third operand carries them reversed
    ("bxa,bya,xay", {"b": 0, "x": 1, "y": 1, "a": 2}, "ba"),
    ("ab,bc", {"a": 0, "b": 1, "c": 2}, "ac"),
    ("ba,cb", {"a": 0, "b": 1, "c": 2}, "ac"),                   # both operands out of order
    ("abc,cba", {"a": 0, "b": 0, "c": 1}, "ab"),                 # a, b ranked equal
    ("cab,bc", {"a": 1, "b": 0, "c": 1}, "ba"),                  # a, c ranked equal, out of order
    ("xy,yz,zx", {"x": 0, "y": 0, "z": 0}, "x"),                 # all equal: alphabetical tie-break everywhere
    ("ayx,axy", {"a": 0, "x": 1, "y": 1}, "axy"),                # nothing summed, equal ranks, mixed spellings
]


def _tensor(name, idx):
    a = np.empty([2] * len(idx), dtype=object)
    for k in np.ndindex(*a.shape):
        a[k] = sp.Symbol("%s_%s" % (name, "".join(map(str, k))))
    return a


def _reference(ins, out, arrs):
    letters = sorted(set("".join(ins)))
    res = np.empty([2] * len(out), dtype=object)
    for k in np.ndindex(*res.shape):
        res[k] = sp.Integer(0)
    for vals in itertools.product(range(2), repeat=len(letters)):
        env = dict(zip(letters, vals))
        term = sp.Integer(1)
        for idx, a in zip(ins, arrs):
            term = term * a[tuple(env[c] for c in idx)]
        res[tuple(env[c] for c in out)] += term
    return res


def check_einsum_semantics(repo, chk):
    chk.rule("E-einsum", "tensor_einsum_reduce_sum interpreted as a whole on symbolic tensors (all dimensions 2) for %d contraction expressions - operands in and out of the planner's order, index pairs the planner ranks equal, spelt both ways - equals the reference contraction element by element (the routine may decline by raising; it must never return another tensor)" % len(CASES))
    fn = repo.fn(EIN + "::tensor_einsum_reduce_sum")
    n_ok = 0
    for ins_s, order, out in CASES:
        ins = ins_s.split(",")
        arrs = [_tensor("T%d" % i, idx) for i, idx in enumerate(ins)]
        expr = "%s->%s" % (ins_s, out)
        tr = Translator(repo, hooks={"allow_attr_store": True}, max_depth=3)
        try:
            got = tr.call_fn(fn, [expr] + arrs, {"order": dict(order)})
        except Unmodelled as e:
            raise AnalysisError("tensor_einsum_reduce_sum cannot be interpreted on `%s` (order %s): %s" % (expr, order, e))
        want = _reference(ins, out, arrs)
        got = np.asarray(got, dtype=object)
        if got.shape != want.shape:
            bad = "the result has shape %s, the expression denotes %s" % (got.shape, want.shape)
        else:
            diff = [k for k in np.ndindex(*want.shape) if sp.expand(sp.sympify(got[k]) - want[k]) != 0]
            bad = None if not diff else "%d of %d elements differ; element %s is %s, the contraction gives %s" % (len(diff), want.size, diff[0], got[diff[0]], want[diff[0]])
        chk.oblige("E-einsum", "`%s` with planner ranks %s == reference contraction" % (expr, order), bad is None)
        if bad is None:
            n_ok += 1
        else:
            chk.violation("E-einsum", fn.key, "contract:%s" % ins_s, "`%s` with planner ranks %s: %s - an operand is reshaped against another index order than it was transposed to (equal ranks resolved differently at two sites), so the routine returns a wrong tensor instead of declining" % (expr, order, bad), file=EIN, line=fn.lineno)
    chk.require_count("E-einsum", len(CASES))
