"""C01 clause S-swap: the identical-particle exchange term is added with its helicity axes permuted the same way as the
momenta.

cal_angle's identical_particles_swap_p builds, for every non-trivial permutation of an identical group, an event in
which the NAME q carries the momentum of the physical particle p.  DecayGroup.get_amp2 evaluates the amplitude on that
event and transposes its helicity axes with get_id_swap_transpose before adding it: the axis of physical particle p in
the sum must be fed from the axis of the name q that carried p.  Both functions are interpreted (three identical
particles B1, B2, B3 and a fourth one C: the two 3-cycles as well as the three transpositions) and must agree:

    perm[lead + index(p)] == lead + index(q)   whenever the exchanged event has  p4'[q] == p4[p]."""
import sympy as sp

from ..model import AnalysisError
from ..sym import SelfObj, Translator, Unmodelled

CAL = "tf_pwa/cal_angle.py"
CORE = "tf_pwa/amp/core.py"


def check_swap_transpose(repo, chk):
    chk.rule("S-swap", "identical_particles_swap_p and DecayGroup.get_id_swap_transpose interpreted for three identical particles plus a fourth (all five non-trivial permutations, 3-cycles included): the helicity axis of each physical particle in the summed amplitude is taken from the axis of the name that carried its momentum in the exchanged event")
    gen = repo.fn(CAL + "::identical_particles_swap_p")
    cls = repo.cls(CORE + "::DecayGroup")
    tp = cls.methods.get("get_id_swap_transpose")
    if tp is None:
        raise AnalysisError("anchor vanished: DecayGroup.get_id_swap_transpose")
    outs = ["B1", "B2", "B3", "C"]
    ids = [["B1", "B2", "B3"]]
    p4 = {k: sp.Symbol("p_" + k) for k in outs}
    p4["A"] = sp.Symbol("p_A")
    tr = Translator(repo, hooks={"allow_attr_store": True}, max_depth=3)
    try:
        events = tr.call_fn(gen, [dict(p4), [list(x) for x in ids]])
        events = list(events) if not isinstance(events, list) else events
    except Unmodelled as e:
        raise AnalysisError("identical_particles_swap_p cannot be interpreted: %s" % e)
    if len(events) != 5:
        raise AnalysisError("identical_particles_swap_p yields %d exchanged events for three identical particles, expected 5" % len(events))
    lead = 1
    bad = []
    for key, ev in events:
        if not isinstance(ev, dict):
            raise AnalysisError("identical_particles_swap_p no longer yields (key, event dictionary) pairs")
        holder = {}   # physical particle -> name that carries its momentum
        for name, mom in ev.items():
            for phys, m0 in p4.items():
                if mom == m0:
                    holder[phys] = name
        so = SelfObj(cls, {"outs": list(outs), "identical_particles": [list(x) for x in ids]})
        try:
            perm = Translator(repo, hooks={"allow_attr_store": True}, max_depth=3).call_fn(tp, [key, sp.Integer(lead + len(outs))], self_obj=so)
        except Unmodelled as e:
            raise AnalysisError("DecayGroup.get_id_swap_transpose cannot be interpreted: %s" % e)
        perm = [int(x) for x in perm]
        want = list(range(lead)) + [lead + outs.index(holder[p]) for p in outs]
        if perm != want:
            bad.append("exchange %s: axes %s, the momenta were moved as %s so the axes must be %s" % (key[1] if isinstance(key, tuple) and len(key) > 1 else key, perm, {p: holder[p] for p in outs if holder[p] != p}, want))
    chk.oblige("S-swap", "5 exchanges of (B1, B2, B3): transpose order follows the momentum exchange", not bad)
    for b in bad[:2]:
        chk.violation("S-swap", tp.key, "axes", b + ": the exchanged amplitude is added with the helicities of the wrong particles, so the density of spinning identical particles is neither symmetric nor rotation invariant", file=CORE, line=tp.lineno)
    # two identical groups (B1, B2) and (C1, C2): every combination of group permutations but the identity is an
    # exchange term - an exchange within the first group only is one of them
    outs2 = ["B1", "B2", "C1", "C2", "D"]
    ids2 = [["B1", "B2"], ["C1", "C2"]]
    p42 = {k: sp.Symbol("p_" + k) for k in outs2 + ["A"]}
    try:
        ev2 = Translator(repo, hooks={"allow_attr_store": True}, max_depth=3).call_fn(gen, [dict(p42), [list(x) for x in ids2]])
        ev2 = list(ev2) if not isinstance(ev2, list) else ev2
    except Unmodelled as e:
        raise AnalysisError("identical_particles_swap_p cannot be interpreted for two identical groups: %s" % e)
    moved = []
    for key, ev in ev2:
        m_ = tuple(sorted((name, str(mom)) for name, mom in ev.items() if mom != p42[name]))
        moved.append(m_)
    want2 = {
        (("B1", "p_B2"), ("B2", "p_B1")),
        (("C1", "p_C2"), ("C2", "p_C1")),
        (("B1", "p_B2"), ("B2", "p_B1"), ("C1", "p_C2"), ("C2", "p_C1")),
    }
    ok2 = len(moved) == 3 and set(moved) == want2
    chk.oblige("S-swap", "two identical groups (B1, B2), (C1, C2): the three non-trivial exchanges (first group only, second only, both) are generated once each, the identity is not", ok2)
    if not ok2:
        chk.violation("S-swap", gen.key, "two-groups", "identical_particles_swap_p with the groups (B1, B2) and (C1, C2) yields the exchanges %s, expected exactly %s: a missing exchange term leaves the density unsymmetrised under that exchange, an extra identity term double counts" % (sorted(moved), sorted(want2)), file=CAL, line=gen.lineno)
