"""C17 - temporary overrides and derived computations leave the model unchanged.

Decides, for every function of the frozen surface below (and reports as INFO
for every other function of the program that shows the same save/restore
shape): on every path of the statement CFG - normal return, exception out of
any call, GeneratorExit / thrown exception at any yield - each model state
cell the function writes is written back from a snapshot of that same cell
taken before the first write (rules R0/R1/R2), no saved list object is mutated
in place while the snapshot is live (R3), and a parameter snapshot is restored
in the coordinate it was taken in (R4).
"""
import ast

from ..effects import CELLS, Effects
from ..model import AnalysisError, norm_text, walk_stmt
from ..resolve import Resolver
from ..typestate import FnAnalysis, coordinate_of_call

# key -> (cells the function must leave unchanged, kind, reason it is on the surface)
SURFACE = {
    # context managers with their own save/restore
    "tf_pwa/config.py::temp_config": ({"config"}, "manager", "temporary-configuration block"),
    "tf_pwa/variable.py::VarsManager.temp_params": ({"params"}, "manager", "temporary-parameter block"),
    "tf_pwa/variable.py::VarsManager.mask_params": ({"mask"}, "manager", "masked-parameter block"),
    "tf_pwa/amp/amp.py::AbsPDF.temp_params": ({"params"}, "manager", "temporary-parameter block"),
    "tf_pwa/amp/core.py::DecayGroup.temp_used_res": ({"chains"}, "manager", "restricted-resonance block"),
    "tf_pwa/amp/amp.py::BaseAmplitudeModel.temp_total_gls_one": ({"mask_factor"}, "manager", "masked total-coupling block"),
    "tf_pwa/experimental/factor_system.py::temp_var": ({"params"}, "manager", "temporary-parameter block"),
    # delegating context managers
    "tf_pwa/amp/amp.py::AbsPDF.mask_params": ({"mask"}, "delegate", "with vm.mask_params"),
    "tf_pwa/amp/amp.py::BaseAmplitudeModel.temp_used_res": ({"chains"}, "delegate", "with decay_group.temp_used_res"),
    "tf_pwa/params_trans.py::ParamsTrans.mask_params": ({"mask"}, "delegate", "with vm.mask_params"),
    "tf_pwa/config_loader/config_loader.py::ConfigLoader.mask_params": ({"mask"}, "delegate", "with vm.mask_params"),
    "tf_pwa/amp/core.py::variable_scope": ({"config"}, "delegate", "with temp_config"),
    # derived computations (partial weights, interference weights, fit fractions, factor iterations)
    "tf_pwa/amp/amp.py::BaseAmplitudeModel.partial_weight": ({"chains"}, "computation", "partial weights"),
    "tf_pwa/amp/amp.py::AmplitudeModel.partial_weight": ({"chains"}, "computation", "partial weights (delegates to DecayGroup)"),
    "tf_pwa/amp/core.py::DecayGroup.partial_weight": ({"chains"}, "computation", "partial weights"),
    "tf_pwa/amp/core.py::DecayGroup.partial_weight_interference": ({"chains"}, "computation", "interference weights"),
    "tf_pwa/amp/amp.py::BaseAmplitudeModel.partial_weight_interference": ({"chains"}, "computation", "interference weights (delegates)"),
    "tf_pwa/amp/amp.py::CachedShapeAmplitudeModel.pdf": ({"chains"}, "computation", "density evaluation narrows the chain selection temporarily"),
    "tf_pwa/fitfractions.py::FitFractions.append_int": ({"chains"}, "computation", "fit fractions"),
    "tf_pwa/fitfractions.py::FitFractions.integral": ({"chains"}, "computation", "fit fractions (delegates)"),
    "tf_pwa/fitfractions.py::cal_fitfractions": ({"chains"}, "computation", "fit fractions"),
    "tf_pwa/fitfractions.py::cal_fitfractions_no_grad": ({"chains"}, "computation", "fit fractions"),
    "tf_pwa/applications.py::fit_fractions": ({"chains", "params"}, "computation", "fit fractions under temporary parameters"),
    "tf_pwa/amp/core.py::DecayGroup.factor_iteration": ({"chains", "mask"}, "generator", "factor iteration"),
    "tf_pwa/amp/core.py::DecayChain.factor_iteration": ({"mask"}, "generator", "factor iteration"),
    "tf_pwa/amp/amp.py::BaseAmplitudeModel.factor_iteration": ({"chains", "mask"}, "generator", "factor iteration (delegates)"),
}

# contextmanagers that write no model cell (reason recorded) - checked to stay that way
EXCLUDED_MANAGERS = {
    "tf_pwa/config_loader/plotter.py::Plotter.old_style": "touches matplotlib rcParams only",
    "tf_pwa/params_trans.py::ParamsTrans.trans": "records a GradientTape, writes no model cell",
    "tf_pwa/variable.py::VarsManager.error_trans": "delegates to ParamsTrans.trans, writes no model cell",
    "tf_pwa/config_loader/config_loader.py::ConfigLoader.params_trans": "delegates to error_trans, writes no model cell",
    "tf_pwa/config_loader/multi_config.py::MultiConfig.params_trans": "delegates to error_trans, writes no model cell",
}

MIN_SURFACE_INSTANCES = 26


def analyse_all(repo):
    res = Resolver(repo)
    eff = Effects(repo, res)
    cands = [f for f in repo.all_fns() if eff.writes[f] or f.is_contextmanager()]
    scope, exposed_of, must_of = {}, {}, {}
    analyses = {}
    for rnd in range(6):
        analyses = {}
        for f in cands:
            analyses[f] = FnAnalysis(f, eff, scope, exposed_of, must_of)
        new_scope = {}
        for f, an in analyses.items():
            if f.is_contextmanager():
                cells = {r[0] for r in an.restores}
                for _, _, cs in an.with_scopes:
                    cells |= set(cs)
                # a surface manager is reported itself when it does not restore; its users are analysed
                # as if it did, so that one broken manager gives one report instead of a cascade
                decl = SURFACE.get(f.key.split("#")[0])
                if decl is not None and decl[1] in ("manager", "delegate"):
                    cells = cells | set(decl[0])
                new_scope[f] = cells
        new_exposed = {f: set(an.exposed) for f, an in analyses.items() if an.exposed}
        new_must = {f: set(an.must_rebind) for f, an in analyses.items() if an.must_rebind}
        balanced = {}
        for f, an in analyses.items():
            b = an.touched_cells() - an.dirty_cells()
            if f.is_contextmanager():
                b |= new_scope.get(f, set())
            if b:
                balanced[f] = b
        stable = new_scope == scope and new_exposed == exposed_of and new_must == must_of
        scope, exposed_of, must_of = new_scope, new_exposed, new_must
        eff.recompute_writes(balanced)
        cands = sorted(
            {f for f in repo.all_fns() if eff.writes[f] or f.is_contextmanager()} | set(analyses),
            key=lambda f: f.key,
        )
        if stable and rnd >= 1:
            break
    return eff, analyses, scope


def surface_dirty(repo, keys):
    """typestate verdicts for some surface functions (shared with properties whose strategies rely on a scoped change):
    -> [(key, cell, exit kind, has_restore, message, path, lineno)], number of CFG nodes analysed"""
    eff, analyses, scope = analyse_all(repo)
    out, nodes = [], 0
    for key in keys:
        cells = SURFACE[key][0]
        f = repo.fn(key)
        an = analyses.get(f) or FnAnalysis(f, eff, scope)
        nodes += len(an.cfg.nodes)
        seen = set()
        for cell, exit_kind, path in an.dirty_exits:
            if cell not in cells or (cell, exit_kind) in seen:
                continue
            seen.add((cell, exit_kind))
            has_restore = any(r[0] == cell for r in an.restores) or any(cell in cs for _, _, cs in an.with_scopes)
            if has_restore:
                msg = "cell '%s' may be left modified at the %s exit; path: %s" % (cell, exit_kind, " -> ".join(path[-12:]))
            else:
                writes = [w[1] for w in an.writes if w[0] == cell]
                msg = "cell '%s' is written (%s) and never written back from a snapshot of that cell taken before the write" % (cell, "; ".join(writes[:3]))
            out.append((key, cell, exit_kind, has_restore, msg, path, f.lineno))
        for cell, var, text, astn in an.alias_inplace:
            if cell in cells:
                out.append((key, cell, "alias:" + text, True, "in-place mutation `%s` while `%s` aliases the saved %s list: the later write-back from `%s` restores nothing" % (text, var, cell, var), [], getattr(astn, "lineno", f.lineno)))
    return out, nodes


def run(repo, chk, tier):
    from .c17_params import check_temp_params_cover

    check_temp_params_cover(repo, chk)
    chk.rule("R0", "a surface function that writes a state cell writes it back (no orphan write / snapshot)")
    chk.rule(
        "R1",
        "save/restore pairing on all exits: no state cell is dirty at the normal exit, at the exceptional exit "
        "(exception edge out of every call) or at generator close (GeneratorExit edge out of every yield)",
    )
    chk.rule("R2", "a write-back counts as a restore only if its value derives from a snapshot of the same cell taken while the cell was clean")
    chk.rule("R3", "no in-place mutation of a cell's list while an alias snapshot of it is live")
    chk.rule("R4", "a parameter snapshot taken with val_in_fit=A is restored with val_in_fit=A (signature defaults resolved)")
    chk.rule("R6", "a parameter snapshot is not taken through a reader that applies the mask_vars override (nested temp_params inside mask_params must not write masked values into the variables)")
    chk.assume("state cells: chains_idx, VarsManager.variables values, mask_vars, mask_factor flags, tf_pwa.config entries; equality of all cells implies equal density")
    chk.assume("an exception raised by a writer call is raised before its effect (lenient model); a restoring call completes")
    chk.assume("receiver table of sa/resolve.py (vm, decay_group, amp, model, fcn ...) types non-self receivers")

    eff, analyses, scope = analyse_all(repo)
    # functions whose result may come from the mask_vars override (fix-point over resolved calls)
    mask_readers = set()
    for g in repo.all_fns():
        if any(isinstance(x, ast.Attribute) and x.attr == "mask_vars" and isinstance(x.ctx, ast.Load) for x in walk_stmt(g.node)):
            mask_readers.add(g)
    changed = True
    while changed:
        changed = False
        for g in repo.all_fns():
            if g in mask_readers:
                continue
            for n_, cands_, how_ in eff.calls.get(g, ()):
                if how_ in ("byname", "class"):
                    continue
                if any(c in mask_readers for c in cands_) and any(isinstance(r, ast.Return) for r in walk_stmt(g.node)):
                    mask_readers.add(g)
                    changed = True
                    break

    n_surface = 0
    for key, (cells, kind, reason) in sorted(SURFACE.items()):
        f = repo.fn(key)  # AnalysisError if vanished
        an = analyses.get(f)
        if an is None:
            an = FnAnalysis(f, eff, scope)
        if kind == "delegate" and not f.is_contextmanager():
            # a pass-through may hand back the inner manager itself (`return self.vm.mask_params(var)`) instead of
            # wrapping it in `with inner: yield`: the caller enters the very manager the wrapper would have entered
            body_ = [st for st in f.node.body if not (isinstance(st, ast.Expr) and isinstance(st.value, ast.Constant))]
            mgr_names = {k.split("::")[1].split(".")[-1] for k, v in SURFACE.items() if v[1] in ("manager", "delegate")}
            if len(body_) == 1 and isinstance(body_[0], ast.Return) and isinstance(body_[0].value, ast.Call) and isinstance(body_[0].value.func, (ast.Attribute, ast.Name)) and (body_[0].value.func.attr if isinstance(body_[0].value.func, ast.Attribute) else body_[0].value.func.id) in mgr_names:
                n_surface += 1
                chk.instance("R1", "%s [delegate] returns the inner manager `%s` itself" % (key, norm_text(body_[0].value)[:60]), nontrivial=False)
                continue
        if kind in ("manager", "delegate") and not f.is_contextmanager():
            raise AnalysisError("surface entry %s is no longer a @contextmanager" % key)
        n_surface += 1
        rel, qual = key.split("::")
        touched = an.touched_cells()
        pairs = ["%s<-%s" % (r[0], r[1]) for r in an.restores]
        scopes = ["with %s scopes %s" % (",".join(m.split("::")[1] for m in ms), ",".join(cs)) for _, ms, cs in an.with_scopes]
        chk.instance(
            "R1",
            "%s [%s] cells=%s restores=%s %s cfg_nodes=%d"
            % (key, kind, ",".join(sorted(touched)) or "-", ";".join(pairs) or "-", ";".join(scopes), len(an.cfg.nodes)),
            nontrivial=bool(touched),
        )
        seen = set()
        for cell, exit_kind, path in an.dirty_exits:
            if cell not in cells:
                continue
            if (cell, exit_kind) in seen:
                continue
            seen.add((cell, exit_kind))
            has_restore = any(r[0] == cell for r in an.restores) or any(cell in cs for _, _, cs in an.with_scopes)
            rule = "R1" if has_restore else "R0"
            if has_restore:
                msg = "cell '%s' may be left modified at the %s exit; path: %s" % (cell, exit_kind, " -> ".join(path[-12:]))
            else:
                writes = [w[1] for w in an.writes if w[0] == cell]
                msg = "cell '%s' is written (%s) and never written back from a snapshot of that cell taken before the write" % (
                    cell,
                    "; ".join(writes[:3]),
                )
            chk.violation(rule, key, "%s@%s" % (cell, exit_kind), msg, file=rel, line=f.lineno, path=path)
        for cell, var, text, astn in an.alias_inplace:
            chk.violation(
                "R3", key, "%s:%s" % (cell, text),
                "in-place mutation `%s` while `%s` aliases the saved %s list" % (text, var, cell),
                file=rel, line=getattr(astn, "lineno", None),
            )
        # R6 a parameter snapshot must hold the real values, not the masked view
        for scell, svar, stext, alias, sast in an.snapshots:
            if scell != "params" or "params" not in cells:
                continue
            for n in walk_stmt(sast):
                if isinstance(n, ast.Call):
                    cands, how = eff.res.resolve_call(f, n)
                    if how == "byname":
                        continue
                    masked = [g for g in cands if g in mask_readers and "params" in eff.readers.get(g, ())]
                    if "params" in eff.call_reads(f, n):
                        chk.instance("R6", "%s snapshot `%s` reads through the mask: %s" % (key, norm_text(n), bool(masked)))
                    if masked:
                        chk.violation(
                            "R6", key, "masked-snapshot:%s" % svar,
                            "the snapshot `%s` is taken through %s, which returns mask_vars overrides instead of the variables' own values: inside a mask_params block the restore writes the masked values into the real parameters" % (norm_text(n), masked[0].key),
                            file=rel, line=getattr(sast, "lineno", None),
                        )
        # R4 coordinate agreement
        for cell, var, text, astn in an.restores:
            if cell != "params" or not isinstance(astn, ast.Call):
                continue
            rc = coordinate_of_call(eff, f, astn)
            for scell, svar, stext, alias, sast in an.snapshots:
                if scell != "params" or svar != var:
                    continue
                for n in walk_stmt(sast):
                    if isinstance(n, ast.Call) and "params" in eff.call_reads(f, n):
                        sc = coordinate_of_call(eff, f, n)
                        chk.instance("R4", "%s snapshot `%s` val_in_fit=%s / restore `%s` val_in_fit=%s" % (key, norm_text(n), sc, text, rc))
                        if sc is not None and rc is not None and sc != rc:
                            chk.violation(
                                "R4", key, "params:%s" % var,
                                "snapshot `%s` is taken with val_in_fit=%s but restored by `%s` with val_in_fit=%s" % (norm_text(n), sc, text, rc),
                                file=rel, line=getattr(astn, "lineno", None),
                            )

    # excluded managers must stay free of model-cell writes
    for key, reason in EXCLUDED_MANAGERS.items():
        f = repo.fn(key)
        an = analyses.get(f)
        w = an.touched_cells() | an.dirty_cells() if an is not None else set()
        chk.instance("R0", "%s excluded (%s); model cells touched: %s" % (key, reason, ",".join(sorted(w)) or "none"), nontrivial=False)
        if an is not None and an.dirty_cells():
            chk.violation("R1", key, ",".join(sorted(an.dirty_cells())), "manager excluded as cell-free now leaves cells dirty", file=key.split("::")[0], line=f.lineno)

    # every contextmanager of the program is either on the surface or excluded
    for f in repo.all_fns():
        if f.is_contextmanager() and f.key.split("#")[0] not in SURFACE and f.key not in EXCLUDED_MANAGERS:
            an = analyses.get(f)
            if an is not None and (an.dirty_cells() or an.touched_cells()):
                # a manager that saves and restores some cells is judged on those cells (set_params also passes through
                # the bounds table without changing it - the same tolerance the surface entry of temp_params has)
                own_cells = {r[0] for r in an.restores} or set(an.touched_cells())
                for cell, exit_kind, path in [d_ for d_ in an.dirty_exits if not own_cells or d_[0] in own_cells][:2]:
                    chk.violation(
                        "R1", f.key, "%s@%s" % (cell, exit_kind),
                        "context manager not on the frozen surface leaves cell '%s' modified at the %s exit" % (cell, exit_kind),
                        file=f.mod.rel, line=f.lineno, path=path,
                    )
                chk.instance("R1", "%s [new manager] cells=%s" % (f.key, ",".join(sorted(an.touched_cells()))))
            else:
                chk.info("context manager %s writes no model cell" % f.key)

    # same shape outside the surface: INFO only
    for f, an in sorted(analyses.items(), key=lambda kv: kv[0].key):
        if f.key in SURFACE or f.is_contextmanager():
            continue
        if an.restores and an.dirty_exits:
            cells = sorted({c for c, _, _ in an.dirty_exits} & {r[0] for r in an.restores})
            if cells:
                chk.info(
                    "same save/restore shape outside the armed surface: %s cells=%s exits=%s (not among the computations the statement enumerates)"
                    % (f.key, ",".join(cells), ",".join(sorted({e for _, e, _ in an.dirty_exits})))
                )
    derived_flag(repo, chk)
    chk.extra["surface_functions"] = n_surface
    chk.extra["functions_with_cfg"] = len(analyses)
    chk.extra["cfg_nodes_total"] = sum(len(a.cfg.nodes) for a in analyses.values())
    chk.require_count("R1", MIN_SURFACE_INSTANCES)
    # positive fixture: the analysis must flag the broken twin and accept the good twin
    _fixture(chk)


_SUC_CACHE = {}


def _set_used_chains_flag(repo, f):
    """set_used_chains interpreted on a group of three chains: afterwards not_full == (len(used) != 3) and
    chains_idx == list(used) for selections of every length (robust to any rewriting of the branch)"""
    if f.key in _SUC_CACHE:
        return _SUC_CACHE[f.key]
    import sympy as sp

    from ..sym import SelfObj, Translator, Unmodelled

    ok = True
    for used in ([], [0], [2], [0, 1], [0, 1, 2], [2, 0, 1]):
        tr = Translator(repo, hooks={"allow_attr_store": True}, max_depth=3)
        so = SelfObj(f.cls, {"chains": ["c0", "c1", "c2"], "chains_idx": [0, 1, 2], "not_full": False})
        try:
            tr.call_fn(f, [[sp.Integer(i) for i in used]], self_obj=so)
        except Unmodelled as e:
            raise AnalysisError("set_used_chains not interpretable: %s" % e)
        flag = so.attrs.get("not_full")
        idx = [int(i) for i in so.attrs.get("chains_idx", [])]
        if bool(flag) != (len(used) != 3) or flag not in (True, False, sp.true, sp.false) or idx != used:
            ok = False
    _SUC_CACHE[f.key] = ok
    return ok


def derived_flag(repo, chk):
    """R5: `not_full` guards the cached (graph-compiled) density, which bakes in the chain selection it
    was traced with.  A stale True only disables the cache (safe); a False while the selection is narrowed
    makes amp(data) return the density of another chain set.  So `not_full = False` may be written only
    where chains_idx is known to be the complete list."""
    chk.rule("R5", "the derived flag not_full is set to False only in DecayGroup.__init__ (full list) and by set_used_chains exactly when the selection has the length of the chain list (set_used_chains interpreted on selections of every length of a three-chain group); anywhere else only True may be stored")
    n = 0
    for rel, m in sorted(repo.mods.items()):
        for f in m.funcs.values():
            for st in walk_stmt(f.node):
                if not isinstance(st, ast.Assign):
                    continue
                for t in st.targets:
                    if isinstance(t, ast.Attribute) and t.attr == "not_full":
                        n += 1
                        val = norm_text(st.value)
                        where = f.key
                        ok = False
                        if val == "True":
                            ok = True
                        elif where == "tf_pwa/amp/core.py::DecayGroup.__init__":
                            from .c07 import expand as _expand, single_defs as _single_defs

                            _defs = {k: v for k, v in _single_defs(f.node).items() if k not in ("chains", "self.chains", "self.chains_idx")}
                            ok = val == "False" and any(
                                isinstance(x, ast.Assign) and norm_text(x.targets[0]) == "self.chains_idx" and norm_text(_expand(x.value, _defs)).replace(" ", "") in ("list(range(len(chains)))", "list(range(len(self.chains)))", "list(range(0,len(chains)))", "[*range(len(chains))]")
                                for x in walk_stmt(f.node)
                            )
                        elif where == "tf_pwa/amp/core.py::DecayGroup.set_used_chains":
                            ok = _set_used_chains_flag(repo, f)
                        chk.instance("R5", "%s: `%s` %s" % (where, norm_text(st), "ok" if ok else "NOT ALLOWED"))
                        if not ok:
                            chk.violation("R5", where, "not_full:%s" % val, "`%s` clears the not-full flag where the chain selection is not known to be complete: the cached (compiled) density is used with whatever chain set it was traced for" % norm_text(st), file=rel, line=st.lineno)
    if n < 2:
        raise AnalysisError("fewer than 2 writes of not_full found")


def _fixture(chk):
    import os

    from ..model import Repo

    here = os.path.join(os.path.dirname(os.path.dirname(os.path.abspath(__file__))), "fixtures", "c17")
    frepo = Repo(here, package="tf_pwa")
    eff, analyses, scope = analyse_all(frepo)
    got = {}
    for f, an in analyses.items():
        got[f.qual] = (sorted(an.dirty_cells()), bool(an.alias_inplace))
    expect = {
        "Group.bad_manager": (["chains"], False),
        "Group.good_manager": ([], False),
        "Group.bad_compute": (["chains"], False),
        "Group.good_compute": ([], False),
        "Group.bad_generator": (["chains"], False),
        "Group.good_generator": ([], False),
        "Group.bad_alias": ([], True),
        "Group.good_delegate": ([], False),
        "Group.bad_wrong_snapshot": (["chains"], False),
        "Group.bad_late_snapshot": (["chains"], False),
        "Group.bad_early_return": (["chains"], False),
        "Group.good_except_reraise": ([], False),
    }
    for k, v in expect.items():
        if got.get(k) != v:
            raise AnalysisError("C17 fixture %s: expected %s, analysis says %s" % (k, v, got.get(k)))
    chk.instance("R1", "fixture: %d positive/negative examples classified as expected" % len(expect), nontrivial=False)
