"""C12 - the bundled Clebsch-Gordan fallback table and its lookup agree with the exact values.

Decided (no tf_pwa import, no execution of repo code; the repo's JSON table is
read as data, tf_pwa/cg.py as AST):

  E5-cg           every leaf cg_table[j1][j2][m1][m2][J][M] of the JSON file that
                  tf_pwa/cg.py loads equals <j1 m1 j2 m2 | J M> computed here by
                  the Racah formula in fractions.Fraction with one final sqrt
                  (|delta| < 1e-12), and its key path satisfies the selection
                  rules (m1+m2=M, triangle, |m|<=j, integral j-m).
  E5-cg-complete  inside every stored (j1,j2) block no admissible key path with a
                  non-zero exact coefficient is missing (the lookup turns a
                  missing path into 0.0).
  E5-args         cg_coef hands every one of its parameters to sympy's CG and to
                  get_cg_coef in the same role.
  E5-swap         on every path of get_cg_coef (path summaries from a symbolic
                  execution of its AST, nested helper inlined) the table is
                  indexed by the six parameters either in their own roles or
                  with the pair (j1,m1)<->(j2,m2) exchanged - nothing else.
  E5-sign         the factor multiplying the looked-up value is (-1)^(j1+j2-J)
                  on an exchanged path and +1 on an unexchanged one, for every
                  spin triple of the table's domain that reaches the path.
  E5-key          the key conversion of the lookup produces exactly the JSON key
                  spelling for every key value occurring in the file.
  E5-lookup       bounded model check of the path summaries: for every admissible
                  (j1,j2,m1,m2,J,M) with j1,j2 in the table's spin range (both
                  orderings, and spin 0) the summary's value equals the exact
                  coefficient; on the paths that consult the table also for every
                  (J, M=m1+m2) outside the selection rules, where the miss handler
                  has to produce the exact value 0.

The path summaries are evaluated with the checker's own evaluator of a small
expression language (fails closed on anything else); Python's eval/exec/compile
are never applied to repo code.
"""
import ast as _ast
import ast
import copy
import json
import math
import os
from fractions import Fraction

from ..model import AnalysisError, bind_call, dotted, norm_text, walk_local

LEVEL = "proof"

CG_REL = "tf_pwa/cg.py"
DFUN_REL = "tf_pwa/dfun.py"
MIN_ENTRIES = 1638  # leaves of cg_table.json today; fewer -> ANALYSIS-ERROR
MIN_BLOCKS = 10  # (j1,j2) blocks today
TABLE_DEPTH = 6
TOL = 1e-12
MAX_VIOL = 20  # violation records per rule
ROLES = ("j1", "j2", "m1", "m2", "J", "M")  # nesting order of the JSON table
SYMPY_CG_ROLES = ("j1", "m1", "j2", "m2", "J", "M")  # sympy.physics.quantum.cg.CG(j1, m1, j2, m2, j3, m3)
EXCHANGE = {"j1": "j2", "j2": "j1", "m1": "m2", "m2": "m1", "J": "J", "M": "M"}


# ------------------------------------------------------------------ exact CG
_FACT = [1]


def _fact(n):
    if n != int(n) or n < 0:
        raise ValueError("factorial of %s" % n)
    n = int(n)
    while len(_FACT) <= n:
        _FACT.append(_FACT[-1] * len(_FACT))
    return _FACT[n]


def admissible(j1, j2, m1, m2, J, M):
    """selection rules; returns None when fine, else the name of the broken rule"""
    for j in (j1, j2, J):
        if j < 0 or (2 * j).denominator != 1:
            return "spin %s is not a non-negative half-integer" % j
    for j, m, nm in ((j1, m1, "m1"), (j2, m2, "m2"), (J, M, "M")):
        if abs(m) > j:
            return "|%s|=%s exceeds its spin %s" % (nm, abs(m), j)
        if (j - m).denominator != 1:
            return "%s=%s is not spin %s minus an integer" % (nm, m, j)
    if m1 + m2 != M:
        return "m1+m2=%s differs from M=%s" % (m1 + m2, M)
    if not (abs(j1 - j2) <= J <= j1 + j2):
        return "triangle rule |j1-j2|<=J<=j1+j2 broken (J=%s)" % J
    if (j1 + j2 - J).denominator != 1:
        return "j1+j2-J is not an integer"
    return None


_CG_CACHE = {}


def cg_sq(j1, m1, j2, m2, J, M):
    """(sign, square) of <j1 m1 j2 m2|J M>: exact rationals (Racah's formula)"""
    key = (j1, m1, j2, m2, J, M)
    if key in _CG_CACHE:
        return _CG_CACHE[key]
    j1, m1, j2, m2, J, M = [Fraction(x) for x in key]
    if admissible(j1, j2, m1, m2, J, M) is not None:
        r = (0, Fraction(0))
    else:
        pref = Fraction(
            (2 * J + 1) * _fact(J + j1 - j2) * _fact(J - j1 + j2) * _fact(j1 + j2 - J),
            _fact(j1 + j2 + J + 1),
        )
        pref *= _fact(J + M) * _fact(J - M) * _fact(j1 - m1) * _fact(j1 + m1) * _fact(j2 - m2) * _fact(j2 + m2)
        kmin = max(0, j2 - J - m1, j1 + m2 - J)
        kmax = min(j1 + j2 - J, j1 - m1, j2 + m2)
        s = Fraction(0)
        k = Fraction(kmin)
        while k <= kmax:
            den = (
                _fact(k) * _fact(j1 + j2 - J - k) * _fact(j1 - m1 - k) * _fact(j2 + m2 - k)
                * _fact(J - j2 + m1 + k) * _fact(J - j1 - m2 + k)
            )
            s += Fraction((-1) ** int(k), den)
            k += 1
        sq = pref * s * s
        r = ((s > 0) - (s < 0), sq)
    _CG_CACHE[key] = r
    return r


def cg_exact(j1, m1, j2, m2, J, M):
    """float value: the exact rational square, one sqrt, the exact sign"""
    sign, sq = cg_sq(j1, m1, j2, m2, J, M)
    if sign == 0:
        return 0.0
    return sign * math.sqrt(sq)


def _selftest():
    """the reference itself: closed-form values, unitarity (exact), Condon-Shortley sign"""
    h = Fraction(1, 2)
    known = [
        ((1, 0, 1, 0, 1, 0), (0, Fraction(0))),
        ((h, h, h, -h, 1, 0), (1, Fraction(1, 2))),
        ((h, h, h, -h, 0, 0), (1, Fraction(1, 2))),
        ((h, -h, h, h, 0, 0), (-1, Fraction(1, 2))),
        ((1, 1, 1, -1, 0, 0), (1, Fraction(1, 3))),
        ((1, 0, 1, 0, 0, 0), (-1, Fraction(1, 3))),
        ((1, 0, 1, 0, 2, 0), (1, Fraction(2, 3))),
        ((2, 0, 2, 0, 2, 0), (-1, Fraction(2, 7))),
        ((2, 1, 1, -1, 1, 0), (1, Fraction(3, 10))),
        ((1, 1, h, -h, h, h), (1, Fraction(2, 3))),
        ((1, 0, h, h, h, h), (-1, Fraction(1, 3))),
    ]
    for args, want in known:
        got = cg_sq(*args)
        if got != want:
            raise AnalysisError("checker self-test: reference CG%s = %s, closed form says %s" % (args, got, want))
    spins = [Fraction(k, 2) for k in range(0, 9)]
    for j1 in spins:
        for j2 in spins:
            if j1 + j2 > 5:
                continue
            J = abs(j1 - j2)
            while J <= j1 + j2:
                # stretched state positive (Condon-Shortley)
                if cg_sq(j1, j1, j2, J - j1, J, J)[0] != 1:
                    raise AnalysisError("checker self-test: <j1 j1 j2 J-j1|J J> not positive for %s %s %s" % (j1, j2, J))
                M = -J
                while M <= J:
                    tot = Fraction(0)
                    m1 = -j1
                    while m1 <= j1:
                        tot += cg_sq(j1, m1, j2, M - m1, J, M)[1]
                        m1 += 1
                    if tot != 1:
                        raise AnalysisError("checker self-test: sum_m |CG|^2 = %s for %s %s %s %s" % (tot, j1, j2, J, M))
                    M += 1
                J += 1


# ---------------------------------------------------------- locating the table
def _module_level_nodes(tree):
    """all nodes of the module outside function/class bodies"""
    stack = list(tree.body)
    while stack:
        n = stack.pop()
        if isinstance(n, (ast.FunctionDef, ast.AsyncFunctionDef, ast.ClassDef, ast.Lambda)):
            continue
        yield n
        stack.extend(ast.iter_child_nodes(n))


def _json_source(mod, call):
    """the file-object expression of `json.load(src)` / `json.loads(src.read())`, else None"""
    if not isinstance(call, ast.Call):
        return None
    d = dotted(call.func)
    if d is None or len(call.args) != 1:
        return None
    head, last = d.split(".")[0], d.split(".")[-1]
    is_json = (d.count(".") == 1 and mod.imports.get(head, (None, None))[0] == "json") or (d.count(".") == 0 and mod.imports.get(d, (None, None))[0] == "json")
    if not is_json:
        return None
    if last == "load":
        return call.args[0]
    if last == "loads":
        a0 = call.args[0]
        if isinstance(a0, ast.Call) and isinstance(a0.func, ast.Attribute) and a0.func.attr == "read" and not a0.args:
            return a0.func.value
    return None


def locate_table(repo):
    """(global name the table is bound to, JSON file path relative to the repo, lineno)"""
    mod = repo.mod(CG_REL)
    found = []  # (assignment, json call, scope to search for the `with open(...)`)
    for n in _module_level_nodes(mod.tree):
        if not (isinstance(n, ast.Assign) and len(n.targets) == 1 and isinstance(n.targets[0], ast.Name)):
            continue
        if _json_source(mod, n.value) is not None:
            found.append((n, n.value, mod.tree))
        elif isinstance(n.value, ast.Call) and isinstance(n.value.func, ast.Name) and not n.value.args and not n.value.keywords:
            # a small loader function: def _load(): with open(..) as f: return json.load(f)
            f = mod.funcs.get(n.value.func.id)
            if f is not None and f.parent is None:
                inner = [c for c in ast.walk(f.node) if _json_source(mod, c) is not None]
                rets = [r for r in ast.walk(f.node) if isinstance(r, ast.Return)]
                if len(inner) == 1 and len(rets) == 1 and rets[0].value is not None and (
                    rets[0].value is inner[0]
                    or (isinstance(rets[0].value, ast.Name) and any(isinstance(a_, ast.Assign) and a_.value is inner[0] and isinstance(a_.targets[0], ast.Name) and a_.targets[0].id == rets[0].value.id for a_ in ast.walk(f.node)))
                ):
                    found.append((n, inner[0], f.node))
    if len(found) != 1:
        raise AnalysisError("%s: expected exactly one module-level `<name> = json.load(...)`, found %d" % (CG_REL, len(found)))
    asg, jcall, scope = found[0]
    src = _json_source(mod, jcall)
    open_call = None
    if isinstance(src, ast.Call) and dotted(src.func) == "open":
        open_call = src
    elif isinstance(src, ast.Name):
        for n in ast.walk(scope):
            if isinstance(n, ast.With):
                for it in n.items:
                    if (
                        isinstance(it.optional_vars, ast.Name) and it.optional_vars.id == src.id
                        and isinstance(it.context_expr, ast.Call) and dotted(it.context_expr.func) == "open"
                        and any(s_ is jcall for s_ in ast.walk(n))
                    ):
                        open_call = it.context_expr
    if open_call is None or not open_call.args:
        raise AnalysisError("%s: cannot find the open(...) feeding json.load" % CG_REL)
    path_expr = open_call.args[0]
    # the path may be built first and bound to a name: follow (single) module-level assignments
    for _ in range(3):
        if isinstance(path_expr, ast.Name):
            defs_ = [n for n in ast.walk(scope) if isinstance(n, ast.Assign) and len(n.targets) == 1 and isinstance(n.targets[0], ast.Name) and n.targets[0].id == path_expr.id]
            if len(defs_) == 1:
                path_expr = defs_[0].value
                continue
        break
    names = [
        c.value for c in ast.walk(path_expr)
        if isinstance(c, ast.Constant) and isinstance(c.value, str) and c.value.endswith(".json")
    ]
    if len(names) != 1:
        raise AnalysisError("%s: file name of the table not a single '*.json' literal in %s" % (CG_REL, norm_text(open_call)))
    base = names[0].lstrip("/")
    # the path is built relative to the module's directory (os.path.dirname(__file__))
    txt = norm_text(path_expr)
    anchored = "__file__" in txt or any(
        isinstance(v, ast.AST) and "__file__" in norm_text(v)
        for k, v in mod.toplevel_assign.items()
        if k in {x.id for x in ast.walk(path_expr) if isinstance(x, ast.Name)}
    )
    if not anchored:
        raise AnalysisError("%s: table path %s is not anchored at the module directory" % (CG_REL, txt))
    return asg.targets[0].id, os.path.join(os.path.dirname(CG_REL), base), asg.lineno


def _no_dup_pairs(pairs):
    d = {}
    for k, v in pairs:
        if k in d:
            raise AnalysisError("duplicate key %r in the JSON table (later value shadows the earlier one)" % k)
        d[k] = v
    return d


def load_table(repo, rel):
    full = os.path.join(repo.root, rel)
    if not os.path.isfile(full):
        raise AnalysisError("anchor vanished: table file %s" % rel)
    try:
        with open(full, encoding="utf-8") as f:
            t = json.load(f, object_pairs_hook=_no_dup_pairs)
    except ValueError as e:
        raise AnalysisError("cannot parse %s: %s" % (rel, e))
    if not isinstance(t, dict) or not t:
        raise AnalysisError("table %s is empty or not an object" % rel)
    return t


def json_key_lines(repo, rel):
    """key path -> line number in the JSON text (one pass, best effort; keys carry no escapes)"""
    try:
        with open(os.path.join(repo.root, rel), encoding="utf-8") as f:
            text = f.read()
    except OSError:
        return {}
    out = {}
    stack = []  # key under which each open object sits (None for the root)
    pending = None
    i, n, line = 0, len(text), 1
    try:
        while i < n:
            c = text[i]
            if c == "\n":
                line += 1
            elif c == '"':
                j = text.index('"', i + 1)
                s = text[i + 1:j]
                k = j + 1
                while k < n and text[k] in " \t\r\n":
                    k += 1
                if k < n and text[k] == ":":
                    pending = s
                    out[tuple(x for x in stack if x is not None) + (s,)] = line
                i = j
            elif c == "{":
                stack.append(pending)
                pending = None
            elif c == "}":
                stack.pop()
            i += 1
    except (ValueError, IndexError):
        pass
    return out


def walk_leaves(t, path=()):
    if isinstance(t, dict):
        if not t:
            yield path, None
        for k, v in t.items():
            yield from walk_leaves(v, path + (k,))
    else:
        yield path, t


def parse_key(k):
    """JSON key -> Fraction, or None"""
    try:
        v = Fraction(k)
    except (ValueError, ZeroDivisionError):
        return None
    return v


def key_spelling_ok(k):
    """reachable by str() of an int, or of a half-integer float"""
    v = parse_key(k)
    if v is None:
        return False
    if v.denominator == 1:
        return k == str(int(v))
    if v.denominator == 2:
        return k == str(float(v))
    return False


def pyval(fr):
    """the Python value a caller passes for a spin/projection: int when integral, else float"""
    fr = Fraction(fr)
    return int(fr) if fr.denominator == 1 else float(fr)


# ------------------------------------------------------------- part (a): table
def check_table(repo, chk, rel):
    table = load_table(repo, rel)
    entries = {}  # (j1,j2,m1,m2,J,M) Fractions -> value
    blocks = {}
    nviol = 0
    bad_keys = []
    line_of = json_key_lines(repo, rel)
    for path, val in walk_leaves(table):
        where = "%s::%s" % (rel, "cg_table")
        kp = "".join("[%s]" % json.dumps(k) for k in path)
        if len(path) != TABLE_DEPTH or isinstance(val, bool) or not isinstance(val, (int, float)):
            raise AnalysisError("table entry %s is not a number at depth %d (depth %d, value %r)" % (kp, TABLE_DEPTH, len(path), val))
        nums = [parse_key(k) for k in path]
        if any(n is None for n in nums):
            raise AnalysisError("table key path %s has a non-numeric key" % kp)
        for k in path:
            if not key_spelling_ok(k):
                bad_keys.append((kp, k))
        j1, j2, m1, m2, J, M = nums
        broken = admissible(j1, j2, m1, m2, J, M)
        exact = cg_exact(j1, m1, j2, m2, J, M)
        delta = abs(float(val) - exact)
        ok = broken is None and delta < TOL and not (isinstance(val, float) and math.isnan(val))
        chk.oblige("E5-cg", "cg_table%s = %r vs exact %.17g" % (kp, val, exact), ok, show=False)
        b = blocks.setdefault((j1, j2), {"n": 0, "nz": 0, "worst": 0.0, "bad": 0})
        b["n"] += 1
        b["nz"] += 1 if exact != 0.0 else 0
        if broken is None:
            b["worst"] = max(b["worst"], delta)
        if (j1, j2, m1, m2, J, M) in entries:
            raise AnalysisError("two key spellings denote the same entry %s" % kp)
        entries[(j1, j2, m1, m2, J, M)] = float(val)
        if not ok:
            b["bad"] += 1
            nviol += 1
            if nviol <= MAX_VIOL:
                if broken is not None:
                    msg = "entry is outside the selection rules: %s (stored value %r)" % (broken, val)
                else:
                    sg, sq = cg_sq(j1, m1, j2, m2, J, M)
                    msg = "stored %r, exact <%s %s %s %s|%s %s> = %s%ssqrt(%s) = %.17g, |delta| = %.3g" % (
                        val, j1, m1, j2, m2, J, M, "-" if sg < 0 else "", "" if sg else "0*", sq, exact, delta)
                chk.violation("E5-cg", where, "cg_table" + kp, msg, file=rel, line=line_of.get(tuple(path)))
    n = len(entries)
    for (j1, j2), b in sorted(blocks.items()):
        chk.out("  [E5-cg] block j1=%s j2=%s: %d entries (%d non-zero exact), %d bad, worst |delta| = %.2g" % (j1, j2, b["n"], b["nz"], b["bad"], b["worst"]))
    if nviol > MAX_VIOL:
        chk.info("E5-cg: %d entries fail; only the first %d are recorded as violations" % (nviol, MAX_VIOL))

    # completeness of each stored block
    missing_total = []
    for (j1, j2) in sorted(blocks):
        missing = []
        m1 = -j1
        while m1 <= j1:
            m2 = -j2
            while m2 <= j2:
                J = abs(j1 - j2)
                while J <= j1 + j2:
                    M = m1 + m2
                    if abs(M) <= J and (j1, j2, m1, m2, J, M) not in entries and cg_sq(j1, m1, j2, m2, J, M)[0] != 0:
                        missing.append((m1, m2, J, M))
                    J += 1
                m2 += 1
            m1 += 1
        chk.oblige(
            "E5-cg-complete",
            "block j1=%s j2=%s: every admissible (m1,m2,J,M) with non-zero coefficient is stored (%d missing)" % (j1, j2, len(missing)),
            not missing, show=False,
        )
        for m1, m2, J, M in missing[:3]:
            kp = "".join('["%s"]' % pyval(x) for x in (j1, j2, m1, m2, J, M))
            missing_total.append(kp)
            chk.violation(
                "E5-cg-complete", "%s::cg_table" % rel, "cg_table" + kp,
                "entry is absent, so the lookup yields 0.0, but the exact coefficient is %.17g" % cg_exact(j1, m1, j2, m2, J, M),
                file=rel, line=None,
            )
    chk.out("  [E5-cg-complete] %d blocks, %d missing non-zero entries recorded" % (len(blocks), len(missing_total)))

    if bad_keys:
        for kp, k in bad_keys[:MAX_VIOL]:
            chk.violation(
                "E5-key", "%s::cg_table" % rel, "cg_table%s key %s" % (kp, json.dumps(k)),
                "key spelling %r is not what str() gives for an int or half-integer spin: unreachable by the lookup" % k,
                file=rel, line=None,
            )
    if n < MIN_ENTRIES or len(blocks) < MIN_BLOCKS:
        raise AnalysisError(
            "table %s has %d entries in %d blocks, fewer than the %d/%d verified when the check was written%s"
            % (rel, n, len(blocks), MIN_ENTRIES, MIN_BLOCKS, ("; missing e.g. " + ", ".join(missing_total[:5])) if missing_total else "")
        )
    chk.extra["cg_table_entries"] = n
    chk.extra["cg_table_blocks"] = len(blocks)
    chk.extra["cg_table_worst_delta"] = max(b["worst"] for b in blocks.values())
    return table, entries, blocks, not bad_keys


# ------------------------------------------- symbolic execution of get_cg_coef
TRY = "__try__"
HOLE = "__T__"
CATCHES_KEYERROR = {None, "Exception", "BaseException", "KeyError", "LookupError"}


class LookupMiss(Exception):
    pass


class Path:
    def __init__(self, conds, asserts, ret):
        self.conds = conds  # [(expr, taken)]
        self.asserts = asserts  # [expr]
        self.ret = ret

    def cond_text(self):
        return " and ".join(("%s" if t else "not (%s)") % norm_text(c) for c, t in self.conds) or "always"


class _Subst(ast.NodeTransformer):
    def __init__(self, env, fns, where):
        self.env, self.fns, self.where = env, fns, where

    def visit_Name(self, n):
        if isinstance(n.ctx, ast.Load) and n.id in self.env:
            return copy.deepcopy(self.env[n.id])
        return n

    def visit_Call(self, n):
        if isinstance(n.func, ast.Name) and n.func.id in self.fns and n.func.id not in self.env:
            fnode, fenv, ffns = self.fns[n.func.id]
            args = [self.visit(a) for a in n.args]
            kws = {k.arg: self.visit(k.value) for k in n.keywords}
            if any(isinstance(a, ast.Starred) for a in n.args) or None in kws:
                raise AnalysisError("%s: star-arguments to helper %s not modelled" % (self.where, n.func.id))
            return inline_call(fnode, args, kws, fenv, ffns, self.where)
        return self.generic_visit(n)

    def _scope(self, n):
        raise AnalysisError("%s: nested scope (%s) inside an expression not modelled" % (self.where, type(n).__name__))

    visit_Lambda = visit_ListComp = visit_SetComp = visit_DictComp = visit_GeneratorExp = _scope


def subst(expr, env, fns, where):
    return _Subst(env, fns, where).visit(copy.deepcopy(expr))


def bind_params(fnode, args, kws, where):
    a = fnode.args
    if a.vararg or a.kwarg or a.kwonlyargs or a.posonlyargs:
        raise AnalysisError("%s: signature of %s not modelled" % (where, fnode.name))
    names = [x.arg for x in a.args]
    if len(args) > len(names):
        raise AnalysisError("%s: too many arguments for %s" % (where, fnode.name))
    env = dict(zip(names, args))
    for k, v in kws.items():
        if k not in names or k in env:
            raise AnalysisError("%s: bad keyword %s for %s" % (where, k, fnode.name))
        env[k] = v
    defaults = dict(zip(names[len(names) - len(a.defaults):], a.defaults))
    for nm in names:
        if nm not in env:
            if nm not in defaults:
                raise AnalysisError("%s: parameter %s of %s unbound" % (where, nm, fnode.name))
            env[nm] = copy.deepcopy(defaults[nm])
    return env


def inline_call(fnode, args, kws, outer_env, outer_fns, where):
    env = dict(outer_env)
    env.update(bind_params(fnode, args, kws, where))
    paths = exec_function(fnode, env, dict(outer_fns), where)
    if any(p.asserts for p in paths):
        raise AnalysisError("%s: assert inside helper %s not modelled" % (where, fnode.name))
    return paths_to_expr(paths)


def paths_to_expr(paths):
    """[(conds, ret)] of an exhaustive exclusive fork -> nested conditional expression"""
    if len(paths) == 1:
        return paths[0].ret
    # rebuild the decision tree on the first condition
    first = paths[0].conds[0][0] if paths[0].conds else None
    if first is None:
        raise AnalysisError("unconditional path among several")
    key = ast.dump(first)
    yes, no = [], []
    for p in paths:
        if not p.conds or ast.dump(p.conds[0][0]) != key:
            raise AnalysisError("path fork not a tree")
        (yes if p.conds[0][1] else no).append(Path(p.conds[1:], p.asserts, p.ret))
    return ast.IfExp(test=first, body=paths_to_expr(yes), orelse=paths_to_expr(no))


def exec_function(fnode, env, fns, where):
    states = exec_block(fnode.body, [{"env": env, "fns": fns, "conds": [], "asserts": [], "ret": None, "done": False}], where)
    out = []
    for s in states:
        ret = s["ret"] if s["done"] else ast.Constant(value=None)
        out.append(Path(s["conds"], s["asserts"], ret))
    return out


def _fork(s):
    return {"env": dict(s["env"]), "fns": dict(s["fns"]), "conds": list(s["conds"]), "asserts": list(s["asserts"]), "ret": None, "done": False}


def _try_expr(st, s, where):
    """try: return A  except [T]: return B   ->   ('return', __try__(A, B))   (B taken when the lookup misses)
       try: X = A     except [T]: X = B      ->   ('assign:X', __try__(A, B))"""
    base = len(st.handlers) == 1 and not st.orelse and not st.finalbody and len(st.body) == 1 and len(st.handlers[0].body) == 1
    b0 = st.body[0] if base else None
    h0 = st.handlers[0].body[0] if base else None
    kind = None
    if base and isinstance(b0, ast.Return) and b0.value is not None and isinstance(h0, ast.Return) and h0.value is not None:
        kind = "return"
    elif (
        base and isinstance(b0, ast.Assign) and isinstance(h0, ast.Assign) and len(b0.targets) == 1 and len(h0.targets) == 1
        and isinstance(b0.targets[0], ast.Name) and isinstance(h0.targets[0], ast.Name) and b0.targets[0].id == h0.targets[0].id
    ):
        kind = "assign:" + b0.targets[0].id
    if kind is None:
        raise AnalysisError("%s: try statement at line %d is neither `try: return A / except: return B` nor `try: X = A / except: X = B`" % (where, st.lineno))
    h = st.handlers[0]
    if h.type is None:
        tname = None
    elif isinstance(h.type, ast.Name):
        tname = h.type.id
    elif isinstance(h.type, ast.Tuple) and all(isinstance(e, ast.Name) for e in h.type.elts):
        tname = next((e.id for e in h.type.elts if e.id in CATCHES_KEYERROR), h.type.elts[0].id)
    else:
        raise AnalysisError("%s: except clause type not modelled" % where)
    body = subst(st.body[0].value, s["env"], s["fns"], where)
    handler = subst(h.body[0].value, s["env"], s["fns"], where)
    catches = ast.Constant(value=tname in CATCHES_KEYERROR)
    return kind, ast.Call(func=ast.Name(id=TRY, ctx=ast.Load()), args=[body, handler, catches], keywords=[])


def exec_block(stmts, states, where):
    for st in stmts:
        live = [s for s in states if not s["done"]]
        if not live:
            break
        nxt = [s for s in states if s["done"]]
        for s in live:
            if isinstance(st, ast.Expr) and isinstance(st.value, ast.Constant):
                nxt.append(s)
            elif isinstance(st, ast.Pass):
                nxt.append(s)
            elif isinstance(st, ast.Assert):
                s["asserts"].append(subst(st.test, s["env"], s["fns"], where))
                nxt.append(s)
            elif isinstance(st, ast.Return):
                s["ret"] = subst(st.value, s["env"], s["fns"], where) if st.value is not None else ast.Constant(value=None)
                s["done"] = True
                nxt.append(s)
            elif isinstance(st, ast.Assign):
                val = subst(st.value, s["env"], s["fns"], where)
                for tgt in st.targets:
                    _assign(tgt, val, s, where)
                nxt.append(s)
            elif isinstance(st, ast.AugAssign):
                if not isinstance(st.target, ast.Name):
                    raise AnalysisError("%s: augmented assignment target not modelled (line %d)" % (where, st.lineno))
                cur = subst(ast.Name(id=st.target.id, ctx=ast.Load()), s["env"], s["fns"], where)
                s["env"][st.target.id] = ast.BinOp(left=cur, op=st.op, right=subst(st.value, s["env"], s["fns"], where))
                nxt.append(s)
            elif isinstance(st, ast.If):
                test = subst(st.test, s["env"], s["fns"], where)
                a, b = _fork(s), _fork(s)
                a["conds"].append((test, True))
                b["conds"].append((test, False))
                nxt.extend(exec_block(st.body, [a], where))
                nxt.extend(exec_block(st.orelse, [b], where))
            elif isinstance(st, ast.FunctionDef):
                if st.decorator_list:
                    raise AnalysisError("%s: decorated nested helper %s not modelled" % (where, st.name))
                # late binding of free variables: the environment at the call is used; calls are
                # substituted after all assignments of this straight-line body, which coincides here
                s["fns"][st.name] = (st, s["env"], s["fns"])
                s["env"].pop(st.name, None)
                nxt.append(s)
            elif isinstance(st, ast.Try):
                kind, texpr = _try_expr(st, s, where)
                if kind == "return":
                    s["ret"] = texpr
                    s["done"] = True
                else:
                    s["env"][kind.split(":", 1)[1]] = texpr
                    s["fns"].pop(kind.split(":", 1)[1], None)
                nxt.append(s)
            else:
                raise AnalysisError("%s: statement `%s` (line %d) not modelled" % (where, type(st).__name__, st.lineno))
        states = nxt
    return states


def _assign(tgt, val, s, where):
    if isinstance(tgt, ast.Name):
        s["env"][tgt.id] = val
        s["fns"].pop(tgt.id, None)
    elif isinstance(tgt, (ast.Tuple, ast.List)) and isinstance(val, (ast.Tuple, ast.List)) and len(tgt.elts) == len(val.elts):
        pairs = []

        def flat(t, v):
            if isinstance(t, ast.Name):
                pairs.append((t, v))
            elif isinstance(t, (ast.Tuple, ast.List)) and isinstance(v, (ast.Tuple, ast.List)) and len(t.elts) == len(v.elts):
                for t2, v2 in zip(t.elts, v.elts):
                    flat(t2, v2)
            else:
                raise AnalysisError("%s: assignment target not modelled" % where)

        flat(tgt, val)
        for t, v in pairs:
            s["env"][t.id] = v
    else:
        raise AnalysisError("%s: assignment `%s = ...` not modelled" % (where, norm_text(tgt)))


# ----------------------------------------------------------- tiny evaluator
_BIN = {
    ast.Add: lambda a, b: a + b, ast.Sub: lambda a, b: a - b, ast.Mult: lambda a, b: a * b,
    ast.Div: lambda a, b: a / b, ast.FloorDiv: lambda a, b: a // b, ast.Mod: lambda a, b: a % b,
    ast.Pow: lambda a, b: a ** b, ast.BitAnd: lambda a, b: a & b, ast.BitOr: lambda a, b: a | b,
    ast.BitXor: lambda a, b: a ^ b, ast.LShift: lambda a, b: a << b, ast.RShift: lambda a, b: a >> b,
}
_CMP = {
    ast.Eq: lambda a, b: a == b, ast.NotEq: lambda a, b: a != b, ast.Lt: lambda a, b: a < b,
    ast.LtE: lambda a, b: a <= b, ast.Gt: lambda a, b: a > b, ast.GtE: lambda a, b: a >= b,
    ast.In: lambda a, b: a in b, ast.NotIn: lambda a, b: a not in b,
    ast.Is: lambda a, b: a is b, ast.IsNot: lambda a, b: a is not b,
}
_SAFE_CALLS = {"str": str, "int": int, "float": float, "abs": abs, "round": round, "min": min, "max": max, "bool": bool, "pow": pow, "repr": repr}


def ev(n, val, glob):
    if isinstance(n, ast.Constant):
        return n.value
    if isinstance(n, ast.Name):
        if n.id in val:
            return val[n.id]
        if n.id in glob:
            return glob[n.id]
        raise AnalysisError("value of name `%s` is not known to the path evaluator" % n.id)
    if isinstance(n, ast.BinOp):
        f = _BIN.get(type(n.op))
        if f is None:
            raise AnalysisError("operator %s not modelled" % type(n.op).__name__)
        try:
            return f(ev(n.left, val, glob), ev(n.right, val, glob))
        except (ZeroDivisionError, TypeError, ValueError) as e:
            raise AnalysisError("`%s` raises %s on the table domain" % (norm_text(n), type(e).__name__))
    if isinstance(n, ast.UnaryOp):
        v = ev(n.operand, val, glob)
        if isinstance(n.op, ast.USub):
            return -v
        if isinstance(n.op, ast.UAdd):
            return +v
        if isinstance(n.op, ast.Not):
            return not v
        raise AnalysisError("unary operator not modelled")
    if isinstance(n, ast.BoolOp):
        r = None
        for x in n.values:
            r = ev(x, val, glob)
            if isinstance(n.op, ast.And) and not r:
                return r
            if isinstance(n.op, ast.Or) and r:
                return r
        return r
    if isinstance(n, ast.Compare):
        left = ev(n.left, val, glob)
        for op, c in zip(n.ops, n.comparators):
            right = ev(c, val, glob)
            if not _CMP[type(op)](left, right):
                return False
            left = right
        return True
    if isinstance(n, ast.IfExp):
        return ev(n.body, val, glob) if ev(n.test, val, glob) else ev(n.orelse, val, glob)
    if isinstance(n, (ast.Tuple, ast.List)):
        return tuple(ev(e, val, glob) for e in n.elts)
    if isinstance(n, ast.JoinedStr):
        out = []
        for p in n.values:
            if isinstance(p, ast.Constant):
                out.append(str(p.value))
            else:
                v = ev(p.value, val, glob)
                if p.conversion == 114:
                    v = repr(v)
                elif p.conversion == 115:
                    v = str(v)
                spec = ev(p.format_spec, val, glob) if p.format_spec is not None else ""
                out.append(format(v, spec))
        return "".join(out)
    if isinstance(n, ast.Subscript):
        base = ev(n.value, val, glob)
        if isinstance(n.slice, ast.Slice):
            raise AnalysisError("slice not modelled")
        key = ev(n.slice, val, glob)
        if isinstance(base, dict):
            if key not in base:
                raise LookupMiss(key)
            return base[key]
        if isinstance(base, (tuple, list, str)) and isinstance(key, int):
            if not -len(base) <= key < len(base):
                raise AnalysisError("index out of range in `%s`" % norm_text(n))
            return base[key]
        raise AnalysisError("subscript of a %s value in `%s` (key %r)" % (type(base).__name__, norm_text(n), key))
    if isinstance(n, ast.Call):
        if isinstance(n.func, ast.Name) and n.func.id == TRY:
            try:
                return ev(n.args[0], val, glob)
            except LookupMiss:
                if n.args[2].value:
                    return ev(n.args[1], val, glob)
                raise
        if n.keywords:
            raise AnalysisError("keyword call `%s` not modelled" % norm_text(n))
        if isinstance(n.func, ast.Name) and n.func.id in _SAFE_CALLS and n.func.id not in val:
            args = [ev(a, val, glob) for a in n.args]
            try:
                return _SAFE_CALLS[n.func.id](*args)
            except (TypeError, ValueError) as e:
                raise AnalysisError("`%s` raises %s" % (norm_text(n), type(e).__name__))
        if isinstance(n.func, ast.Attribute) and n.func.attr == "get" and 1 <= len(n.args) <= 2:
            base = ev(n.func.value, val, glob)
            if isinstance(base, dict):
                key = ev(n.args[0], val, glob)
                return base[key] if key in base else (ev(n.args[1], val, glob) if len(n.args) == 2 else None)
        raise AnalysisError("call `%s` not modelled by the path evaluator" % norm_text(n))
    raise AnalysisError("expression form %s (`%s`) not modelled by the path evaluator" % (type(n).__name__, norm_text(n)))


# ----------------------------------------------------- lookup chain extraction
class _Hole(ast.NodeTransformer):
    """replace the (outermost) subscript chain rooted at the table global by the name __T__"""

    def __init__(self, table_name):
        self.table_name = table_name
        self.chains = []

    def visit_Subscript(self, n):
        keys = []
        cur = n
        while isinstance(cur, ast.Subscript):
            keys.append(cur.slice)
            cur = cur.value
        if isinstance(cur, ast.Name) and cur.id == self.table_name:
            self.chains.append(list(reversed(keys)))
            return ast.Name(id=HOLE, ctx=ast.Load())
        return self.generic_visit(n)


def split_lookup(ret, table_name):
    h = _Hole(table_name)
    holed = h.visit(copy.deepcopy(ret))
    mentions = any(isinstance(x, ast.Name) and x.id == table_name for x in ast.walk(holed))
    return holed, h.chains, mentions


# --------------------------------------------------------- part (b): cg.py AST
def roles_from_cg_coef(repo, chk):
    """role (j1,j2,m1,m2,J,M) of each get_cg_coef parameter, induced through cg_coef's two branches"""
    mod = repo.mod(CG_REL)
    f = repo.fn(CG_REL + "::cg_coef")
    g = repo.fn(CG_REL + "::get_cg_coef")
    if len(f.params) != 6 or len(g.params) != 6:
        raise AnalysisError("cg_coef/get_cg_coef no longer take six parameters: %s / %s" % (f.params, g.params))
    fb_calls, sy_calls = [], []
    for n in walk_local(f.node):
        if isinstance(n, ast.Call) and isinstance(n.func, ast.Name):
            if n.func.id == g.name and n.func.id not in f.params:
                fb_calls.append(n)
            elif mod.imports.get(n.func.id) == ("sympy.physics.quantum.cg", "CG"):
                sy_calls.append(n)
    if len(fb_calls) != 1:
        raise AnalysisError("cg_coef: expected one call of get_cg_coef (the fallback branch), found %d" % len(fb_calls))
    where = CG_REL + "::cg_coef"

    def plain_param(e, what):
        if not (isinstance(e, ast.Name) and e.id in f.params):
            raise AnalysisError("cg_coef: argument `%s` of %s is not a plain parameter" % (norm_text(e), what))
        return e.id

    bound, extra, star, kwstar = bind_call(fb_calls[0], g, is_method_call=False)
    if extra or star or kwstar or set(bound) != set(g.params):
        raise AnalysisError("cg_coef: call `%s` does not bind the six parameters of get_cg_coef" % norm_text(fb_calls[0]))
    q_from_p = {q: plain_param(e, "get_cg_coef(...)") for q, e in bound.items()}

    ok = True
    if sy_calls:
        if len(sy_calls) != 1:
            raise AnalysisError("cg_coef: several sympy CG(...) calls")
        c = sy_calls[0]
        kwn = ("j1", "m1", "j2", "m2", "j3", "m3")
        if len(c.args) + len(c.keywords) != 6 or any(isinstance(a, ast.Starred) for a in c.args):
            raise AnalysisError("cg_coef: `%s` does not pass six arguments" % norm_text(c))
        role_of_p = {}
        slots = list(zip(SYMPY_CG_ROLES, c.args))
        for kw in c.keywords:
            if kw.arg not in kwn:
                raise AnalysisError("cg_coef: unknown keyword %s of sympy CG" % kw.arg)
            slots.append((SYMPY_CG_ROLES[kwn.index(kw.arg)], kw.value))
        for role, e in slots:
            p = plain_param(e, "CG(...)")
            if p in role_of_p:
                ok = False
                chk.violation("E5-args", where, norm_text(c), "parameter %s is passed to sympy's CG twice (roles %s and %s)" % (p, role_of_p[p], role), file=CG_REL, line=c.lineno)
            role_of_p[p] = role
        if set(role_of_p.values()) != set(ROLES):
            ok = False
        src = "sympy branch `%s`" % norm_text(c)
    else:
        role_of_p = dict(zip(f.params, ROLES))
        chk.assume("cg_coef has no sympy branch; its positional parameters are read as (j1, j2, m1, m2, J, M) as its docstring states")
        src = "positional convention"
    q_role = {}
    for q, p in q_from_p.items():
        q_role[q] = role_of_p.get(p)
    dup = len(set(q_from_p.values())) != 6
    if dup or None in q_role.values() or set(q_role.values()) != set(ROLES):
        ok = False
        chk.violation(
            "E5-args", where, norm_text(fb_calls[0]),
            "the fallback call does not hand each of the six quantities to get_cg_coef exactly once (binding %s, roles %s)" % (q_from_p, q_role),
            file=CG_REL, line=fb_calls[0].lineno,
        )
    chk.oblige(
        "E5-args",
        "cg_coef: %s fixes the roles %s; fallback `%s` induces get_cg_coef roles %s"
        % (src, ", ".join("%s=%s" % (p, role_of_p[p]) for p in f.params if p in role_of_p), norm_text(fb_calls[0]), ", ".join("%s=%s" % (q, q_role[q]) for q in g.params)),
        ok,
    )
    return g, q_role, ok, norm_text(fb_calls[0])


def check_lookup(repo, chk, table_name, table, entries, blocks):
    g, q_role, roles_ok, fb_text = roles_from_cg_coef(repo, chk)
    where = CG_REL + "::get_cg_coef"
    if not roles_ok:
        if not chk.violations:
            raise AnalysisError("roles of get_cg_coef's parameters could not be established")
        chk.info("get_cg_coef is not analysed further: the roles of its parameters are not established (see E5-args)")
        return False
    param_of_role = {r: q for q, r in q_role.items()}
    env0 = {p: ast.Name(id=p, ctx=ast.Load()) for p in g.params}
    # module-level helpers of cg.py are inlined like nested ones (a lookup helper may be hoisted out of get_cg_coef)
    helpers = {f.name: (f.node, {}, {}) for q, f in repo.mod(CG_REL).funcs.items() if "." not in q and f.name not in (g.name, "cg_coef")}
    paths = exec_function(g.node, env0, helpers, where)
    if not paths:
        raise AnalysisError("get_cg_coef: no path reaches a return")
    glob = {table_name: table}

    infos = []
    n_lookup = 0
    for i, p in enumerate(paths):
        holed, chains, mentions = split_lookup(p.ret, table_name)
        d = {"path": p, "holed": holed, "kind": None, "keys": None, "idx": i}
        if not chains:
            if mentions:
                raise AnalysisError("get_cg_coef: the table is used other than by a subscript chain in `%s`" % norm_text(p.ret))
            d["kind"] = "const"
        else:
            if len(chains) != 1:
                raise AnalysisError("get_cg_coef: %d table lookups on one path (`%s`)" % (len(chains), norm_text(p.ret)))
            keys = chains[0]
            if len(keys) != TABLE_DEPTH:
                raise AnalysisError("get_cg_coef: lookup has %d keys, the table is nested %d deep" % (len(keys), TABLE_DEPTH))
            n_lookup += 1
            d["keys"] = keys
            roles = []
            for k in keys:
                syms = {x.id for x in ast.walk(k) if isinstance(x, ast.Name) and x.id in q_role}
                roles.append(q_role[next(iter(syms))] if len(syms) == 1 else None)
            d["key_roles"] = roles
            if tuple(roles) == ROLES:
                d["kind"] = "direct"
            elif tuple(roles) == tuple(EXCHANGE[r] for r in ROLES):
                d["kind"] = "exchanged"
            else:
                d["kind"] = "other"
        infos.append(d)
    if n_lookup == 0:
        raise AnalysisError("get_cg_coef: no path looks the table `%s` up" % table_name)

    # E5-swap
    for d in infos:
        p = d["path"]
        if d["kind"] == "const":
            chk.instance("E5-swap", "get_cg_coef path %d [%s]: returns `%s` without a lookup" % (d["idx"], p.cond_text(), norm_text(p.ret)), nontrivial=False)
            continue
        ktxt = "".join("[%s]" % norm_text(k) for k in d["keys"])
        ok = d["kind"] in ("direct", "exchanged")
        chk.oblige(
            "E5-swap",
            "get_cg_coef path %d [%s]: lookup %s%s reads roles (%s): %s"
            % (d["idx"], p.cond_text(), table_name, ktxt, ",".join(str(r) for r in d["key_roles"]), d["kind"]),
            ok,
        )
        if not ok:
            chk.violation(
                "E5-swap", where, "%s%s" % (table_name, ktxt),
                "on the path [%s] the table nested as (%s) is indexed by the quantities (%s): neither the arguments' own roles nor the exchange (j1,m1)<->(j2,m2) "
                "(roles of the parameters as handed over by cg_coef's `%s`; either these keys or that call are misordered)"
                % (p.cond_text(), ",".join(ROLES), ",".join(str(r) for r in d["key_roles"]), fb_text),
                file=CG_REL, line=getattr(p.ret, "lineno", g.lineno),
            )

    # E5-key: conversion of each key position reproduces the JSON spelling of every value stored at that level
    level_vals = [set() for _ in range(TABLE_DEPTH)]
    for tup in entries:
        for lv, v in enumerate(tup):
            level_vals[lv].add(v)
    for d in infos:
        if d["kind"] not in ("direct", "exchanged"):
            continue
        for lv, k in enumerate(d["keys"]):
            role = d["key_roles"][lv]
            q = param_of_role[role]
            bad = []
            for v in sorted(level_vals[lv]):
                try:
                    got = ev(k, {q: pyval(v)}, {})
                except AnalysisError:
                    raise
                want = str(pyval(v))
                if got != want:
                    bad.append((pyval(v), got, want))
            chk.oblige(
                "E5-key",
                "path %d key %d `%s`: spelling equals the JSON key for all %d values of that level" % (d["idx"], lv, norm_text(k), len(level_vals[lv])),
                not bad, show=False,
            )
            if bad:
                v, got, want = bad[0]
                chk.violation(
                    "E5-key", where, "key %d `%s`" % (lv, norm_text(k)),
                    "for %s=%r the lookup key is %r but the JSON file spells it %r (%d of %d values differ): the lookup misses and yields the except-branch value"
                    % (q, v, got, want, len(bad), len(level_vals[lv])),
                    file=CG_REL, line=g.lineno,
                )
    chk.out("  [E5-key] key conversions checked on %d lookup paths x %d levels" % (n_lookup, TABLE_DEPTH))

    # domain: spins of the table range (both orderings) and spin 0
    spins = sorted({Fraction(0)} | {b[0] for b in blocks} | {b[1] for b in blocks})
    sign_seen = {}  # (path idx, j1, j2, J) -> mult
    n_pts = n_bad = n_pre = n_signbad = n_inadm = 0
    lookup_viol = []
    sign_viol = {}
    for j1 in spins:
        for j2 in spins:
            in_table = (j1 == 0 or j2 == 0) or (j1, j2) in blocks or (j2, j1) in blocks
            if not in_table:
                continue
            J = Fraction(0) if (j1 + j2).denominator == 1 else Fraction(1, 2)
            while J <= j1 + j2 + 1:
                m1 = -j1
                while m1 <= j1:
                    m2 = -j2
                    while m2 <= j2:
                        M = m1 + m2
                        adm = admissible(j1, j2, m1, m2, J, M) is None
                        # inadmissible (J, M) are decided on the paths that consult the table only:
                        # there the miss handler defines the value, which has to be the exact 0
                        if adm or (j1 != 0 and j2 != 0):
                            n_pts += 1
                            n_inadm += 0 if adm else 1
                            rv = {"j1": j1, "j2": j2, "m1": m1, "m2": m2, "J": J, "M": M}
                            val = {param_of_role[r]: pyval(v) for r, v in rv.items()}
                            hit = [d for d in infos if all(bool(ev(c, val, glob)) == t for c, t in d["path"].conds)]
                            if len(hit) != 1:
                                raise AnalysisError("get_cg_coef: %d paths match the point %s" % (len(hit), val))
                            d = hit[0]
                            if not adm and d["kind"] == "const":
                                n_pts -= 1
                                n_inadm -= 1
                                m2 += 1
                                continue
                            p = d["path"]
                            pt = "get_cg_coef(%s)" % ", ".join("%s=%r" % (q, val[q]) for q in g.params)
                            failed = [a for a in p.asserts if not ev(a, val, glob)]
                            if failed:
                                n_pre += 1
                                chk.oblige("E5-lookup", pt + " passes the asserts", False, show=False)
                                if n_pre <= 3:
                                    chk.violation("E5-lookup", where, "assert " + norm_text(failed[0]), "the admissible point %s is rejected by `assert %s`" % (pt, norm_text(failed[0])), file=CG_REL, line=g.lineno)
                                m2 += 1
                                continue
                            exact = cg_exact(j1, m1, j2, m2, J, M)
                            try:
                                got = ev(p.ret, val, glob)
                                err = None
                            except LookupMiss as e:
                                got, err = None, "KeyError(%r) escapes" % (e.args[0],)
                            ok = got is not None and isinstance(got, (int, float)) and not isinstance(got, bool) and abs(got - exact) < TOL
                            chk.oblige("E5-lookup", "%s = %r vs exact %.17g" % (pt, got, exact), ok, show=False)
                            if not ok:
                                n_bad += 1
                                if n_bad <= MAX_VIOL:
                                    lookup_viol.append((
                                        getattr(p.ret, "lineno", g.lineno), pt,
                                        "path [%s] returns `%s` = %s but <%s %s %s %s|%s %s> = %.17g%s"
                                        % (p.cond_text(), norm_text(p.ret), err or repr(got), j1, m1, j2, m2, J, M, exact,
                                           "" if adm else " (selection rules: %s)" % admissible(j1, j2, m1, m2, J, M)),
                                    ))
                            # multiplier of the looked-up value
                            if adm and d["kind"] in ("direct", "exchanged"):
                                tk = (d["idx"], j1, j2, J)
                                v0 = ev(d["holed"], dict(val, **{HOLE: 0.0}), glob)
                                v1 = ev(d["holed"], dict(val, **{HOLE: 1.0}), glob)
                                v2 = ev(d["holed"], dict(val, **{HOLE: 2.0}), glob)
                                mult = v1 if (v0 == 0 and v2 == 2 * v1) else None
                                want = (-1) ** int(j1 + j2 - J) if d["kind"] == "exchanged" else 1
                                if tk not in sign_seen:
                                    sign_seen[tk] = (mult, want)
                                elif sign_seen[tk][0] != mult:
                                    sign_seen[tk] = ("varies with m", want)
                        m2 += 1
                    m1 += 1
                J += 1
    per_path = {}
    for (idx, j1, j2, J), (mult, want) in sorted(sign_seen.items()):
        ok = mult == want and not isinstance(mult, str)
        d = infos[idx]
        chk.oblige("E5-sign", "path %d (%s) j1=%s j2=%s J=%s: factor %s, required %+d" % (idx, d["kind"], j1, j2, J, mult, want), ok, show=False)
        st = per_path.setdefault(idx, [0, 0])
        st[0] += 1
        if not ok:
            st[1] += 1
            n_signbad += 1
            if n_signbad <= 6:
                req = "(-1)^(j1+j2-J) = %+d because the pair is exchanged" % want if d["kind"] == "exchanged" else "+1 because the pair is not exchanged"
                chk.violation(
                    "E5-sign", where, "path [%s] j1=%s j2=%s J=%s" % (d["path"].cond_text(), j1, j2, J),
                    "the looked-up value is multiplied by %s in `%s`; required %s" % (mult, norm_text(d["path"].ret), req),
                    file=CG_REL, line=getattr(d["path"].ret, "lineno", g.lineno),
                )
    for idx, (n, nb) in sorted(per_path.items()):
        d = infos[idx]
        chk.out(
            "  [E5-sign] path %d [%s] %s: factor of the lookup in `%s` is %s on %d/%d spin triples"
            % (idx, d["path"].cond_text(), d["kind"], norm_text(d["path"].ret), "(-1)^(j1+j2-J)" if d["kind"] == "exchanged" else "+1", n - nb, n)
        )
    for ln, pt, msg in lookup_viol:
        chk.violation("E5-lookup", where, pt, msg, file=CG_REL, line=ln)
    exch = [i for i, dd in enumerate(infos) if dd["kind"] == "exchanged"]
    if not any(i in per_path for i in exch):
        # the table stores one ordering only; without an exchanged path the other ordering cannot be served
        stored_both = all((b[1], b[0]) in blocks for b in blocks)
        if not stored_both:
            chk.info("no exchanged lookup path is reachable although the table stores one ordering only (see E5-lookup)")
    chk.out(
        "  [E5-lookup] %d points over spins %s (%d admissible, %d outside the selection rules on table-consulting paths): %d disagree, %d rejected by asserts"
        % (n_pts, ",".join(str(s) for s in spins), n_pts - n_inadm, n_inadm, n_bad, n_pre)
    )
    if n_bad > MAX_VIOL:
        chk.info("E5-lookup: %d points disagree; only the first %d are recorded" % (n_bad, MAX_VIOL))
    chk.extra["lookup_points"] = n_pts
    chk.extra["lookup_paths"] = len(paths)

    # observations outside the decided clause
    _observations(chk, g, infos, param_of_role, glob, spins)
    return True


def _observations(chk, g, infos, param_of_role, glob, spins):
    """what the summaries say outside the table's domain - reported, not decided"""
    # zero-spin shortcut on inadmissible arguments
    zero_bad = 0
    example = None
    for j1 in spins:
        for j2 in spins:
            if j1 != 0 and j2 != 0:
                continue
            for J in spins:
                if abs(j1 - j2) <= J <= j1 + j2:
                    continue
                rv = {"j1": j1, "j2": j2, "m1": Fraction(0), "m2": Fraction(0), "J": J, "M": Fraction(0)}
                val = {param_of_role[r]: pyval(v) for r, v in rv.items()}
                try:
                    hit = [d for d in infos if all(bool(ev(c, val, glob)) == t for c, t in d["path"].conds)]
                    if len(hit) != 1 or any(not ev(a, val, glob) for a in hit[0]["path"].asserts):
                        continue
                    got = ev(hit[0]["path"].ret, val, glob)
                except (AnalysisError, LookupMiss):
                    continue
                if isinstance(got, (int, float)) and abs(got) > TOL:
                    zero_bad += 1
                    example = example or ("get_cg_coef(%s) = %r" % (", ".join("%s=%r" % (q, val[q]) for q in g.params), got))
    if zero_bad:
        chk.info(
            "outside the decided clause: with a zero spin and J violating the triangle rule the summary returns a non-zero value "
            "(%d such triples, e.g. %s, exact 0); callers are assumed to pass admissible couplings" % (zero_bad, example)
        )
    # float / half-integer spellings
    for d in infos:
        if d["kind"] in ("direct", "exchanged"):
            k = d["keys"][0]
            q = param_of_role[d["key_roles"][0]]
            try:
                f1 = ev(k, {q: 1.0}, {})
                h = ev(k, {q: 0.5}, {})
            except AnalysisError:
                break
            top = set(glob[next(iter(glob))].keys())
            if f1 not in top or h not in top:
                chk.info(
                    "outside the decided clause: the key conversion `%s` spells a float spin 1.0 as %r and spin 1/2 as %r, which are not keys of the table "
                    "(integer spellings only); such calls take the except branch and return its value silently" % (norm_text(k), f1, h)
                )
            break


# --------------------------------------------------- part (c): other tables
def _numeric_leaves(n):
    c = 0
    for x in ast.walk(n):
        if isinstance(x, ast.Constant) and isinstance(x.value, (int, float)) and not isinstance(x.value, bool):
            c += 1
    return c


def scan_literal_tables(repo, chk):
    found = []
    for rel in (CG_REL, DFUN_REL):
        m = repo.mods.get(rel)
        if m is None:
            chk.info("%s not present: nothing to scan for literal tables" % rel)
            continue
        seen = set()
        for n in ast.walk(m.tree):
            if isinstance(n, (ast.List, ast.Tuple, ast.Dict)) and id(n) not in seen:
                for x in ast.walk(n):
                    seen.add(id(x))
                only_lit = all(
                    isinstance(x, (ast.List, ast.Tuple, ast.Dict, ast.Constant, ast.UnaryOp, ast.USub, ast.Load))
                    for x in ast.walk(n)
                )
                if only_lit and _numeric_leaves(n) >= 6:
                    found.append("%s:%d `%s`" % (rel, n.lineno, norm_text(n)[:60]))
    if found:
        for f in found:
            chk.info("literal numeric table not covered by this check: %s" % f)
    else:
        chk.info("no literal coefficient table (>= 6 numeric constants) in %s or %s besides the JSON file" % (CG_REL, DFUN_REL))
    sd = repo.fn_opt(DFUN_REL + "::small_d_weight")
    chk.info(
        "Wigner small-d weights (%s) are produced by factorial loops at run time: not executed, not decided here"
        % (sd.key if sd is not None else DFUN_REL + "::small_d_weight [absent]")
    )


# ------------------------------------------------------------------------ run
def check_m_grid(repo, chk):
    """D_matrix_conj: the magnetic quantum numbers fed to exp(i m alpha) / exp(i m gamma) are -j, -j+1, ..., j
    for every doubled spin 2j = 0..8 (constant folding of the np.arange arguments per 2j)"""
    import ast as _ast

    import sympy as _sp

    from ..model import norm_text as _nt
    from ..model import walk_local as _wl
    from ..sym import Translator, Unmodelled

    chk.rule("E5-mgrid", "D_matrix_conj builds m = (-j, -j+1, ..., j) (2j+1 values, unit step, half-integers for odd 2j) for every supported spin; both phase factors exp(i m alpha), exp(i m gamma) use this grid")
    fn = repo.fn("tf_pwa/dfun.py::D_matrix_conj")
    grid = None
    for n in _wl(fn.node):
        if isinstance(n, _ast.Assign) and isinstance(n.targets[0], _ast.Name) and n.targets[0].id == "m":
            ar = [x for x in _ast.walk(n.value) if isinstance(x, _ast.Call) and _nt(x.func).endswith("arange")]
            if ar:
                grid = ar[0]
    if grid is None:
        # spelt differently (temporary, other name): E6-Dconj interprets D_matrix_conj as a whole, entry by entry
        chk.info("E5-mgrid: `m = ...arange(...)` not found in D_matrix_conj; the matrix is decided entry by entry by E6-Dconj")
        return
    tr = Translator(repo)
    for jj in range(0, 9):
        try:
            v = tr.eval(grid, {"j": _sp.Integer(jj)}, fn.mod, 0)
        except Unmodelled as e:
            raise AnalysisError("D_matrix_conj m-grid not modelled: %s" % e)
        got = [x for x in list(v)]
        want = [_sp.Rational(-jj, 2) + k for k in range(jj + 1)]
        ok = got == want
        chk.oblige("E5-mgrid", "2j=%d: m grid %s" % (jj, [str(x) for x in got]), ok, show=False)
        if not ok:
            chk.violation("E5-mgrid", fn.key, "m-grid:2j=%d" % jj, "for 2j=%d `%s` gives m = %s, the D-matrix needs %s" % (jj, _nt(grid), [str(x) for x in got], [str(x) for x in want]), file="tf_pwa/dfun.py", line=grid.lineno)
    # both exponentials use m
    uses = [x for x in _wl(fn.node) if isinstance(x, _ast.Call) and _nt(x.func) == "exp_i"]
    ok = len(uses) == 2 and all(len(u.args) == 2 and _nt(u.args[1]) == "m" for u in uses) and sorted(_nt(u.args[0]) for u in uses) == ["alpha", "gamma"]
    if ok:
        chk.oblige("E5-mgrid", "exp_i(alpha, m) and exp_i(gamma, m) both use the grid", ok)
    else:
        # which expression carries the grid into the phase factors is a matter of spelling: E6-Dconj compares every
        # entry of D_matrix_conj with exp(i m_a alpha) d(beta) exp(i m_b gamma)
        chk.info("E5-mgrid: phase factors spelt as %s (decided by E6-Dconj)" % [_nt(u) for u in uses])
    chk.out("  [E5-mgrid] m grids for 2j = 0..8 checked")


def lookup_by_interpretation(repo, chk, table_name, table, tier):
    """get_cg_coef interpreted as a whole, with the JSON table as the module global it reads, at every admissible point of
    the table's spin range in both orderings (python ints for integer spins, floats for half-integer ones, as callers pass
    them) plus points outside the selection rules: the value is the exact coefficient"""
    from ..sym import Raised, Translator, Unmodelled
    chk.rule("E5-lookup-sem", "get_cg_coef interpreted as a whole (table = the bundled JSON, try/except and nested helper included) at every admissible (j1, m1, j2, m2, J) of the spin range, both orderings, plus J outside the triangle: the result is the exact Clebsch-Gordan coefficient (sign of the (j1,m1)<->(j2,m2) exchange included)")
    fn = repo.fn(CG_REL + "::get_cg_coef")
    # the spin range the table covers: its stored (j1, j2) blocks, consulted in both orderings
    stored = sorted({Fraction(k) for k in table} | {Fraction(k2) for k in table for k2 in table[k]})
    jmax = Fraction(2) if tier == "quick" else max(stored)
    spins = [x for x in stored if x <= jmax]

    def py(x):
        return int(x) if x.denominator == 1 else float(x)

    n, bad = 0, []
    # integer arguments come as Python ints (isinstance(x, int) holds) or as other integer types - numpy integers from
    # np.arange, say - whose str() is spelt the same but for which it does not: both kinds must find the table
    for int_kind in ("python int", "numpy integer"):
      def _isinst(tr_, a_, k_, n_, _kind=int_kind):
          names_ = {x.id for x in _ast.walk(n_.args[1]) if isinstance(x, _ast.Name)} if len(n_.args) > 1 else set()
          v_ = a_[0]
          is_int = isinstance(v_, int) or bool(getattr(v_, "is_Integer", False))
          return _kind == "python int" and is_int and "int" in names_
      tr = Translator(repo, hooks={"globals": {table_name: table}, "allow_raise": True, "builtin.isinstance": _isinst}, max_depth=3)
      for j1 in spins:
          for j2 in spins:
              Js = [abs(j1 - j2) + k for k in range(int(j1 + j2 - abs(j1 - j2)) + 1)] + [j1 + j2 + 1]
              for k1 in range(int(2 * j1) + 1):
                  m1 = -j1 + k1
                  for k2 in range(int(2 * j2) + 1):
                      m2 = -j2 + k2
                      for J in Js:
                          if abs(m1 + m2) > J and J <= j1 + j2:
                              continue
                          try:
                              got = tr.call_fn(fn, [py(j1), py(j2), py(m1), py(m2), py(J), py(m1 + m2)])
                          except Unmodelled as e:
                              return "unmodelled: %s" % e
                          except Raised as e:
                              got = "raises %s" % e
                          want = cg_exact(j1, m1, j2, m2, J, m1 + m2)
                          n += 1
                          try:
                              ok = abs(float(got) - want) < 1e-12
                          except (TypeError, ValueError):
                              ok = False
                          if not ok:
                              bad.append("get_cg_coef(%s, %s, %s, %s, %s, %s) [integers as %s] = %s, exact value %.12g" % (py(j1), py(j2), py(m1), py(m2), py(J), py(m1 + m2), int_kind, got, want))
    chk.oblige("E5-lookup-sem", "get_cg_coef interpreted at %d points (stored spins up to %s, both orderings): %d deviations" % (n, jmax, len(bad)), not bad)
    if bad:
        chk.violation("E5-lookup-sem", fn.key, "value", "%d of %d points deviate from the exact coefficient; first: %s" % (len(bad), n, bad[0]), file=CG_REL, line=fn.lineno)
    if n < 100:
        raise AnalysisError("E5-lookup-sem: only %d points" % n)
    return True


def run(repo, chk, tier):
    chk.rule("E5-cg", "every leaf of the bundled JSON table equals the exact Clebsch-Gordan coefficient of its key path (Racah formula, exact rationals, one sqrt; |delta|<1e-12) and its key path obeys the selection rules")
    chk.rule("E5-cg-complete", "within each stored (j1,j2) block no admissible key path with non-zero coefficient is absent (an absent path is served as 0.0)")
    chk.rule("E5-args", "cg_coef binds each quantity to the same role in its sympy branch and in its get_cg_coef fallback")
    chk.rule("E5-swap", "each path of get_cg_coef indexes the table by its arguments in their own roles or with (j1,m1)<->(j2,m2) exchanged")
    chk.rule("E5-sign", "the looked-up value is multiplied by (-1)^(j1+j2-J) exactly on the exchanged paths and by +1 otherwise")
    chk.rule("E5-key", "the lookup's key conversion reproduces the JSON key spelling for every stored key value")
    chk.rule("E5-lookup", "path summaries of get_cg_coef equal the exact coefficient at every admissible point of the table's spin range (both orderings, spin 0) and, on the paths that consult the table, also at every (J, M) outside the selection rules, where the miss handler must give 0 (bounded model check)")
    chk.trusted_base = [
        "checker's own Racah formula in fractions.Fraction",
        "json/ast parsers",
        "argument order of sympy.physics.quantum.cg.CG(j1, m1, j2, m2, j3, m3)",
        "checker's evaluator of the path-summary expression language (arithmetic, comparisons, str/int/float, dict subscripts)",
    ]
    chk.assume("callers pass integer spins as Python ints (a float 1.0 is spelled '1.0' by str and misses the table)")
    chk.assume("assert statements of get_cg_coef are preconditions; an except clause without a type or with Exception/KeyError/LookupError catches a missing key")

    _selftest()
    table_name, rel, line = locate_table(repo)
    chk.instance("E5-cg", "%s binds `%s` to json.load of %s (line %d)" % (CG_REL, table_name, rel, line), nontrivial=False)
    table, entries, blocks, keys_ok = check_table(repo, chk, rel)
    sem = lookup_by_interpretation(repo, chk, table_name, table, tier)
    try:
        done = check_lookup(repo, chk, table_name, table, entries, blocks)
    except AnalysisError as e:
        if sem is not True:
            raise
        chk.info("path-summary rules E5-swap / E5-sign / E5-key / E5-lookup not completed (%s); get_cg_coef is decided by E5-lookup-sem" % e)
        done = False
    if sem is not True:
        chk.info("E5-lookup-sem: get_cg_coef not interpretable as a whole (%s); decided by the path summaries" % sem)
    scan_literal_tables(repo, chk)
    check_m_grid(repo, chk)
    from .c12_su2 import check_su2

    check_su2(repo, chk)
    from .c12_wigner import check_wigner

    check_wigner(repo, chk, tier)
    from .c12_wigner import check_gather

    check_gather(repo, chk)
    from .c12_coef import check_cg_coef

    check_cg_coef(repo, chk, tier, cg_sq)
    from ..cacheown import check_cache_ownership

    # small_d_weight and the delta-index tables are memoised per spin and shared by every D-matrix evaluation
    check_cache_ownership(repo, chk, ["tf_pwa/dfun.py", "tf_pwa/cov_ten_ir.py"], 5, 5)
    chk.require_count("E5-cg", MIN_ENTRIES)
    if done and not any(v["rule"] in ("E5-swap", "E5-args") for v in chk.violations):
        chk.require_count("E5-swap", 2)
        chk.require_count("E5-sign", 10)
        chk.require_count("E5-key", TABLE_DEPTH)
        chk.require_count("E5-lookup", MIN_ENTRIES)
